"""C03 - HTTP parsing does not depend on how the byte stream is segmented.

World P: the real RequestHandler (server side, through low-level web.Server)
and the real ResponseHandler (client side) attached to SimTransports; one run
pushes one stream through many connections, each with its own explicit cut
set, and compares every outcome with the one-delivery and byte-at-a-time
outcomes of the same code (metamorphic oracle).  DESIGN.md section 9, C03.
"""
from __future__ import annotations

import asyncio
import random
import re
import zlib

from gen import http_gen as G
from sim.world import World

try:  # zstd is an optional content coding of aiohttp (Python 3.14 `compression.zstd` or `backports.zstd`)
    from compression import zstd as _zstd
except ImportError:  # pragma: no cover
    try:
        from backports import zstd as _zstd
    except ImportError:
        _zstd = None

PROP = "C03"
LEVEL = "fault_enumeration"
DESIGN_REF = "9/C03"
BUDGET = {"quick": 75, "thorough": 900}
BATCH = 20
ENUM_BATCH = 8
ENUM_SHARE = 0.7
ENUM_IS_EXHAUSTIVE = True
ENUM_RULE = ("for each listed stream (server requests and client responses, each under several limit sets): every single cut "
             "point, every pair of cut points, byte-at-a-time and whole delivery - complete for the listed streams; the "
             "seeded search adds random k-cuts and adversarial cuts on longer generated streams")
TECHNIQUE = ("deterministic simulation with exhaustive fault enumeration: the delivery schedule (segmentation) of each "
             "stream is enumerated completely for 1 and 2 cuts through the real protocol objects on the simulated "
             "transport; metamorphic oracle against the one-delivery outcome")
LEVEL_TEXT = (
    "For every listed stream all single and double cut sets are delivered through the real RequestHandler / "
    "ResponseHandler (real data_received, tail handling, pause/resume) and each outcome is compared with the whole-"
    "delivery and byte-at-a-time outcomes: accepted streams must give identical messages, fields, bodies and chunk "
    "boundaries (for a content-coded body: of the decoded data) and, after an accepted upgrade, the identical bytes handed "
    "to the upgraded protocol; rejected streams must be rejected under every segmentation with the same class (limit / "
    "other), with prefix-consistent delivered messages. Exhaustive for the enumerated cut sets of the listed streams; longer streams "
    "are sampled."
)
LEVEL_NOTE = (
    "Trusted: the comparison is between runs of the same code, so a defect that is segmentation-independent is invisible "
    "here (C01/C10 own those). Streams <= ~170 bytes for double cuts. Limits: several equal and unequal sets incl. tiny "
    "read buffers."
)
RULE = (
    "Enumerated: streams x limit sets x {whole, byte-at-a-time, all single cuts, all pairs of cuts}. Seeded: generated "
    "request pipelines / responses (valid and mutated) x random k-cuts and adversarial cuts (after CR, inside chunk "
    "size, between header block and body, inside a line whose length is at its limit). One run = one stream x a block "
    "of cut sets; non-trivial when the stream yields at least one message or a rejection; distinct = (stream, limits, "
    "block) signature. `segmentations` in probes counts individual deliveries schedules executed. Both parts include "
    "messages whose outcome has more parts than head and plain body: bodies under a Content-Encoding (gzip, zlib-wrapped "
    "and header-less deflate; Content-Length, chunked, until-EOF) - the reader's view is the decoded data - and upgrade "
    "offers with and without a body followed by bytes of the upgraded protocol, which the recording application "
    "accepts (installs a byte recorder with protocol.set_parser once the message is read) or declines; about 14 % of "
    "the seeded scenarios, with additional cut sets confined to the body / hand-over region (probes coded_body, "
    "upgrade_taken, upgraded_bytes_seen). Bodies made of several independently coded members (multi-member gzip / "
    "deflate, multi-frame zstd when a zstd module is importable) whose decoded member sizes sit at, next to, at a "
    "fraction or a multiple of the read buffer limit (read_bufsize 2 ... 65536), under Content-Length, chunked (one "
    "chunk per member, one chunk, arbitrary chunks) and until-EOF framing: 8 hand-written streams with every single "
    "cut, and about 8 % of the seeded scenarios with cut sets at / around member ends (probes multi_member_body, "
    "multi_member_zstd). Early responses (the peer answers before the client has called set_response_params(), e.g. "
    "while the request body is still being written): the first k reads - one, two, a drawn number, all of them - are "
    "handed to the real ResponseHandler while it has no response parser yet and set_response_params() follows them; "
    "every response stream with every single cut (all reads early / the first read early) and about a third of the "
    "seeded client scenarios, k drawn per cut set; the outcomes are compared with whole and byte-at-a-time delivery "
    "like all others (probes early_response, early_response_in_several_reads, early_deliveries)."
)
COMPONENTS = {
    "real": ["web_protocol.RequestHandler (via web.Server)", "client_proto.ResponseHandler", "http_parser (Python) request and "
             "response parsers, HttpPayloadParser", "streams.StreamReader", "web_request.BaseRequest"],
    "stub": ["network (SimNet explicit cut lists)", "application (recording handler / recording consumer)",
             "upgraded protocol (byte recorder installed through protocol.set_parser)",
             "request side of the client (a forwarding shim decides when set_response_params() is called)"],
}
ASSUMPTIONS = [
    "the outcome class of a rejection is {limit hit, other}; which exact error text is produced may depend on where the "
    "rejection is noticed and is not compared",
    "a rejection may drop valid messages parsed earlier in the same read (prefix rule)",
]

_STATUS = re.compile(rb"HTTP/1\.[01] (\d{3}) ")

# ---------------------------------------------------------------------------
# streams

SERVER_STREAMS = [
    "GET / HTTP/1.1\r\nHost: a\r\n\r\n",
    "GET /p?q=1 HTTP/1.1\r\nHost: a\r\nX: " + "a" * 50 + "\r\n\r\n",
    "POST /p HTTP/1.1\r\nHost: a\r\nContent-Length: 5\r\n\r\nhelloGET /2 HTTP/1.1\r\nHost: a\r\n\r\n",
    "POST /p HTTP/1.1\r\nHost: a\r\nTransfer-Encoding: chunked\r\n\r\n3;x=y\r\nabc\r\n2\r\nde\r\n0\r\nT: v\r\n\r\n",
    "POST /p HTTP/1.1\r\nHost: a\r\nTransfer-Encoding: chunked\r\n\r\n5\r\nhello\r\n0\r\n\r\nGET /n HTTP/1.1\r\nHost: a\r\n\r\n",
    "POST /p HTTP/1.1\r\nHost: a\r\nTransfer-Encoding: chunked\r\n\r\n00000000000000000003\r\nabc\r\n0\r\n\r\n",
    "POST /p HTTP/1.1\r\nHost: a\r\nTransfer-Encoding: chunked\r\n\r\n3\r\nabc\r\n0\r\n" + "Trailer-Name: " + "t" * 30 + "\r\n\r\n",
    # empty lines between pipelined messages (RFC 9112 2.2: a server SHOULD ignore at least one)
    "POST /p HTTP/1.1\r\nHost: a\r\nContent-Length: 3\r\n\r\nabc\r\nGET /2 HTTP/1.1\r\nHost: a\r\n\r\n",
    "GET /1 HTTP/1.1\r\nHost: a\r\n\r\n\r\n\r\nGET /2 HTTP/1.1\r\nHost: a\r\n\r\n",
    "\r\nPOST /p HTTP/1.1\r\nHost: a\r\nTransfer-Encoding: chunked\r\n\r\n1\r\nx\r\n0\r\n\r\n\r\nGET /2 HTTP/1.1\r\nHost: a\r\n\r\n",
    "GET /\nx HTTP/1.1\r\nHost: a\r\n\r\n",
    "GET /\rx HTTP/1.1\r\nHost: a\r\n\r\n",
    "GET / HTTP/1.1\r\nHost: a\nX: y\r\n\r\n",
    "GET / HTTP/1.1\r\nHost: a\r\nX: a\rb\r\n\r\n",
    "POST /p HTTP/1.1\r\nHost: a\r\nTransfer-Encoding: chunked\r\n\r\n3\nabc\r\n0\r\n\r\n",
    "POST /p HTTP/1.1\r\nHost: a\r\nTransfer-Encoding: chunked\r\n\r\n3\r\nabcX\r\n0\r\n\r\n",
    "POST /p HTTP/1.1\r\nHost: a\r\nTransfer-Encoding: chunked\r\n\r\n3;a\nb\r\nabc\r\n0\r\n\r\n",
    "POST /p HTTP/1.1\r\nHost: a\r\nContent-Length: 3\r\nContent-Length: 3\r\n\r\nabc",
    "GET / HTTP/1.1\r\nHost: a\r\nConnection: close\r\n\r\nGET /after HTTP/1.1\r\nHost: a\r\n\r\n",
    "\r\n\r\nGET / HTTP/1.1\r\nHost: a\r\n\r\n",
    "GET / HTTP/1.0\r\n\r\nGET /2 HTTP/1.0\r\nConnection: keep-alive\r\n\r\n",
    "OPTIONS * HTTP/1.1\r\nHost: a\r\nUpgrade: websocket\r\nConnection: upgrade\r\n\r\n\x81\x00rest",
    "GET http://h/p HTTP/1.1\r\nHost: h\r\nX-A:\r\nX-B: \t v \t\r\n\r\n",
    "HEAD / HTTP/1.1\r\nHost: a\r\nContent-Length: 4\r\n\r\nGET ",
    "PUT /p HTTP/1.1\r\nHost: a\r\nTransfer-Encoding: chunked\r\n\r\n1\r\na\r\n1\r\nb\r\n1\r\nc\r\n1\r\nd\r\n0\r\n\r\n",
    "GET /" + "t" * 40 + " HTTP/1.1\r\nHost: a\r\n\r\n",
    "GET / HTTP/1.1\r\nHost: a\r\n" + "".join(f"H{i}: v\r\n" for i in range(9)) + "\r\n",
]

CLIENT_STREAMS = [
    ("HTTP/1.1 200 OK\r\nContent-Length: 5\r\n\r\nhello", False),
    ("HTTP/1.1 200 OK\r\nTransfer-Encoding: chunked\r\n\r\n3;x\r\nabc\r\n2\r\nde\r\n0\r\nT: v\r\n\r\n", False),
    ("HTTP/1.1 200 OK\nContent-Length: 2\n\nhi", False),
    ("HTTP/1.1 200 OK\r\nX: a\r\n folded\r\nContent-Length: 2\r\n\r\nhi", False),
    ("HTTP/1.0 200 OK\r\n\r\nbody until eof", True),
    ("HTTP/1.1 200 OK\r\nConnection: close\r\n\r\nclose delimited", True),
    ("HTTP/1.1 204 No Content\r\nX: y\r\n\r\nHTTP/1.1 200 OK\r\nContent-Length: 1\r\n\r\nz", False),
    ("HTTP/1.1 100 Continue\r\n\r\nHTTP/1.1 200 OK\r\nContent-Length: 2\r\n\r\nok", False),
    ("HTTP/1.1 200 OK\r\nTransfer-Encoding: chunked\r\n\r\n3 \r\nabc\r\n0\r\n\r\n", False),
    ("HTTP/1.1 200 OK\r\nTransfer-Encoding: chunked\r\n\r\n3\r\nabcX\r\n0\r\n\r\n", False),
    ("HTTP/1.1 200 OK\r\nTransfer-Encoding: chunked\r\n\r\nzz\r\nabc\r\n0\r\n\r\n", False),
    ("HTTP/1.1 200  OK  \r\nContent-Length: 0\r\n\r\n", False),
    ("HTTP/1.1 20 OK\r\n\r\n", False),
    ("HTTP/1.1 200 OK\r\nContent-Length: 2\r\nContent-Length: 2\r\n\r\nhi", False),
    ("HTTP/1.1 200 OK\r\nX: " + "v" * 60 + "\r\nContent-Length: 1\r\n\r\na", False),
    ("HTTP/1.1 200 " + "R" * 40 + "\r\nContent-Length: 1\r\n\r\na", False),
    ("HTTP/1.1 200 OK\r\nTransfer-Encoding: chunked\r\n\r\n1\r\na\r\n1\r\nb\r\n1\r\nc\r\n0\r\n\r\n", False),
    ("HTTP/1.1 200 OK\r\nContent-Length: 3\r\n\r\nab", True),
    ("HTTP/1.1 200 OK\r\nTransfer-Encoding: chunked\r\n\r\n5\r\nhel", True),
    ("HTTP/1.1 200 OK\r\nX: a\x00b\r\nContent-Length: 0\r\n\r\n", False),
]

LIMIT_SETS = [
    {"max_line_size": 8190, "max_field_size": 8190, "max_headers": 128, "read_bufsize": 65536},
    {"max_line_size": 8190, "max_field_size": 8190, "max_headers": 128, "read_bufsize": 2},
    {"max_line_size": 20, "max_field_size": 100, "max_headers": 128, "read_bufsize": 65536},
    {"max_line_size": 100, "max_field_size": 20, "max_headers": 128, "read_bufsize": 65536},
    {"max_line_size": 45, "max_field_size": 45, "max_headers": 6, "read_bufsize": 4},
    {"max_line_size": 64, "max_field_size": 33, "max_headers": 12, "read_bufsize": 16},
]


# ---------------------------------------------------------------------------
# streams whose parse outcome has more parts than head + plain body: a content-coded body (what the
# reader gets is the decoded data) and a protocol upgrade (what follows the message belongs to the
# upgraded protocol and must reach it byte for byte)


def _coded(data: str, coding: str, level: int = 6) -> str:
    """`data` under a Content-Encoding; "deflate-raw" is the header-less deflate form that is widely sent
    under the name `deflate` and that aiohttp accepts by looking at the first body byte."""
    wbits = {"gzip": 31, "deflate": 15, "deflate-raw": -15}[coding]
    c = zlib.compressobj(level, zlib.DEFLATED, wbits)
    return G.dec(c.compress(G.enc(data)) + c.flush())


def _chunked(data: str, sizes, exts=("",), trailers="") -> str:
    out, pos, i = [], 0, 0
    while pos < len(data):
        k = max(1, sizes[i % len(sizes)])
        piece = data[pos:pos + k]
        out.append("%x%s\r\n%s\r\n" % (len(piece), exts[i % len(exts)], piece))
        pos += k
        i += 1
    return "".join(out) + "0\r\n" + trailers + "\r\n"


def _coded_members(pieces, coding: str, level: int = 3):
    """Every piece coded on its own and the results concatenated: a multi-member gzip / deflate stream or a
    multi-frame zstd stream (what a sender produces that compresses block by block or appends to a coded file).
    -> list of the coded members."""
    if coding == "zstd":
        return [G.dec(_zstd.compress(G.enc(p), level)) for p in pieces]
    return [_coded(p, coding, level) for p in pieces]


def _build_m(m):
    """Stream of a multi-member scenario from its description `m` -> (stream, parts, offset of the body,
    offsets at which a member / frame ends)."""
    members = _coded_members(m["pieces"], m["coding"], m["level"])
    wire = "".join(members)
    hdrs = list(m["hdrs"])
    if m["framing"] == "cl":
        hdrs.append("Content-Length: %d" % len(wire))
        body = wire
        rel = [sum(len(x) for x in members[:i + 1]) for i in range(len(members))]
    elif m["framing"] == "chunked":
        hdrs.append("Transfer-Encoding: chunked")
        if m["chunking"] == "member":
            body, rel = "", []
            for x in members:
                body += "%x\r\n%s\r\n" % (len(x), x)
                rel.append(len(body))
            body += "0\r\n\r\n"
        elif m["chunking"] == "one":
            body = "%x\r\n%s\r\n0\r\n\r\n" % (len(wire), wire)
            rel = [len("%x\r\n" % len(wire)) + sum(len(x) for x in members[:i + 1]) for i in range(len(members))]
        else:
            body = _chunked(wire, m["chunking"])
            rel = []
    else:  # until the peer closes
        body = wire
        rel = [sum(len(x) for x in members[:i + 1]) for i in range(len(members))]
    msg = m["start"] + "".join(h + "\r\n" for h in hdrs) + "\r\n"
    parts = ([m["pre"]] if m["pre"] else []) + [msg + body] + ([m["post"]] if m["post"] else [])
    mark = len(m["pre"]) + len(msg)
    s = "".join(parts)
    return s, parts, mark, [mark + r for r in rel if 0 < mark + r < len(s)]


def _m_limits(bufsize):
    return dict(LIMIT_SETS[0], read_bufsize=bufsize)


def _m_streams():
    """Hand-written multi-member bodies whose member sizes relate to the read buffer limit: (description, limits)."""
    out = []

    def add(side, coding, sizes, bufsize, framing, chunking="member", post="", eof=False):
        if coding == "zstd" and _zstd is None:
            return
        start = "HTTP/1.1 200 OK\r\n" if side == "client" else "POST /p HTTP/1.1\r\nHost: a\r\n"
        hdrs = ["Content-Encoding: " + coding] + (["Connection: close"] if eof else [])
        pieces = [chr(65 + i) * k for i, k in enumerate(sizes)]
        out.append(({"side": side, "pre": "", "start": start, "hdrs": hdrs, "coding": coding, "level": 3, "framing": framing,
                     "chunking": chunking, "pieces": pieces, "post": post, "eof": eof}, _m_limits(bufsize)))

    nxt = "GET /n HTTP/1.1\r\nHost: a\r\n\r\n"
    add("client", "zstd", [16, 16, 3], 16, "cl")
    add("server", "zstd", [4, 4, 4, 1], 4, "chunked", "member", post=nxt)
    add("client", "zstd", [8, 8, 16, 5], 16, "chunked", "one")
    add("server", "zstd", [2, 2, 2], 2, "cl", post=nxt)
    add("client", "zstd", [16, 15, 17, 1], 16, "eof", eof=True)
    add("client", "gzip", [16, 16, 3], 16, "cl")
    add("server", "gzip", [4, 4, 1], 4, "chunked", "one", post=nxt)
    add("client", "deflate", [2, 2, 2], 2, "eof", eof=True)
    return out


def _m_scenario(m, limits, cuts, mode="list"):
    s, parts, mark, ends = _build_m(m)
    return {"side": m["side"], "stream": s, "eof": bool(m["eof"]), "limits": limits, "mode": mode, "cuts": cuts,
            "block": [0, len(cuts) if cuts is not None else len(s)], "accept_upgrade": False, "parts": parts, "m": m,
            "x": {"coding": m["coding"], "upgrade": False}}


# opaque bytes of an upgraded protocol (websocket-like frames); they contain CRLFs, so a parser that wrongly
# goes on reading HTTP trips over them
_FRAMES = "\x81\x03hi\r\n\x88\x02\x03\xe8\r\n\r\n"
_TXT = "hello hello hello hello"

# (stream, handler accepts an offered upgrade)
SERVER_STREAMS_X = [
    ("POST /p HTTP/1.1\r\nHost: a\r\nContent-Encoding: deflate\r\nTransfer-Encoding: chunked\r\n\r\n"
     + _chunked(_coded(_TXT, "deflate-raw"), [4, 64]) + "GET /n HTTP/1.1\r\nHost: a\r\n\r\n", False),
    ("POST /p HTTP/1.1\r\nHost: a\r\nContent-Encoding: deflate\r\nContent-Length: %d\r\n\r\n%s" % (
        len(_coded(_TXT, "deflate")), _coded(_TXT, "deflate")) + "GET /n HTTP/1.1\r\nHost: a\r\n\r\n", False),
    ("PUT /p HTTP/1.1\r\nHost: a\r\nContent-Encoding: gzip\r\nTransfer-Encoding: chunked\r\n\r\n"
     + _chunked(_coded(_TXT, "gzip"), [10, 3, 64], exts=("", ";x")), False),
    ("GET /ws HTTP/1.1\r\nHost: a\r\nConnection: Upgrade\r\nUpgrade: websocket\r\nContent-Length: 4\r\n\r\nabcd" + _FRAMES, True),
    ("GET /ws HTTP/1.1\r\nHost: a\r\nConnection: Upgrade\r\nUpgrade: websocket\r\nContent-Length: 4\r\n\r\nabcd" + _FRAMES, False),
    ("POST /t HTTP/1.1\r\nHost: a\r\nConnection: upgrade\r\nUpgrade: tcp\r\nTransfer-Encoding: chunked\r\n\r\n"
     + _chunked("abcdef", [4, 2], trailers="T: v\r\n") + _FRAMES, True),
    ("GET /ws HTTP/1.1\r\nHost: a\r\nConnection: Upgrade\r\nUpgrade: websocket\r\n\r\n" + _FRAMES, True),
]

# (stream, close after, consumer accepts an upgrade)
CLIENT_STREAMS_X = [
    ("HTTP/1.1 200 OK\r\nContent-Encoding: deflate\r\nTransfer-Encoding: chunked\r\n\r\n"
     + _chunked(_coded(_TXT, "deflate-raw"), [5, 64]), False, False),
    ("HTTP/1.1 200 OK\r\nContent-Encoding: gzip\r\nContent-Length: %d\r\n\r\n%s" % (
        len(_coded(_TXT, "gzip")), _coded(_TXT, "gzip")), False, False),
    ("HTTP/1.0 200 OK\r\nContent-Encoding: deflate\r\n\r\n" + _coded(_TXT, "deflate"), True, False),
    ("HTTP/1.1 101 Switching Protocols\r\nConnection: Upgrade\r\nUpgrade: websocket\r\n\r\n" + _FRAMES, False, True),
    ("HTTP/1.1 200 OK\r\nConnection: Upgrade\r\nUpgrade: tcp\r\nContent-Length: 4\r\n\r\nabcd" + _FRAMES, False, True),
]


def _all_cut_sets(n, mode):
    if mode == "single":
        return [[i] for i in range(1, n)]
    if mode == "double":
        return [[i, j] for i in range(1, n) for j in range(i + 1, n)]
    raise ValueError(mode)


def enumerate_cases(tier, seed):
    rng = random.Random(seed * 7919 + 3)
    streams = [("server", s, False, True) for s in SERVER_STREAMS] + [("client", s, e, True) for s, e in CLIENT_STREAMS]
    # a few generated short streams as well
    extra = 6 if tier == "quick" else 40
    tries = 0
    while extra and tries < 400:
        tries += 1
        g = G.gen_stream(rng, nreq=rng.choice([1, 2]), mutate=rng.random() < 0.6, body_max=20)
        if 40 <= len(g["stream"]) <= 170:
            streams.append(("server", g["stream"], False, False))
            extra -= 1
    nlim = 3 if tier == "quick" else len(LIMIT_SETS)
    block = 400
    # coded bodies and upgrades (own generator, so that the cases below are what they were): the single cuts
    # first, their pairs of cuts after the older streams
    rng_x = random.Random(seed * 7919 + 5)
    xs = [("server", s, False, acc) for s, acc in SERVER_STREAMS_X] + [("client", s, e, acc) for s, e, acc in CLIENT_STREAMS_X]
    x_doubles = []
    for side, s, eof, acc in xs:
        n = len(s)
        lims = [LIMIT_SETS[0]] + rng_x.sample(LIMIT_SETS[1:], nlim - 1)
        for lim in lims:
            yield {"side": side, "stream": s, "eof": eof, "limits": lim, "mode": "single", "cuts": None, "block": [0, n],
                   "strict_class": True, "accept_upgrade": acc}
            total = (n - 1) * (n - 2) // 2
            if n <= 170 and (tier != "quick" or lim is lims[0] or lim is lims[1]):
                for b in range(0, total, block):
                    x_doubles.append({"side": side, "stream": s, "eof": eof, "limits": lim, "mode": "double", "cuts": None,
                                      "block": [b, min(block, total - b)], "strict_class": True, "accept_upgrade": acc})
    # multi-member / multi-frame coded bodies with member sizes at the read buffer limit: every single cut
    for m, lim in _m_streams():
        yield dict(_m_scenario(m, lim, None, "single"), strict_class=True)
    doubles = []
    for side, s, eof, strict in streams:
        n = len(s)
        lims = [LIMIT_SETS[0]] + rng.sample(LIMIT_SETS[1:], nlim - 1)
        for lim in lims:
            yield {"side": side, "stream": s, "eof": eof, "limits": lim, "mode": "single", "cuts": None, "block": [0, n],
                   "strict_class": strict}
            if n <= 170:
                total = (n - 1) * (n - 2) // 2
                for b in range(0, total, block):
                    doubles.append({"side": side, "stream": s, "eof": eof, "limits": lim, "mode": "double", "cuts": None,
                                    "block": [b, min(block, total - b)], "strict_class": strict})
    # early responses (the peer answers while the request is still being written): every read of the stream, or
    # only the first one, reaches the ResponseHandler before set_response_params() has created its parser -
    # every single cut of every response stream
    for side, s, eof, acc in [("client", s, e, False) for s, e in CLIENT_STREAMS] + [x for x in xs if x[0] == "client"]:
        for k in (-1, 1):
            yield {"side": side, "stream": s, "eof": eof, "limits": LIMIT_SETS[0], "mode": "single", "cuts": None,
                   "block": [0, len(s)], "strict_class": True, "accept_upgrade": acc, "early": k}
    # every stream has had its single cuts (and whole / byte-at-a-time delivery, which every run includes): now the pairs
    yield from doubles
    yield from x_doubles


_X_SHARE = 0.14   # share of seeded scenarios that carry a coded body and/or an upgrade


def _x_selected(rng) -> bool:
    """Decide, without consuming from `rng`, whether this scenario is one of the coded-body / upgrade
    scenarios; the scenarios that are not selected stay exactly what they were before these were added."""
    peek = random.Random()
    peek.setstate(rng.getstate())
    return random.Random(peek.getrandbits(64) ^ 0xC03).random() < _X_SHARE


def _x_limits(rng):
    r = rng.random()
    if r < 0.45:
        return dict(LIMIT_SETS[0])
    if r < 0.7:
        return dict(LIMIT_SETS[1])
    if r < 0.85:
        return dict(LIMIT_SETS[5])
    return dict(rng.choice(LIMIT_SETS))


def _x_body(rng, framing_choices):
    """-> (header lines, body text, coding): a body under a content coding (or none) in one of the framings."""
    coding = rng.choice(["none", "gzip", "deflate", "deflate-raw", "deflate-raw"])
    data = G.body_bytes(rng, rng.choice([1, 5, 40, 300]))
    wire = data if coding == "none" else _coded(data, coding, rng.choice([1, 6, 9]))
    hdrs = []
    if coding != "none":
        name = coding.split("-")[0]
        hdrs.append("Content-Encoding: " + rng.choice([name, name, name.upper()]))
    framing = rng.choice(framing_choices)
    if framing == "nobody":
        return [], "", "none"
    if framing == "cl":
        hdrs.append("Content-Length: %d" % len(wire))
        text = wire
    elif framing == "chunked":
        hdrs.append("Transfer-Encoding: chunked")
        sizes = [rng.choice([1, 2, 5, 16, 64, 1000]) for _ in range(rng.randint(1, 4))]
        exts = [rng.choice(["", "", ";a=b"]) for _ in range(2)]
        text = _chunked(wire, sizes, exts, rng.choice(["", "", "X-T: tv\r\n"]))
    else:  # until the peer closes
        text = wire
    rng.shuffle(hdrs)
    return hdrs, text, coding


def _x_tail(rng):
    """Opaque bytes of the upgraded protocol."""
    return rng.choice([_FRAMES, "\x81\x05hello", "\r\n\r\n", "\x82\x7e\x00\x80" + G.body_bytes(rng, 128), "GET / HTTP/1.1\r\n\r\n",
                       "\x88\x00", G.body_bytes(rng, rng.choice([1, 20, 70]))])


def _gen_x(rng):
    """A message with a content-coded body and/or a protocol upgrade (with or without a body), inside a short
    pipeline; cut sets as for the other scenarios plus cuts confined to the body / hand-over region."""
    upgrade = rng.random() < 0.5
    parts = []
    if rng.random() < 0.7:
        side, eof = "server", False
        if rng.random() < 0.4:
            parts.append(G.serialize(G.gen_request(rng, 0, body_max=40)))
        if upgrade:
            hdrs, body, coding = _x_body(rng, ["cl", "cl", "chunked", "chunked", "nobody"])
            hdrs += ["Connection: " + rng.choice(["Upgrade", "upgrade", "keep-alive, Upgrade"]),
                     "Upgrade: " + rng.choice(["websocket", "websocket", "WebSocket", "tcp"])]
        else:
            hdrs, body, coding = _x_body(rng, ["cl", "chunked", "chunked"])
        rng.shuffle(hdrs)
        head = "%s %s HTTP/1.1\r\nHost: h.test\r\n" % (rng.choice(["POST", "PUT", "GET"]), rng.choice(["/p", "/ws", "/a/b?x=1"]))
        mark = len("".join(parts)) + len(head) + sum(len(h) + 2 for h in hdrs) + 2
        parts.append(head + "".join(h + "\r\n" for h in hdrs) + "\r\n" + body)
        if upgrade:
            parts.append(_x_tail(rng))
        elif rng.random() < 0.7:
            parts.append(G.serialize(G.gen_request(rng, 2, body_max=40)))
    else:
        side = "client"
        eof = False
        if rng.random() < 0.25:
            parts.append("HTTP/1.1 100 Continue\r\n\r\n")
        if upgrade and rng.random() < 0.5:
            hdrs, body, coding = ["Connection: Upgrade", "Upgrade: websocket"], "", "none"
            head = "HTTP/1.1 101 Switching Protocols\r\n"
        else:
            hdrs, body, coding = _x_body(rng, ["cl", "chunked", "chunked"] if upgrade else ["cl", "chunked", "chunked", "eof"])
            if not any(h.startswith(("Content-Length", "Transfer-Encoding")) for h in hdrs):
                eof = True
                hdrs.append("Connection: close")
            if upgrade:
                hdrs += ["Connection: upgrade", "Upgrade: " + rng.choice(["websocket", "tcp"])]
            head = rng.choice(["HTTP/1.1 200 OK\r\n", "HTTP/1.1 200 OK\r\n", "HTTP/1.0 200 OK\r\n" if eof else "HTTP/1.1 206 Partial\r\n"])
        rng.shuffle(hdrs)
        mark = len("".join(parts)) + len(head) + sum(len(h) + 2 for h in hdrs) + 2
        parts.append(head + "".join(h + "\r\n" for h in hdrs) + "\r\n" + body)
        if upgrade:
            parts.append(_x_tail(rng))
        elif not eof and rng.random() < 0.3:
            parts.append("HTTP/1.1 204 No Content\r\n\r\n")
    s = "".join(parts)
    n = len(s)
    accept = rng.random() < (0.8 if upgrade else 0.3)
    cut_sets = []
    for _ in range(rng.choice([8, 16])):
        r = rng.random()
        if r < 0.25 or n < 4:
            k = rng.randint(1, min(12, max(1, n - 1)))
            cs = sorted(set(rng.randrange(1, max(2, n)) for _ in range(k)))
        elif r < 0.5:
            cands = [i + 1 for i, c in enumerate(s) if c in "\r\n" and 0 < i + 1 < n]
            k = rng.randint(1, min(6, max(1, len(cands))))
            cs = sorted(set(rng.sample(cands, k))) if cands else [1]
        elif r < 0.85:
            # from the end of the head on: inside the (coded / chunked) body, at its end, inside what follows
            lo, hi = min(mark, n - 1), min(n - 1, mark + len(body) + 8)
            k = rng.randint(1, 3)
            cs = sorted(set(rng.randint(lo, max(lo, hi)) for _ in range(k)))
            cs = [c for c in cs if 0 < c < n] or [1]
        else:
            step = rng.choice([2, 3, 5, 7])
            cs = list(range(step, n, step))
        cut_sets.append(cs)
    return {"side": side, "stream": s, "eof": eof, "limits": _x_limits(rng), "mode": "list", "cuts": cut_sets,
            "block": [0, len(cut_sets)], "accept_upgrade": accept, "parts": parts, "x": {"coding": coding, "upgrade": upgrade}}


_M_SHARE = 0.08   # share of seeded scenarios whose body is a multi-member / multi-frame coded stream


def _m_cut_sets(rng, n, mark, ends, count):
    cut_sets = []
    for _ in range(count):
        r = rng.random()
        if r < 0.3 and ends:
            # reads that end where a member / frame ends (all of them: one member per read, or some)
            cs = sorted(ends) if rng.random() < 0.4 else sorted(set(rng.sample(ends, rng.randint(1, len(ends)))))
            if rng.random() < 0.3:
                cs = sorted(set(cs + [min(mark, n - 1)]))
        elif r < 0.5 and ends:
            # just before / behind the end of a member
            cs = sorted(set(e + rng.choice([-1, 1, 2, -2]) for e in rng.sample(ends, rng.randint(1, len(ends)))))
        elif r < 0.8:
            lo = min(mark, n - 1)
            cs = sorted(set(rng.randint(lo, n - 1) for _ in range(rng.randint(1, 4))))
        elif r < 0.9:
            cs = sorted(set(rng.randrange(1, max(2, n)) for _ in range(rng.randint(1, 8))))
        else:
            step = rng.choice([2, 3, 5, 7, 16])
            cs = list(range(step, n, step))
        cut_sets.append([c for c in cs if 0 < c < n] or [1])
    return cut_sets


def _gen_m(rng):
    """A message whose content-coded body consists of several members (gzip / deflate) or frames (zstd) coded
    independently, with decoded member sizes at, just below / above, a fraction or a multiple of the read buffer
    limit (the per-step bound of the decoder's output), under each framing; cut sets at and around member ends."""
    bufsize = rng.choice([2, 4, 16, 16, 64, 256, 1024, 65536])
    codings = ["gzip", "deflate", "deflate-raw"] + (["zstd"] * 5 if _zstd is not None else [])
    coding = rng.choice(codings)
    sizes = []
    for _ in range(rng.randint(2, 5)):
        k = rng.choice([bufsize, bufsize, bufsize, bufsize, max(1, bufsize // 2), max(1, bufsize // 2), bufsize - 1,
                        bufsize + 1, 2 * bufsize, 1, 3, 0 if coding != "zstd" else 1])
        sizes.append(max(0, k))
    uniform = rng.random() < 0.5
    pieces = [(chr(97 + i) * k if uniform else G.body_bytes(rng, k)) for i, k in enumerate(sizes)]
    name = coding.split("-")[0]
    hdrs = ["Content-Encoding: " + rng.choice([name, name, name.upper()])]
    eof = False
    if rng.random() < 0.55:
        side = "server"
        framing = rng.choice(["cl", "chunked", "chunked"])
        pre = G.serialize(G.gen_request(rng, 0, body_max=40)) if rng.random() < 0.2 else ""
        start = "%s /p HTTP/1.1\r\nHost: h.test\r\n" % rng.choice(["POST", "PUT"])
        post = G.serialize(G.gen_request(rng, 2, body_max=40)) if rng.random() < 0.5 else ""
    else:
        side = "client"
        framing = rng.choice(["cl", "chunked", "chunked", "eof"])
        pre = "HTTP/1.1 100 Continue\r\n\r\n" if rng.random() < 0.15 else ""
        start = "HTTP/1.1 200 OK\r\n"
        post = ""
        if framing == "eof":
            eof = True
            hdrs.append("Connection: close")
        elif rng.random() < 0.3:
            post = "HTTP/1.1 204 No Content\r\n\r\n"
    chunking = "member"
    if framing == "chunked":
        r = rng.random()
        chunking = "member" if r < 0.4 else "one" if r < 0.7 else [rng.choice([1, 2, 5, 16, 64, 1000]) for _ in range(rng.randint(1, 3))]
    m = {"side": side, "pre": pre, "start": start, "hdrs": hdrs, "coding": coding, "level": rng.choice([1, 3, 6]),
         "framing": framing, "chunking": chunking, "pieces": pieces, "post": post, "eof": eof}
    s, parts, mark, ends = _build_m(m)
    return _m_scenario(m, _m_limits(bufsize), _m_cut_sets(rng, len(s), mark, ends, rng.choice([8, 16])))


def gen(rng, tier, index):
    """Seeded part: longer generated streams, random and adversarial k-cuts."""
    scn = _gen_plain(rng, tier, index)
    # drawn last, so that every other scenario is what it was before these were added
    if rng.random() < _M_SHARE:
        scn = _gen_m(rng)
    if rng.random() < _EARLY_SHARE and scn["side"] == "client":
        scn = dict(scn, early=_gen_early(rng, scn["cuts"]))
    return scn


_EARLY_SHARE = 0.35  # share of the seeded CLIENT scenarios (about a third of all) with an early response


def _gen_early(rng, cut_sets):
    """Early response: the peer answers before the client has got as far as ClientResponse.start(), so the first
    k reads reach the real ResponseHandler while its response parser does not exist yet (they wait in the
    protocol's own buffer) and set_response_params() is called after them. -> k per cut set (0 = parser first,
    -1 = every read of the response arrives before the parser)."""
    out = []
    for cs in cut_sets:
        r = rng.random()
        nreads = len(cs) + 1
        out.append(-1 if r < 0.3 else 2 if r < 0.5 else 1 if r < 0.6 else 0 if r < 0.7 else rng.randint(1, nreads))
    return out


def _gen_plain(rng, tier, index):
    if _x_selected(rng):
        return _gen_x(rng)
    if rng.random() < 0.7:
        side = "server"
        for _ in range(20):
            g = G.gen_stream(rng, max_req=4, mutate=rng.random() < 0.6, bytemut=0.1, body_max=120)
            if len(g["stream"]) <= 6000:  # each run replays the stream under many cut sets
                break
        s, eof = g["stream"], False
        if rng.random() < 0.3:
            # a line sitting exactly at / around its limit
            lim = dict(rng.choice(LIMIT_SETS[2:]))
            k = rng.choice([lim["max_field_size"] - 1, lim["max_field_size"], lim["max_field_size"] + 1, lim["max_line_size"]])
            s = f"GET / HTTP/1.1\r\nHost: a\r\nX: {'v' * max(0, k - 3)}\r\n\r\n" + s
        else:
            lim = dict(rng.choice(LIMIT_SETS))
    else:
        side = "client"
        s, eof = rng.choice(CLIENT_STREAMS)
        if rng.random() < 0.5:
            body = G.body_bytes(rng, rng.choice([10, 100, 700]))
            chunks = []
            pos = 0
            while pos < len(body):
                k = rng.choice([1, 3, 17, 64])
                chunks.append(body[pos:pos + k])
                pos += k
            s = "HTTP/1.1 200 OK\r\nTransfer-Encoding: chunked\r\nX-Pad: " + "p" * rng.choice([1, 30]) + "\r\n\r\n" + "".join(
                "%x\r\n%s\r\n" % (len(c), c) for c in chunks) + "0\r\n\r\n"
            eof = False
        lim = dict(rng.choice(LIMIT_SETS))
    n = len(s)
    cut_sets = []
    for _ in range(rng.choice([8, 24])):
        r = rng.random()
        if r < 0.35 or n < 4:
            k = rng.randint(1, min(12, max(1, n - 1)))
            cs = sorted(set(rng.randrange(1, max(2, n)) for _ in range(k)))
        elif r < 0.7:
            # adversarial: after CR, inside chunk size / CRLF, header/body border
            cands = [i + 1 for i, c in enumerate(s) if c == "\r"] + [i + 1 for i, c in enumerate(s) if c == "\n"]
            cands = [c for c in cands if 0 < c < n]
            k = rng.randint(1, min(6, max(1, len(cands))))
            cs = sorted(set(rng.sample(cands, k))) if cands else [1]
        else:
            step = rng.choice([1, 2, 3, 5, 7])
            cs = list(range(step, n, step))
        cut_sets.append(cs)
    return {"side": side, "stream": s, "eof": eof, "limits": lim, "mode": "list", "cuts": cut_sets, "block": [0, len(cut_sets)]}


def shrink(scn):
    """Candidates of `_shrink0`; the per-cut-set list of an early response (`early`) follows the cut sets."""
    early = scn.get("early")
    if not isinstance(early, list):
        yield from _shrink0(scn)
        return
    if scn["mode"] != "list":
        return
    # the response arrives after the parser exists, as in every other scenario / under fewer cut sets
    yield {k: v for k, v in scn.items() if k != "early"}
    for i, k in enumerate(early):
        if k != 0 and len(early) > 1:
            yield dict(scn, early=[0] * i + [k] + [0] * (len(early) - i - 1))
    for c in _shrink0(scn):
        pick = c.pop("_pick", None)
        if pick is not None:
            c["early"] = [early[pick]]
        elif len(c["cuts"]) == len(early):
            c["early"] = list(early)
        else:
            continue
        yield c
    for i, k in enumerate(early):
        if k > 2:
            yield dict(scn, early=early[:i] + [2] + early[i + 1:])


def _shrink0(scn):
    if scn["mode"] != "list":
        return
    cuts = scn["cuts"]
    tag = isinstance(scn.get("early"), list)
    m = scn.get("m")
    if m is not None:
        # fewer members, no neighbours in the pipeline, plainer framing / data; offsets are kept where they still exist
        cands = []
        if len(m["pieces"]) > 1:
            cands += [dict(m, pieces=m["pieces"][:i] + m["pieces"][i + 1:]) for i in range(len(m["pieces"]))]
        cands += [dict(m, **{k: ""}) for k in ("pre", "post") if m[k]]
        if m["framing"] == "chunked" and m["chunking"] != "one":
            cands.append(dict(m, chunking="one"))
        if m["framing"] == "chunked":
            cands.append(dict(m, framing="cl", chunking="member"))
        plain = [chr(97 + i) * len(p) for i, p in enumerate(m["pieces"])]
        if plain != m["pieces"]:
            cands.append(dict(m, pieces=plain))
        for m2 in cands:
            n2 = len(_build_m(m2)[0])
            yield _m_scenario(m2, scn["limits"], [[c for c in cs if 0 < c < n2] for cs in cuts])
        if len(cuts) > 1:
            for i in range(len(cuts)):
                yield dict(scn, cuts=[cuts[i]], block=[0, 1], **({"_pick": i} if tag else {}))
        for ci, cs in enumerate(cuts):
            if len(cs) > 0:
                for j in range(len(cs)):
                    yield dict(scn, cuts=cuts[:ci] + [cs[:j] + cs[j + 1:]] + cuts[ci + 1:])
        return
    if scn.get("accept_upgrade"):
        yield dict(scn, accept_upgrade=False)
    parts = scn.get("parts")
    if parts and len(parts) > 1:
        # drop one message of the pipeline (or what follows the upgrade); cut offsets behind it move with it
        pos = 0
        for i, part in enumerate(parts):
            rest = parts[:i] + parts[i + 1:]
            s2 = "".join(rest)
            c2 = []
            for cs in cuts:
                m = sorted(set(c if c <= pos else c - len(part) for c in cs if not pos < c <= pos + len(part)))
                c2.append([c for c in m if 0 < c < len(s2)])
            pos += len(part)
            if s2:
                yield dict(scn, stream=s2, parts=rest, cuts=c2)
    if parts is not None and scn["limits"] != LIMIT_SETS[0]:
        yield dict(scn, limits=dict(LIMIT_SETS[0]))
    if len(cuts) > 1:
        for i in range(len(cuts)):
            yield dict(scn, cuts=[cuts[i]], block=[0, 1], **({"_pick": i} if tag else {}))
    for ci, cs in enumerate(cuts):
        if len(cs) > 1:
            for j in range(len(cs)):
                c2 = cs[:j] + cs[j + 1:]
                yield dict(scn, cuts=cuts[:ci] + [c2] + cuts[ci + 1:])


# ---------------------------------------------------------------------------


def _cut_sets_for(scn):
    n = len(scn["stream"])
    if scn["mode"] == "list":
        return [list(c) for c in scn["cuts"]]
    if scn["mode"] == "single":
        return _all_cut_sets(n, "single")
    # double: block [start, count] in the lexicographic enumeration of pairs
    start, count = scn["block"]
    out = []
    idx = 0
    for i in range(1, n):
        row = n - 1 - i  # pairs (i, j) with j in i+1 .. n-1
        if idx + row <= start:
            idx += row
            continue
        for j in range(i + 1, n):
            if idx >= start:
                out.append([i, j])
                if len(out) >= count:
                    return out
            idx += 1
    return out


class _Writer(asyncio.Protocol):
    def __init__(self, data, close_after):
        self.data = data
        self.close_after = close_after
        self.received = bytearray()
        self.tr = None
        self.lost = False
        self.eof = False

    def connection_made(self, tr):
        self.tr = tr
        tr.write(self.data)
        if self.close_after:
            tr.close()

    def data_received(self, d):
        self.received += d

    def eof_received(self):
        self.eof = True
        return False

    def connection_lost(self, exc):
        self.lost = True


class _EarlyShim(asyncio.Protocol):
    """Sits between the transport and the real ResponseHandler and stands for the request side of the client
    (ClientResponse.start()): it calls set_response_params() only after the first `k` reads have been handed to
    the handler, i.e. the response (or its beginning) is early.  Every event is forwarded unchanged."""

    def __init__(self, proto, k, params):
        self.proto, self.k, self.params = proto, k, params
        self.reads = 0
        self.armed = False

    def arm(self):
        if not self.armed:
            self.armed = True
            self.proto.set_response_params(**self.params)

    def data_received(self, data):
        self.proto.data_received(data)
        self.reads += 1
        if self.reads >= self.k:
            self.arm()

    def eof_received(self):
        return self.proto.eof_received()

    def connection_lost(self, exc):
        self.proto.connection_lost(exc)

    def pause_writing(self):
        self.proto.pause_writing()

    def resume_writing(self):
        self.proto.resume_writing()


class _UpgradedSink:
    """Stands where the upgraded protocol's reader stands (the seam WebSocketReader is installed at,
    `protocol.set_parser`): records every byte handed to the upgraded protocol in field 7 of the record."""

    def __init__(self, rec):
        self.rec = rec
        rec[7] = b""
        self.eof = False

    def feed_data(self, data):
        self.rec[7] += bytes(data)
        return False, b""

    def feed_eof(self):
        self.eof = True


_UPGRADE_SESSION = 0.2  # virtual seconds an accepted upgrade lasts (everything sent has long arrived by then)


def _offers_upgrade(msg) -> bool:
    """An upgrade the application can take: `Connection: upgrade` plus an `Upgrade` to websocket or tcp."""
    if not msg.upgrade:
        return False
    u = msg.headers.get("Upgrade", "")
    return u.isascii() and u.lower() in ("websocket", "tcp")


def _classify_400(text: bytes) -> str:
    t = text.decode("latin-1", "replace")
    if "Too many headers" in t or "Too many trailers" in t:
        return "limit:count"
    if t.startswith("Got more than"):
        m = re.search(r"reading: b['\"](.*)", t, re.S)
        line = m.group(1) if m else ""
        if re.match(r"[!#$%&'*+\-.^_`|~0-9A-Za-z]+:", line):
            return "limit:field"
        if re.match(r"[!-~]+ [^ ]+( HTTP/|$)", line) or re.match(r"[A-Za-z-]+ /", line):
            return "limit:start_line"
        if re.match(r"[0-9a-fA-F]+(;|\\r|'|$)", line):
            return "limit:chunk_line"
        return "limit:field"
    return "other:" + "_".join(re.sub(r"[^A-Za-z ]", " ", t).split()[:3])


def _server_outcomes(w, scn, cut_sets):
    from aiohttp import web

    loop, net = w.loop, w.net
    by_conn = {}
    errtext = {}

    async def handler(request):
        cid = request.transport.get_extra_info("sim_conn")
        recs = by_conn.setdefault(cid, [])
        if request.pre_handler_error is not None:
            recs.append(("ERR",))
            raise request.pre_handler_error
        msg = request._message
        rec = [msg.method, msg.path, tuple((bytes(a), bytes(b)) for a, b in msg.raw_headers),
               (msg.version.major, msg.version.minor), None, None, None, None]
        recs.append(rec)
        body, pieces, cur = bytearray(), [], 0

        async def finish():
            if accept_upgrade and _offers_upgrade(msg):
                # the application takes the offered upgrade (as WebSocketResponse.prepare does) once the
                # request has been read: every byte after the request belongs to the upgraded protocol
                request.protocol.set_parser(_UpgradedSink(rec))
                request.protocol.keep_alive(False)
                await asyncio.sleep(_UPGRADE_SESSION)
            return web.Response(body=b"ok")

        if request.content.at_eof() and not request.content.total_bytes:
            # body-less request: EMPTY_PAYLOAD is a process-wide singleton whose readchunk()
            # answer depends on earlier calls (known finding C08-F1) - not a segmentation matter
            rec[4], rec[5] = b"", ()
            return await finish()
        try:
            while True:
                data, end = await request.content.readchunk()
                body += data
                cur += len(data)
                if end:
                    pieces.append(cur)
                    cur = 0
                if not data and (not end or request.content.at_eof()):
                    break
            rec[4], rec[5] = bytes(body), tuple(pieces)
        except asyncio.CancelledError:
            raise
        except Exception as e:
            rec[6] = type(e).__name__
            rec[4] = bytes(body)
            errtext[cid] = "payload:" + "_".join(re.sub(r"[^A-Za-z ]", " ", str(getattr(e, "message", None) or e)).split()[:4])
            raise
        return await finish()

    lim = scn["limits"]
    accept_upgrade = bool(scn.get("accept_upgrade"))

    async def mk():
        return web.Server(handler, max_line_size=lim["max_line_size"], max_field_size=lim["max_field_size"],
                          max_headers=lim["max_headers"], read_bufsize=lim["read_bufsize"], access_log=None,
                          keepalive_timeout=75, lingering_time=0)

    server = loop.run_sim(mk(), vt_cap=loop.time() + 1).result()
    net.listen(server, "10.0.0.1", 80)
    net.max_latency_ticks = 0
    data = G.enc(scn["stream"])
    outcomes = []
    for cs in cut_sets:
        cl = _Writer(data, False)
        ctr, str_ = net.connect_raw(("10.0.0.1", 80), cl)
        ctr.out.policy = cs if cs is not None else "whole"
        str_.out.policy = "whole"
        cid = ctr.get_extra_info("sim_conn")
        loop.run_sim(None, vt_cap=loop.time() + 0.5, step_cap=loop.steps + 200_000)
        recs = by_conn.get(cid, [])
        statuses = tuple(int(x) for x in _STATUS.findall(bytes(cl.received)))
        rejected = None
        if any(r == ("ERR",) for r in recs):
            i = cl.received.rfind(b"\r\n\r\n")
            rejected = _classify_400(bytes(cl.received[i + 4:])) if i >= 0 else "other:?"
        elif any(r[6] for r in recs):
            rejected = "other:payload_error"
        msgs = tuple(tuple(r) for r in recs if r != ("ERR",))
        closed = str_._closed or str_._closing
        outcomes.append({"msgs": msgs, "rejected": rejected, "statuses": statuses, "closed": closed,
                         "exc": bool(loop.exc_contexts) or bool(net.fatal_errors), "errtext": errtext.pop(cid, None)})
        loop.exc_contexts.clear()
        net.fatal_errors.clear()
        if not ctr._closed:
            ctr.abort()
        loop.run_sim(None, vt_cap=loop.time() + 0.01, step_cap=loop.steps + 50_000)
        by_conn.pop(cid, None)
    loop.run_sim(server.shutdown(0.1), vt_cap=loop.time() + 5)
    return outcomes


def _client_outcomes(w, scn, cut_sets):
    from aiohttp.client_proto import ResponseHandler
    from aiohttp.streams import EofStream, StreamReader

    loop, net = w.loop, w.net
    net.max_latency_ticks = 0
    lim = scn["limits"]
    accept_upgrade = bool(scn.get("accept_upgrade"))
    data = G.enc(scn["stream"])
    outcomes = []
    early = scn.get("early")
    for ci, cs in enumerate(cut_sets):
        proto = ResponseHandler(loop)
        params = dict(read_until_eof=True, max_line_size=lim["max_line_size"], max_field_size=lim["max_field_size"],
                      max_headers=lim["max_headers"], read_bufsize=lim["read_bufsize"])
        # early response: number of reads that reach the handler before its parser exists (a list goes with the
        # scenario's cut sets, whole delivery is then early and byte-at-a-time is not; a number applies to all)
        if isinstance(early, list):
            k = 1 if ci == 0 else 0 if ci == 1 else early[ci - 2] if ci - 2 < len(early) else 0
        else:
            k = early or 0
        nreads = len({c for c in (cs or ()) if 0 < c < len(data)}) + 1
        k = nreads if k < 0 else min(k, nreads)
        shim = _EarlyShim(proto, k, params) if k > 0 and data else None
        if shim is None:
            proto.set_response_params(**params)
        peer = _Writer(data, bool(scn["eof"]))
        recs = []
        final = {"exc": None}

        async def upgrade(rec, proto=proto):
            # the client takes the upgrade (as ClientSession.ws_connect does): what follows the response
            # belongs to the upgraded protocol
            proto.set_parser(_UpgradedSink(rec), StreamReader(proto, 2 ** 16, loop=loop))
            await asyncio.sleep(_UPGRADE_SESSION)

        async def consume():
            try:
                while True:
                    msg, payload = await proto.read()
                    rec = [msg.code, msg.reason, tuple((bytes(a), bytes(b)) for a, b in msg.raw_headers),
                           (msg.version.major, msg.version.minor), None, None, None, None]
                    recs.append(rec)
                    body, pieces, cur = bytearray(), [], 0
                    if payload.at_eof() and not payload.total_bytes:
                        rec[4], rec[5] = b"", ()
                        if accept_upgrade and _offers_upgrade(msg):
                            await upgrade(rec)
                            break
                        continue
                    try:
                        while True:
                            d, end = await payload.readchunk()
                            body += d
                            cur += len(d)
                            if end:
                                pieces.append(cur)
                                cur = 0
                            if not d and (not end or payload.at_eof()):
                                break
                        rec[4], rec[5] = bytes(body), tuple(pieces)
                    except asyncio.CancelledError:
                        raise
                    except Exception as e:
                        rec[4], rec[6] = bytes(body), type(e).__name__
                        break
                    if accept_upgrade and _offers_upgrade(msg):
                        await upgrade(rec)
                        break
            except EofStream:
                final["exc"] = "EofStream"
            except asyncio.CancelledError:
                raise
            except Exception as e:
                final["exc"] = type(e).__name__ + ":" + _norm_client_err(e)

        a, b = net.make_pair(("10.9.9.9", 9))
        a.protocol, b.protocol = shim or proto, peer
        b.out.policy = cs if cs is not None else "whole"
        proto.connection_made(a)
        t = loop.create_task(consume(), name="consume")
        peer.connection_made(b)
        loop.run_sim(None, vt_cap=loop.time() + 0.5, step_cap=loop.steps + 200_000)
        early_reads = min(shim.reads, k) if shim is not None else 0
        if shim is not None:
            if not shim.armed:  # fewer reads than planned: the parser comes now
                shim.arm()
                loop.run_sim(None, vt_cap=loop.time() + 0.5, step_cap=loop.steps + 200_000)
        blocked = not t.done()
        if blocked:
            t.cancel()
        rej = None
        if final["exc"] and final["exc"] != "EofStream" and not final["exc"].startswith("ServerDisconnected"):
            rej = _classify_400(final["exc"].split(":", 1)[1].encode("latin-1", "replace"))
        elif any(r[6] for r in recs):
            rej = "other:payload_error"
        outcomes.append({"msgs": tuple(tuple(r) for r in recs), "rejected": rej, "statuses": (final["exc"] or "").split(":")[0],
                         "closed": a._closed or a._closing, "exc": bool(loop.exc_contexts) or bool(net.fatal_errors),
                         "blocked": blocked, "early_reads": early_reads})
        loop.exc_contexts.clear()
        net.fatal_errors.clear()
        if not b._closed:
            b.abort()
        loop.run_sim(None, vt_cap=loop.time() + 0.01, step_cap=loop.steps + 50_000)
    return outcomes


def _norm_client_err(e):
    m = getattr(e, "message", None) or str(e)
    return str(m)


def _compare(base, other, side, strict_class=True, extra=None):
    """Return (invariant, key, detail) or None; differences that form a class of their own and do not end
    the comparison are appended to `extra`."""
    if extra is None:
        extra = []
    def _blocked(o):
        return any(m[4] is None and m[6] is None for m in o["msgs"]) or bool(o.get("blocked"))

    if _blocked(base) != _blocked(other):
        done = other if _blocked(base) else base
        if done["rejected"]:
            # same bytes: one delivery schedule is still waiting for input, the other has already refused them
            return ("accept_reject_independent", f"{side}:incomplete_vs_rejected:{done.get('errtext') or done['rejected']}",
                    f"one segmentation keeps waiting for more input, another rejects ({done['rejected']}); "
                    f"statuses {base['statuses']} vs {other['statuses']}")
        return ("same_messages", f"{side}:reader_blocked_under_one_segmentation",
                "a body was read completely under one segmentation but its reader is still blocked (all bytes "
                "delivered) under the other")
    br, orr = base["rejected"], other["rejected"]
    after_close = False

    def _closing(m):
        if side != "server":
            return False
        conn = b",".join(v.lower() for n, v in m[2] if n.lower() == b"connection")
        return b"close" in conn or (m[3] == (1, 0) and b"keep-alive" not in conn)

    if (br is None) != (orr is None) and any(_closing(m) for m in base["msgs"] + other["msgs"]):
        # a request that ends the connection (Connection: close, HTTP/1.0 without keep-alive) was accepted:
        # what follows it is refused only when it arrives in the same read (DONT_CARE zone, as in C01)
        br = orr = None
        after_close = True
    if "Data_after_Connection" in (br or "") or "Data_after_Connection" in (orr or ""):
        # bytes after a request that said `Connection: close` are refused only when they arrive in
        # the same read; the connection is closed either way (DONT_CARE zone, as in C01)
        br = orr = None
        after_close = True
    if (br is None) != (orr is None):
        which = orr or br
        return ("accept_reject_independent", f"{side}:accepted_vs_rejected:{which}",
                f"one segmentation accepts, another rejects ({which}); statuses {base['statuses']} vs {other['statuses']}")
    # a stream with two independent defects may legitimately report whichever it meets first;
    # the class is compared only for the hand-written single-defect streams
    if strict_class and br is not None and br.split(":")[0] != orr.split(":")[0]:
        lim = br if br.startswith("limit") else orr
        return ("same_rejection_class", f"{side}:limit_vs_other:{lim}", f"rejection class differs: {br} vs {orr}")
    bm, om = base["msgs"], other["msgs"]
    if br is None and not after_close:
        # accepted: messages identical (an incomplete trailing message may differ only in completeness)
        if len(bm) != len(om):
            return ("same_messages", f"{side}:message_count", f"{len(bm)} vs {len(om)} messages")
    k = min(len(bm), len(om))
    for i in range(k):
        a, b = bm[i], om[i]
        names = ("start0", "start1", "headers", "version", "body", "chunk_boundaries", "error", "upgraded_bytes")
        for f in range(8):
            if a[f] != b[f]:
                if (br is not None or after_close) and i == k - 1 and f in (4, 5, 6):
                    continue  # the message being received when the rejection hit
                if f == 5 and (a[5] is None or b[5] is None):
                    continue
                if f == 5 and [x for x in a[5] if x] == [x for x in b[5] if x]:
                    # same data, same non-empty pieces: one delivery schedule reports an additional chunk end
                    # with no data in it (a class of its own; the remaining fields are still compared)
                    coded = any(n.lower() == b"content-encoding" for n, _ in a[2])
                    extra.append(("same_messages", f"{side}:empty_chunk_reported_under_one_segmentation:"
                                                   f"{'coded' if coded else 'plain'}_body",
                                  f"message #{i}: readchunk() reports an end of chunk without data under one segmentation "
                                  f"only: pieces {a[5]} vs {b[5]}"))
                    continue
                if f == 4 and (a[4] is None or b[4] is None) and a[6] is None and b[6] is None:
                    return ("same_messages", f"{side}:reader_blocked_under_one_segmentation",
                            f"message #{i}: the body was read completely under one segmentation but the reader is still "
                            f"blocked (all bytes delivered) under the other")
                return ("same_messages", f"{side}:{names[f]}_differs",
                        f"message #{i}: {names[f]} differs: {str(a[f])[:120]} vs {str(b[f])[:120]}")
    if side == "client" and base.get("blocked") != other.get("blocked"):
        return ("same_messages", "client:blocked_differs", "consumer blocked under one segmentation only")
    return None


def run(scn, ch, log=False):
    viols = []
    with World(ch, 0, log_events=log) as w:
        cut_sets = [None, "byte"] + _cut_sets_for(scn)
        n = len(scn["stream"])
        cs2 = []
        for c in cut_sets:
            if c == "byte":
                cs2.append(list(range(1, n)))
            else:
                cs2.append(c)
        outs = _server_outcomes(w, scn, cs2) if scn["side"] == "server" else _client_outcomes(w, scn, cs2)
        base_whole, base_byte = outs[0], outs[1]
        for idx, o in enumerate(outs):
            if o["exc"] and not viols:
                viols.append({"invariant": "no_escape", "key": f"{scn['side']}:exception_in_loop",
                              "message": f"exception reached the loop under cut set {cs2[idx]}"})
        seen = set()
        for base_name, base in (("whole", base_whole), ("byte", base_byte)):
            if viols and not seen:
                break
            for idx in range(1, len(outs)):
                extra = []
                r = _compare(base, outs[idx], scn["side"], bool(scn.get("strict_class", False)), extra)
                # one violation per class: a class that is already on record (possibly a known finding) does
                # not hide a different one met under a later cut set
                for r in ([r] if r is not None else []) + extra:
                    if (r[0], r[1]) in seen:
                        continue
                    seen.add((r[0], r[1]))
                    cs = cs2[idx]
                    viols.append({"invariant": r[0], "key": r[1],
                                  "message": f"{r[2]}; baseline={base_name}, cut set={cs if cs is None or len(cs) < 12 else str(cs[:12]) + '...'}; "
                                             f"limits={scn['limits']}; stream={scn['stream'][:160]!r}"})
        st = w.stats()
        nontrivial = any(o["msgs"] or o["rejected"] for o in outs)
        res = {
            "violations": viols, "nontrivial": bool(nontrivial),
            "sig": f"{hash_str(scn['stream'])}|{sorted(scn['limits'].items())}|{scn['mode']}|{scn['block']}|{int(bool(scn.get('accept_upgrade')))}"
                   + (f"|early{scn['early']}" if scn.get("early") is not None else ""),
            "digest": st["digest"], "steps": st["steps"], "vtime": st["vtime"], "faults": st["faults"],
            "probes": {"segmentations": len(outs), "mode_" + scn["mode"]: 1, "side_" + scn["side"]: 1,
                       "rejected_streams": int(base_whole["rejected"] is not None),
                       "reader_paused": int(bool(st["faults"].get("pause_reading"))),
                       "upgrade_taken": int(any(m[7] is not None for m in base_whole["msgs"])),
                       "upgraded_bytes_seen": int(any(m[7] for m in base_whole["msgs"])),
                       "early_response": int(any(o.get("early_reads") for o in outs)),
                       "early_response_in_several_reads": int(any(o.get("early_reads", 0) >= 2 for o in outs)),
                       "early_deliveries": sum(1 for o in outs if o.get("early_reads")),
                       "multi_member_body": int("m" in scn),
                       "multi_member_zstd": int("m" in scn and scn["m"]["coding"] == "zstd"),
                       "coded_body": int(any(any(n.lower() == b"content-encoding" for n, _ in m[2]) and m[4]
                                             for m in base_whole["msgs"]))},
            "shape": f"{scn['side']}-{scn['mode']}-L{scn['limits']['max_line_size']}/{scn['limits']['max_field_size']}",
        }
        if log:
            res["event_log"] = w.loop.event_log[-200:]
            res["debug"] = {"whole": outs[0], "byte": outs[1]}
        return res


def hash_str(s):
    import hashlib

    return hashlib.blake2b(s.encode("latin-1"), digest_size=6).hexdigest()
