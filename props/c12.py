"""C12 - WebSocket reader enforces the protocol and its size bounds (DESIGN.md 9, C12).

World P/U: the real pure-Python `WebSocketReader` + `WebSocketDataQueue`, wired
exactly as `ClientSession._ws_connect` wires them (a real `ResponseHandler` in
its upgraded state, `set_parser(reader, queue)`), fed by `SimTransport`
deliveries from a scripted raw peer.  A consumer task reads the queue at seeded
points.  Every stream is first delivered in one piece, then under each
segmentation of the scenario; the outcome of every delivery is compared with
the RFC 6455 / RFC 7692 reference decoder `ref.ws` and with the one-piece run.
"""
from __future__ import annotations

import asyncio
import bisect
import collections
import random
import struct
import types

from gen.http_gen import dec, enc
from ref import ws as R
from sim.world import World

PROP = "C12"
LEVEL = "fault_enumeration"
DESIGN_REF = "9/C12"
BUDGET = {"quick": 40, "thorough": 600}
BATCH = 40
ENUM_BATCH = 5
ENUM_SHARE = 0.5
ENUM_IS_EXHAUSTIVE = True
ENUM_MAX = {"quick": 44, "thorough": 100}   # longest stream whose cut pairs are enumerated
ENUM_RULE = (
    "Catalogue = a fixed base conversation (fragmented text with an interleaved ping, binary, close; plain and "
    "permessage-deflate) with every violation class of the C12 statement injected at every frame position, plus valid "
    "variants; for every catalogue stream of at most ENUM_MAX[tier] octets EVERY single cut and EVERY pair of cuts "
    "(and byte-at-a-time delivery) is executed through SimTransport and must give the outcome of the one-piece "
    "delivery, which in turn must be the reference decoder's.  Exhaustive over cut sets of size <= 2 of the catalogue, "
    "nothing else.  Run first, outside the catalogue: three directed streams for the unlimited reader (max_msg_size=0) "
    "with one frame of 1100 / 2600 octets delivered one and two octets per read."
)
TECHNIQUE = ("deterministic simulation: real WebSocketReader behind an in-memory transport with enumerated and seeded "
             "segmentation, seeded consumer pauses, RFC 6455/7692 reference decoder as oracle, object-graph memory probe")
LEVEL_TEXT = (
    "Fault enumeration over segmentation: for a catalogue of frame streams (each protocol violation class at each frame "
    "position, plain and permessage-deflate) every 1-cut and 2-cut delivery is executed and compared with the one-piece "
    "delivery and with an independent RFC 6455/7692 decoder; beyond the catalogue, seeded exploration of generated and "
    "random streams x configurations x k-cut / byte-at-a-time / policy segmentations x consumer pauses. Sampling outside "
    "the enumerated cut sets."
)
LEVEL_NOTE = (
    "Trusted: ref/ws.py (self-tested on the RFC 6455 5.7 and RFC 7692 7.2.3 vectors), zlib, SimNet's stream model, the "
    "object-graph walk (len() of bytes/bytearray reachable from the reader, queue excluded). Bounds: enumerated streams "
    "<= 44 (quick) / 100 (thorough) octets; seeded streams up to ~4 MiB declared, ~70 KiB materialised (1 MiB inflated); "
    "max_msg_size in {0, 16..4096, 4 MiB}. Latitude granted (either behaviour accepted): moment at which invalid UTF-8 "
    "is reported, non-minimal length encodings, size limit applied to the compressed size, close codes 1012-1014, "
    "frames after a Close frame, exception type for corrupt deflate data, mask direction (not judged)."
)
RULE = (
    "Run = byte stream (valid frame sequence from ref.ws's encoder; or one violation class injected at a seeded frame "
    "position: RSV bits, reserved opcodes, fragmented/over-long control frames, continuation without start, data frame "
    "inside a fragmented message, invalid UTF-8 whole/split across fragments/in close reasons, close payload of length "
    "1, invalid close codes, declared lengths around max_msg_size and 2^63, non-minimal lengths, compressed bombs, many "
    "deflate members, corrupt deflate data; or random / byte-mutated bytes; or thousands of tiny fragments) x "
    "(compress, decode_text, max_msg_size, queue limit) x 2-4 segmentations (policy, k cuts, every-k) x consumer delay "
    "program x peer close. Non-trivial: at least two frames decoded AND (a violation was reported OR the transport was "
    "paused OR a message was reassembled from fragments). Distinct = interleaving signature."
)
COMPONENTS = {
    "real": ["aiohttp._websocket.reader_py.WebSocketReader", "aiohttp._websocket.reader_py.WebSocketDataQueue",
             "aiohttp.client_proto.ResponseHandler (upgraded state, set_parser)", "aiohttp.compression_utils.ZLibDecompressor",
             "aiohttp._websocket.helpers.websocket_mask (Python)"],
    "stub": ["network (SimNet pair)", "peer (scripted writer of a prepared byte stream)", "HTTP upgrade handshake (state set directly)"],
}
ASSUMPTIONS = [
    "a transport delivers nothing while reading is paused and delivers the rest after resume_reading (SimTransport)",
    "the reader is wired as in ClientSession._ws_connect: ResponseHandler.set_parser(reader, queue), queue limit DEFAULT_CHUNK_SIZE "
    "(small limits are used in a minority of runs to reach the queue pause with short streams)",
    "max_msg_size is an inclusive maximum ('maximum size of read websocket message'): a message of exactly that size is legal",
    "implementation cap of 1024 deflate members per message is taken as configuration (band of +-8 around it not judged)",
]

MEM_CONST = 1024        # octets: partial header (<= 13), one control frame (<= 125), mask, slack
OBJ_CONST = 16
DEFAULT_MAX = 4 * 1024 * 1024
MEMBER_CAP = 1024
EQ_MAX_LATITUDE = False  # True would accept the refusal of a message of exactly max_msg_size octets
EQ_MAX_CLASS = False  # True names "1009 for a message of exactly max_msg_size" as its own class (old C12-F2)

TEXT_ALPHABET = ["a", "b", "z", " ", "0", "\u00e9", "\u20ac", "\U0001F600", "\u03ba"]
BAD_UTF8 = [b"\xff", b"\xc0\xaf", b"\xed\xa0\x80", b"\xf4\x90\x80\x80", b"\xe2\x82", b"\xc2", b"\xf0\x9f\x98",
            b"\x80", b"\xe0\x80\xaf", b"a\xe2\x82a", b"\xf8\x88\x80\x80\x80"]
BAD_CLOSE_CODES = [0, 1, 999, 1004, 1005, 1006, 1015, 1016, 1100, 2000, 2999, 5000, 6000, 65535]
RESERVED_OPCODES = [3, 4, 5, 6, 7, 0xB, 0xC, 0xD, 0xE, 0xF]


# ---------------------------------------------------------------------------
# stream specs: [["l", latin1], ["r", byte, count], ["p", seed, count]]


def build_stream(spec) -> bytes:
    out = bytearray()
    for c in spec:
        if c[0] == "l":
            out += enc(c[1])
        elif c[0] == "r":
            out += bytes([c[1]]) * c[2]
        else:
            out += random.Random(c[1]).randbytes(c[2])
    return bytes(out)


def lit(b: bytes):
    return ["l", dec(b)]


def spec_len(spec) -> int:
    return sum(len(c[1]) if c[0] == "l" else c[2] for c in spec)


class CutList(list):
    """Explicit cut offsets for SimNet (`pipe.policy` may be a list of absolute
    offsets).  SimNet scans the list from its start on every delivery; for
    thousands of cuts that is quadratic, so iteration starts at the first cut
    beyond what was delivered (same result, local work-around, sim/ untouched)."""

    pipe = None

    def __iter__(self):
        i = bisect.bisect_right(self, self.pipe.delivered) if self.pipe is not None else 0
        return list.__iter__(self[i:i + 1])


def expand_seg(seg, n, pipe=None):
    """Segmentation spec -> SimNet pipe policy."""
    if isinstance(seg, str):
        return seg
    if seg[0] == "cuts":
        cl = CutList(sorted(set(c for c in seg[1] if 0 < c < n)))
    elif seg[0] == "every":
        cl = CutList(range(seg[1], n, seg[1]))
    else:
        raise ValueError(seg)
    cl.pipe = pipe
    return cl


# ---------------------------------------------------------------------------
# generation


def _text(rng, nbytes):
    out = bytearray()
    while len(out) < nbytes:
        c = rng.choice(TEXT_ALPHABET).encode()
        if len(out) + len(c) > nbytes:
            c = b"x"
        out += c
    return bytes(out)


def _payload(rng, kind, size):
    if kind == "text":
        return _text(rng, size)
    r = rng.random()
    if r < 0.4:
        return rng.randbytes(size)
    if r < 0.7:
        return bytes(rng.choice(b"ab\x00\xff") for _ in range(size))
    return (b"0123456789abcdef" * (size // 16 + 1))[:size]


def gen_frames(rng, cfg, nmsg, sizes, *, with_close=True):
    """A valid conversation as a list of frame dicts
    {op, fin, rsv1, payload(bytes), mask(bytes|None), msg(int), in_frag(bool: a fragmented message is open *before* this frame)}"""
    frames = []
    masked = rng.random() < 0.5
    defl = R.Deflater(rng.randint(9, 15), rng.random() < 0.4) if cfg["compress"] else None

    def mk(op, payload, fin=True, rsv1=False, msg=0):
        return {"op": op, "fin": fin, "rsv1": rsv1, "payload": payload, "msg": msg,
                "mask": rng.randbytes(4) if masked else None}

    def control(msg):
        k = rng.choice(["ping", "ping", "pong"])
        return mk(R.OPCODE_OF[k], _payload(rng, "binary", rng.choice([0, 0, 1, 4, 125])), msg=msg)

    for m in range(nmsg):
        kind = rng.choice(["text"] * 7 + ["binary"] * 6 + ["ping"] * 2 + ["pong"])
        if kind in ("ping", "pong"):
            frames.append(mk(R.OPCODE_OF[kind], _payload(rng, "binary", rng.choice([0, 1, 5, 124, 125])), msg=m))
            continue
        body = _payload(rng, kind, rng.choice(sizes))
        rsv1 = False
        if defl is not None and rng.random() < 0.7:
            body = defl.compress_message(body)
            rsv1 = True
        nfr = rng.choice([0, 0, 0, 1, 1, 2, 3, 4])
        cuts = sorted(rng.randint(0, len(body)) for _ in range(nfr))
        pieces = R.split_payload(body, [b - a for a, b in zip([0] + cuts, cuts)])
        for i, piece in enumerate(pieces):
            if i and rng.random() < 0.3:
                frames.append(control(m))
            frames.append(mk(R.OPCODE_OF[kind] if i == 0 else R.OP_CONT, piece, fin=(i == len(pieces) - 1),
                             rsv1=(rsv1 and i == 0), msg=m))
    if with_close:
        r = rng.random()
        if r < 0.5:
            frames.append(mk(R.OP_CLOSE, R.close_payload(rng.choice([1000, 1001, 1011, 3000, 4999, 1012]),
                                                         _text(rng, rng.choice([0, 0, 3, 20]))), msg=nmsg))
        elif r < 0.6:
            frames.append(mk(R.OP_CLOSE, b"", msg=nmsg))
    _mark(frames)
    return frames, masked


def _mark(frames):
    open_ = False
    for f in frames:
        f["in_frag"] = open_
        if f["op"] in (R.OP_TEXT, R.OP_BINARY):
            open_ = not f["fin"]
        elif f["op"] == R.OP_CONT and f["fin"]:
            open_ = False


def ser(f) -> bytes:
    lf = f.get("len_form")
    n = f.get("declared_len")
    n = len(f["payload"]) if n is None else n
    if lf == 16 and n > 65535:
        f = dict(f, len_form=None)  # two mutations met on one frame: the 16-bit form cannot hold it
    return R.build_frame(f["op"], f["payload"], fin=f["fin"], rsv1=f["rsv1"], rsv2=f.get("rsv2", False),
                         rsv3=f.get("rsv3", False), mask=f["mask"], len_form=f.get("len_form"),
                         declared_len=f.get("declared_len"))


VIOLATION_CLASSES = [
    "rsv2", "rsv3", "rsv1", "opcode", "ctl_nofin", "ctl_long", "cont_nostart", "data_in_frag", "data_in_frag_empty",
    "bad_utf8", "bad_utf8_split", "close_len1", "close_badcode", "close_badutf8", "len_msb", "len_huge", "len_over_max",
    "nonmin_len", "rsv1_ctl", "rsv1_cont",
]


def inject(rng, frames, masked, cls, pos, cfg):
    """Insert or mutate at frame position `pos` (0..len(frames)).  Returns new list."""
    frames = [dict(f) for f in frames]
    mask = (lambda: rng.randbytes(4)) if masked else (lambda: None)

    def new(op, payload=b"", fin=True, **kw):
        d = {"op": op, "fin": fin, "rsv1": False, "payload": payload, "mask": mask(), "msg": -1}
        d.update(kw)
        return d

    tgt = frames[pos] if pos < len(frames) else None
    if cls in ("rsv2", "rsv3", "rsv1", "opcode", "nonmin_len") and tgt is None:
        tgt = new(R.OP_BINARY, b"tail")
        frames.append(tgt)
    if cls == "rsv2":
        tgt["rsv2"] = True
    elif cls == "rsv3":
        tgt["rsv3"] = True
    elif cls == "rsv1":
        tgt["rsv1"] = not tgt["rsv1"]
    elif cls == "opcode":
        tgt["op"] = rng.choice(RESERVED_OPCODES)
    elif cls == "nonmin_len":
        tgt["len_form"] = 16 if len(tgt["payload"]) < 126 and rng.random() < 0.5 else 64
    elif cls == "ctl_nofin":
        frames.insert(pos, new(rng.choice([R.OP_PING, R.OP_PONG, R.OP_CLOSE]), b"", fin=False))
    elif cls == "ctl_long":
        frames.insert(pos, new(rng.choice([R.OP_PING, R.OP_PONG, R.OP_CLOSE]), b"\x03\xe8" + b"p" * rng.choice([124, 200]),
                               len_form=16))
    elif cls == "rsv1_ctl":
        frames.insert(pos, new(R.OP_PING, b"", rsv1=True))
    elif cls == "cont_nostart":
        frames.insert(pos, new(R.OP_CONT, _payload(rng, "binary", rng.choice([0, 3])), fin=rng.random() < 0.6))
    elif cls == "rsv1_cont":
        frames.insert(pos, new(R.OP_TEXT, b"", fin=False, rsv1=cfg["compress"]))
        frames.insert(pos + 1, new(R.OP_CONT, b"\x02\x00", fin=True, rsv1=True))
    elif cls == "data_in_frag":
        frames.insert(pos, new(rng.choice([R.OP_TEXT, R.OP_BINARY]), _payload(rng, "text", rng.choice([0, 2])),
                               fin=rng.random() < 0.5))
    elif cls == "data_in_frag_empty":
        # a fragmented message whose fragments so far are empty, then a new data frame
        frames.insert(pos, new(R.OP_TEXT, b"", fin=False))
        frames.insert(pos + 1, new(rng.choice([R.OP_TEXT, R.OP_BINARY]), b"ab", fin=rng.random() < 0.7))
    elif cls == "bad_utf8":
        frames.insert(pos, new(R.OP_TEXT, _text(rng, rng.choice([0, 3])) + rng.choice(BAD_UTF8) + _text(rng, rng.choice([0, 2]))))
    elif cls == "bad_utf8_split":
        body = _text(rng, rng.choice([0, 2])) + rng.choice(BAD_UTF8 + ["\u20ac".encode() + b"\xff"]) + b"t"
        k = rng.randint(0, len(body))
        frames.insert(pos, new(R.OP_TEXT, body[:k], fin=False))
        nxt = pos + 1
        if rng.random() < 0.4:
            frames.insert(nxt, new(R.OP_PING, b"mid"))
            nxt += 1
        frames.insert(nxt, new(R.OP_CONT, body[k:], fin=True))
    elif cls == "close_len1":
        frames.insert(pos, new(R.OP_CLOSE, rng.choice([b"\x03", b"\x00", b"a"])))
    elif cls == "close_badcode":
        frames.insert(pos, new(R.OP_CLOSE, struct.pack("!H", rng.choice(BAD_CLOSE_CODES)) + _text(rng, rng.choice([0, 4]))))
    elif cls == "close_badutf8":
        frames.insert(pos, new(R.OP_CLOSE, struct.pack("!H", rng.choice([1000, 3000, 1006])) + rng.choice(BAD_UTF8)))
    elif cls == "len_msb":
        frames.insert(pos, new(rng.choice([R.OP_TEXT, R.OP_BINARY, R.OP_CONT]), b"xy", len_form=64,
                               declared_len=rng.choice([2 ** 63, 2 ** 63 + 1, 2 ** 64 - 1])))
    elif cls == "len_huge":
        frames.insert(pos, new(rng.choice([R.OP_TEXT, R.OP_BINARY]), b"xy", len_form=64,
                               declared_len=rng.choice([2 ** 63 - 1, 2 ** 62, 2 ** 32, 2 ** 31])))
    elif cls == "len_over_max":
        m = cfg["max_msg_size"] or DEFAULT_MAX
        d = rng.choice([m - 1, m, m + 1, 2 * m])
        frames.insert(pos, new(R.OP_BINARY, b"xy", len_form=None if d > 65535 else (16 if d > 125 else None),
                               declared_len=d, fin=rng.random() < 0.7))
    else:
        raise ValueError(cls)
    _mark(frames)
    return frames


def frames_to_spec(frames):
    return [lit(b"".join(ser(f) for f in frames))]


def gen_cfg(rng):
    r = rng.random()
    if r < 0.25:
        mms = 0
    elif r < 0.75:
        mms = rng.choice([16, 17, 32, 64, 100, 125, 126, 127, 256, 1000, 4096])
    else:
        mms = DEFAULT_MAX
    return {"compress": rng.random() < 0.5, "decode_text": rng.random() < 0.75, "max_msg_size": mms,
            "qlimit": rng.choice([65536] * 5 + [16, 256])}


def gen_segs(rng, n, tier):
    segs = []
    for _ in range(rng.randint(2, 4)):
        r = rng.random()
        if r < 0.35 and n > 1:
            k = rng.choice([1, 1, 2, 3, 3, 5, 8])
            segs.append(["cuts", sorted(rng.randint(1, n - 1) for _ in range(k))])
        elif r < 0.55:
            if n <= 6000:
                segs.append(["every", rng.choice([1, 1, 1, 2, 3, 7])])
            elif n <= 200000:
                segs.append(["every", rng.choice([509, 1460, 4096])])
            else:
                segs.append(["every", rng.choice([16384, 65536, 100003])])
        else:
            segs.append(rng.choice(["byte", "tiny", "small", "mixed", "mss"]))
    return segs


def gen(rng, tier, index):
    cfg = gen_cfg(rng)
    mms = cfg["max_msg_size"]
    fam = rng.random()
    label = "valid"
    forced = None
    one_frame = None
    if fam < 0.62:
        small = [0, 0, 1, 2, 3, 5, 8, 13, 20, 40]
        if mms and mms <= 4096:
            sizes = small + [mms - 1, mms, mms, mms + 1, mms // 2, mms // 2 + 1]
        else:
            sizes = small + [125, 126, 127, 200, 1000, 3000]
        if rng.random() < 0.04:
            sizes = sizes + [65535, 65536, 70000]
        sizes = [s for s in sizes if s >= 0]
        frames, masked = gen_frames(rng, cfg, rng.randint(1, 6), sizes)
        if fam >= 0.2:
            cls = rng.choice(VIOLATION_CLASSES)
            label = cls
            frames = inject(rng, frames, masked, cls, rng.randint(0, len(frames)), cfg)
            if rng.random() < 0.15:
                cls2 = rng.choice(VIOLATION_CLASSES)
                label += "+" + cls2
                frames = inject(rng, frames, masked, cls2, rng.randint(0, len(frames)), cfg)
        spec = frames_to_spec(frames)
        if rng.random() < 0.08:
            b = build_stream(spec)
            spec = [lit(b[:rng.randint(0, len(b))])]
            label += "+trunc"
    elif fam < 0.72:
        label, spec = gen_size_boundary(rng, cfg, tier)
    elif fam < 0.82:
        label, spec = gen_deflate_special(rng, cfg)
    elif fam < 0.90:
        label, spec = gen_random_bytes(rng, cfg)
    else:
        label, spec, forced, one_frame = gen_tiny_fragments(rng, cfg, tier)
    n = spec_len(spec)
    nd = rng.choice([1, 1, 2, 4])
    delays = [rng.choice([0, 0, 0, 1, 2, 5, 20]) for _ in range(nd)]
    segs = gen_segs(rng, n, tier)
    if forced:
        segs = forced + segs[:1]
    scn = {"cfg": cfg, "stream": spec, "segs": segs, "delays": delays,
           "end": rng.choice(["keep", "keep", "close"]), "label": label, "latency": rng.choice([0, 0, 3])}
    if one_frame is not None:
        scn["one_frame"] = one_frame  # parameters of the stream, kept so that shrink() can rebuild a smaller one
    return scn


def gen_size_boundary(rng, cfg, tier):
    """declared lengths around max_msg_size, in one frame and summed over fragments; payload present or not"""
    m = cfg["max_msg_size"] or rng.choice([65535, 65536, DEFAULT_MAX])
    total = rng.choice([m - 1, m, m, m + 1])
    if total > 200000 and rng.random() < 0.6:
        total = m + rng.choice([-1, 0, 1])
    spec = []
    k = rng.choice([1, 1, 2, 3])
    cuts = sorted(rng.randint(0, total) for _ in range(k - 1))
    sizes = [b - a for a, b in zip([0] + cuts, cuts + [total])]
    op = rng.choice([R.OP_BINARY, R.OP_BINARY, R.OP_TEXT])
    fill = rng.choice([0x61, 0x62, 0x00 if op == R.OP_BINARY else 0x63])
    pre = R.build_frame(R.OP_TEXT, b"first") if rng.random() < 0.5 else b""
    if pre:
        spec.append(lit(pre))
    present = rng.random() < (0.8 if total <= 70000 else (0.15 if tier == "quick" else 0.4))
    for i, s in enumerate(sizes):
        head = R.build_frame(op if i == 0 else R.OP_CONT, b"", fin=(i == len(sizes) - 1), declared_len=s,
                             mask=b"\0\0\0\0" if rng.random() < 0.3 else None)
        spec.append(lit(head))
        if present or i < len(sizes) - 1:
            spec.append(["r", fill, s])
        if i < len(sizes) - 1 and rng.random() < 0.3:
            spec.append(lit(R.build_frame(R.OP_PING, b"between")))
    spec.append(lit(R.build_frame(R.OP_PING, b"after") + R.build_frame(R.OP_CLOSE, R.close_payload(1000, b""))))
    return f"size_boundary", spec


def gen_deflate_special(rng, cfg):
    cfg["compress"] = True
    m = cfg["max_msg_size"]
    r = rng.random()
    out = bytearray()
    d = R.Deflater(rng.randint(9, 15), rng.random() < 0.5)
    if rng.random() < 0.5:
        out += R.encode_message("text", b"before", deflater=d if rng.random() < 0.5 else None)
    if r < 0.4:
        label = "bomb"
        n = rng.choice([m - 1, m, m + 1, 4 * m, 64 * m]) if m and m <= 65536 else rng.choice([65536, 300000, 1 << 20])
        if m == DEFAULT_MAX:
            n = rng.choice([1 << 18, 1 << 20, 1 << 20, DEFAULT_MAX - 1, DEFAULT_MAX, DEFAULT_MAX + 1])
        n = max(0, n)
        body = d.compress_message(bytes([rng.choice([0, 0x41])]) * n)
        fr = sorted(rng.randint(0, len(body)) for _ in range(rng.choice([0, 0, 1, 3])))
        pieces = R.split_payload(body, [b - a for a, b in zip([0] + fr, fr)])
        for i, p in enumerate(pieces):
            out += R.build_frame(R.OP_BINARY if i == 0 else R.OP_CONT, p, fin=(i == len(pieces) - 1), rsv1=(i == 0))
    elif r < 0.7:
        label = "members"
        k = rng.choice([2, 3, 50, 500, MEMBER_CAP - 20, MEMBER_CAP + 20, 1500, 3000])
        unit = rng.choice([b"\x03\x00", b"\x03\x00", zlib_member(b"ab")])
        body = unit * k
        if rng.random() < 0.5:
            body += d.compress_message(b"tail")
        out += R.build_frame(R.OP_BINARY, body, rsv1=True)
    elif r < 0.85:
        label = "corrupt_deflate"
        body = rng.choice([b"\xff\xff\xff\xff", rng.randbytes(rng.randint(1, 30)), b"\x05\x00\x00\x00", b"\x00\x05\x00"])
        out += R.build_frame(rng.choice([R.OP_BINARY, R.OP_TEXT]), body, rsv1=True)
    else:
        label = "deflate_valid_mix"
        for _ in range(rng.randint(1, 5)):
            kind = rng.choice(["text", "binary"])
            body = _payload(rng, kind, rng.choice([0, 1, 5, 40, 300]))
            frs = sorted(rng.randint(0, 6) for _ in range(rng.choice([0, 1, 2])))
            out += R.encode_message(kind, body, deflater=d if rng.random() < 0.8 else None, fragments=frs)
        if rng.random() < 0.5:
            # BFINAL block + 0x00 (RFC 7692 7.2.3.4), then a message relying on a fresh context
            out += R.build_frame(R.OP_TEXT, bytes.fromhex("f348cdc9c9070000"), rsv1=True)
            d = R.Deflater(15)
            out += R.encode_message("text", b"Hello again", deflater=d)
    out += R.build_frame(R.OP_PING, b"after")
    if rng.random() < 0.5:
        out += R.encode_message("binary", b"zz" * 9, deflater=d)
    return label, [lit(bytes(out))]


def zlib_member(data: bytes) -> bytes:
    import zlib
    c = zlib.compressobj(6, zlib.DEFLATED, -15)
    return c.compress(data) + c.flush(zlib.Z_FINISH)


def gen_random_bytes(rng, cfg):
    if rng.random() < 0.4:
        n = rng.choice([1, 2, 3, 10, 40, 200])
        # bias the first octets towards plausible headers so the payload states are reached
        b = bytearray(rng.randbytes(n))
        for i in range(0, min(n, 4), 2):
            if rng.random() < 0.7:
                b[i] = rng.choice([0x81, 0x82, 0x01, 0x02, 0x80, 0x00, 0x89, 0x8A, 0x88, 0xC1, 0xC2, 0x41])
        return "random", [lit(bytes(b))]
    frames, masked = gen_frames(rng, cfg, rng.randint(1, 4), [0, 1, 3, 8, 20, 126])
    b = bytearray(b"".join(ser(f) for f in frames))
    for _ in range(rng.choice([1, 1, 2, 4])):
        if not b:
            break
        i = rng.randrange(len(b))
        r = rng.random()
        if r < 0.5:
            b[i] ^= 1 << rng.randrange(8)
        elif r < 0.7:
            b[i] = rng.randrange(256)
        elif r < 0.85:
            del b[i]
        else:
            b.insert(i, rng.randrange(256))
    return "bytemut", [lit(bytes(b))]


def gen_tiny_fragments(rng, cfg, tier):
    """thousands of tiny WebSocket fragments, or one frame delivered in thousands of reads
    -> (label, spec, forced segmentations)"""
    if rng.random() < 0.4:
        # many 0/1-octet continuation frames
        k = rng.choice([300, 1100, 2500]) if tier == "quick" else rng.choice([300, 1100, 2500, 6000])
        unit = rng.choice([0, 1, 1, 2])
        out = bytearray(R.build_frame(R.OP_BINARY, b"s", fin=False))
        for i in range(k):
            out += R.build_frame(R.OP_CONT, b"f" * unit, fin=False)
            if i % 400 == 399:
                out += R.build_frame(R.OP_PING, b"")
        out += R.build_frame(R.OP_CONT, b"e", fin=True)
        out += R.build_frame(R.OP_PING, b"after")
        return "many_frames", [lit(bytes(out))], None, None
    # one frame of n octets below the limit, delivered in more reads than the fragment cap
    m = rng.choice([2048, 4096, 4096, 8192, DEFAULT_MAX])
    cfg["max_msg_size"] = m
    n = rng.choice([1000, 1030, 1100, 1500, 2000, 3000, min(m, 6000) - 1])
    of = {"n": n, "masked": rng.random() < 0.3, "prefix": False, "cont": False}
    of["prefix"] = rng.random() < 0.3
    every = rng.choice([1, 1, 2])
    # the unlimited reader (max_msg_size=0, "no cap" for sizes and for the number of reads a frame may take): the same
    # stream must come out whatever the number of reads; drawn last so the other draws of this family stay as they were
    if rng.random() < 0.3:
        cfg["max_msg_size"] = 0
        if rng.random() < 0.5:
            of["n"] = rng.choice([1100, 2600, 5000, 9000])
        of["cont"] = rng.random() < 0.3
    return "one_frame_many_reads", one_frame_spec(of), [["every", every]], of


def one_frame_spec(of):
    """one binary frame of of["n"] octets (optionally masked with the zero key, optionally preceded by a two-fragment
    text message), then a ping"""
    n = of["n"]
    spec = [lit(R.build_frame(R.OP_CONT if of.get("cont") else R.OP_BINARY, b"", declared_len=n,
                              mask=b"\0\0\0\0" if of["masked"] else None)),
            ["r", 0x78, n], lit(R.build_frame(R.OP_PING, b"after"))]
    if of.get("cont"):
        # the long frame is the last fragment of a text message
        spec.insert(0, lit(R.build_frame(R.OP_TEXT, b"st", fin=False) + R.build_frame(R.OP_PING, b"mid")))
    if of["prefix"]:
        spec.insert(0, lit(R.build_frame(R.OP_TEXT, b"frag", fin=False) + R.build_frame(R.OP_CONT, b"ment")))
    return spec


# ---------------------------------------------------------------------------
# the world


class _Peer(asyncio.Protocol):
    def __init__(self):
        self.transport = None

    def connection_made(self, transport):
        self.transport = transport

    def data_received(self, data):
        pass

    def eof_received(self):
        return False

    def connection_lost(self, exc):
        pass

    def pause_writing(self):
        pass

    def resume_writing(self):
        pass


_SKIP_TYPES = (types.ModuleType, types.FunctionType, types.BuiltinFunctionType, types.MethodType, type,
               int, str, float, bool, type(None), BaseException)
_CONTAINERS = (list, tuple, set, frozenset, collections.deque)


def retained(root, skip_ids):
    """(octets, objects): len() of every bytes/bytearray/memoryview target
    reachable from `root`, not following the objects in skip_ids."""
    total = 0
    count = 0
    seen = set(skip_ids)
    stack = [root]
    while stack:
        o = stack.pop()
        i = id(o)
        if i in seen:
            continue
        seen.add(i)
        t = type(o)
        if t is bytes or t is bytearray:
            if len(o):
                total += len(o)
                count += 1
        elif t is memoryview:
            stack.append(o.obj)
        elif t in _CONTAINERS:
            stack.extend(o)
        elif t is dict:
            stack.extend(o.values())
        elif isinstance(o, _SKIP_TYPES):
            continue
        else:
            d = getattr(o, "__dict__", None)
            if d is not None:
                stack.extend(d.values())
            for cls in t.__mro__:
                for s in getattr(cls, "__slots__", ()):
                    v = getattr(o, s, None)
                    if v is not None:
                        stack.append(v)
            if hasattr(o, "unconsumed_tail"):  # zlib decompress objects are opaque to __dict__
                stack.append(o.unconsumed_tail)
                stack.append(o.unused_data)
    return total, count


def norm_msg(m, viol, decode_text):
    """aiohttp WSMessage -> ref.ws tuple (+ field consistency checks)"""
    from aiohttp._websocket import models as M

    t = type(m)
    if t is M.WSMessageText:
        if not isinstance(m.data, str):
            viol("message_fields", "text_not_str", f"WSMessageText.data is {type(m.data).__name__}")
            return ("text", bytes(m.data))
        if not decode_text:
            viol("message_fields", "decoded_although_decode_text_false", "got str with decode_text=False")
        raw = m.data.encode("utf-8", "surrogatepass")
        if m.size != len(raw):
            viol("message_fields", "size_field", f"text size={m.size} but payload is {len(raw)} octets")
        return ("text", raw)
    if t is M.WSMessageTextBytes:
        if decode_text:
            viol("message_fields", "bytes_although_decode_text_true", "got WSMessageTextBytes with decode_text=True")
        if type(m.data) is not bytes or m.size != len(m.data):
            viol("message_fields", "size_field", f"text(bytes) size={m.size} len={len(m.data)} type={type(m.data).__name__}")
        return ("text", bytes(m.data))
    if t is M.WSMessageBinary:
        if type(m.data) is not bytes or m.size != len(m.data):
            viol("message_fields", "size_field", f"binary size={m.size} len={len(m.data)} type={type(m.data).__name__}")
        return ("binary", bytes(m.data))
    if t is M.WSMessagePing:
        return ("ping", bytes(m.data))
    if t is M.WSMessagePong:
        return ("pong", bytes(m.data))
    if t is M.WSMessageClose:
        if m.size == 0 and m.data == 0:
            return ("close", None, b"")
        return ("close", int(m.data), (m.extra or "").encode("utf-8", "surrogatepass"))
    viol("message_fields", f"unexpected_type_{t.__name__}", repr(m)[:200])
    return ("?", repr(m))


def short(msgs, k=6):
    out = []
    for m in msgs[:k]:
        if m[0] == "close":
            out.append(f"close({m[1]},{m[2][:12]!r})")
        else:
            out.append(f"{m[0]}[{len(m[1])}]{m[1][:10]!r}")
    return "[" + ", ".join(out) + (f", ...+{len(msgs) - k}" if len(msgs) > k else "") + "]"


class Sim:
    """One World; run_one() pushes the stream through a fresh transport pair."""

    def __init__(self, w, cfg, viol, probes):
        from aiohttp._websocket import reader as reader_mod
        from aiohttp._websocket import reader_py
        from aiohttp.client_proto import ResponseHandler

        assert reader_mod.WebSocketReader is reader_py.WebSocketReader, "compiled WebSocket reader is active"
        assert reader_mod.WebSocketDataQueue is reader_py.WebSocketDataQueue
        self.w = w
        self.cfg = cfg
        self.viol = viol
        self.probes = probes
        self.RH = ResponseHandler
        self.Reader = reader_py.WebSocketReader
        self.Queue = reader_py.WebSocketDataQueue

    def run_one(self, stream: bytes, seg, delays, end, tag):
        from aiohttp._websocket.models import WebSocketError
        from aiohttp.streams import EofStream

        loop, net = self.w.loop, self.w.net
        cfg = self.cfg
        viol = self.viol
        n = len(stream)
        peer = _Peer()
        sim = self
        st = {"deliv": 0, "max_bytes": 0, "max_objs": 0}
        reader_box = []

        class Proto(self.RH):
            def data_received(self, data):
                super().data_received(data)
                st["deliv"] += 1
                d = st["deliv"]
                if cfg["max_msg_size"] and reader_box and (d <= 64 or (d < 1024 and d % 16 == 0) or d % 128 == 0):
                    sim.measure(reader_box[0], st)

        proto = Proto(loop)
        proto._upgraded = True  # state after the 101 response (client_proto.ResponseHandler.data_received)
        a, b = net.attach_pair(peer, proto)
        a.out.policy = expand_seg(seg, n, a.out)
        queue = self.Queue(proto, cfg["qlimit"], loop=loop)
        reader = self.Reader(queue, cfg["max_msg_size"], compress=cfg["compress"], decode_text=cfg["decode_text"])
        proto.set_parser(reader, queue)
        reader_box.append(reader)
        out = {"msgs": [], "err": None, "eof": False, "after_err": 0, "sticky": True}

        async def consumer():
            i = 0
            while True:
                d = delays[i % len(delays)] if delays else 0
                i += 1
                if d:
                    await asyncio.sleep(d * 0.001)
                try:
                    m = await queue.read()
                except EofStream:
                    out["eof"] = True
                    return
                except Exception as e:  # the stream's error
                    if isinstance(e, WebSocketError):
                        out["err"] = ("WebSocketError", int(e.code), str(e)[:80])
                    else:
                        out["err"] = (type(e).__name__, None, str(e)[:80])
                    break
                out["msgs"].append(norm_msg(m, viol, cfg["decode_text"]))
            # the error latches: nothing may follow it
            for _ in range(2):
                await asyncio.sleep(0.002)
                try:
                    m = await queue.read()
                    out["after_err"] += 1
                except EofStream:
                    out["sticky"] = False
                except Exception:
                    pass

        if n:
            peer.transport.write(stream)
        if end == "close":
            peer.transport.close()
        t0 = loop.time()
        task = loop.run_sim(consumer(), vt_cap=t0 + 900.0, step_cap=loop.steps + 400000)
        blocked = not task.done()
        if cfg["max_msg_size"] and reader._exc is None:
            self.measure(reader, st)
        out["blocked"] = blocked
        out["capped"] = loop.capped
        out["undelivered"] = len(a.out.buf)
        out["paused"] = bool(proto._reading_paused)
        out["stalled"] = bool(blocked and out["undelivered"] and proto._reading_paused and not queue._buffer)
        out["max_bytes"] = st["max_bytes"]
        out["max_objs"] = st["max_objs"]
        out["deliveries"] = st["deliv"]
        out["pauses"] = loop.faults.get("pause_reading", 0)
        out["frag_peak"] = len(reader._payload_fragments)
        out["frag_pause"] = bool(reader._max_fragments and len(reader._payload_fragments) > reader._max_fragments)
        out["queue_left"] = len(queue._buffer)
        if blocked:
            task.cancel()
            loop.run_sim(task, vt_cap=loop.time() + 1.0, step_cap=loop.steps + 1000)
        for tr in (a, b):
            if not tr._closed:
                tr.abort()
        loop.run_sim(None, vt_cap=loop.time() + 0.05, step_cap=loop.steps + 1000)
        return out

    def measure(self, reader, st):
        if reader._exc is not None:
            return
        nbytes, nobj = retained(reader, {id(reader.queue)})
        if nbytes > st["max_bytes"]:
            st["max_bytes"] = nbytes
        if nobj > st["max_objs"]:
            st["max_objs"] = nobj


def outcome_kind(o):
    if o["stalled"]:
        return "stall"
    if o["err"] is not None:
        return f"error{o['err'][1]}" if o["err"][0] == "WebSocketError" else f"exc_{o['err'][0]}"
    return "eof" if o["eof"] else "ok"


def matches(o, r, n, end, cfg):
    """Is aiohttp's outcome `o` the reference outcome `r`?  -> (ok, what)"""
    exp = r.messages
    got = o["msgs"]
    e = r.error
    if e is None:
        if r.closed:
            # decoding stops at a Close frame; what follows is not judged
            if got[:len(exp)] != exp:
                return False, "messages_differ"
            return True, ""
        if got != exp:
            return False, ("spurious_error" if o["err"] is not None and got == exp[:len(got)] else "messages_differ")
        if o["err"] is not None:
            return False, "spurious_error"
        if end == "close" and not o["eof"]:
            return False, "missing_eof"
        return True, ""
    if got != exp:
        if o["err"] is None and got[:len(exp)] == exp and len(got) > len(exp):
            return False, "accepted_violation"
        if o["err"] is not None and got == exp[:len(got)]:
            return False, "early_error"
        return False, "messages_differ"
    if o["err"] is None:
        if n < e.hi:
            return True, ""  # not decidable yet for every decoder
        return False, "accepted_violation"
    if e.any_exception:
        return True, ""
    if o["err"][0] != "WebSocketError":
        return False, "wrong_exception_type"
    if o["err"][1] not in e.codes:
        return False, "wrong_code"
    return True, ""


def ref_variants(stream, cfg):
    kw = dict(deflate=cfg["compress"], max_msg_size=cfg["max_msg_size"], validate_text=cfg["decode_text"],
              require_mask=None, stop_at_close=True, max_members=MEMBER_CAP)
    out = R.decode_variants(stream, **kw)
    # the implementation's member cap is configuration, not protocol: do not judge a band around it
    if any(r.error is not None and r.error.cls == "too_many_deflate_members" for r in out) or b"\x03\x00" * 900 in stream:
        for cap in (MEMBER_CAP - 8, MEMBER_CAP + 8):
            kw["max_members"] = cap
            out.extend(R.decode_variants(stream, **kw))
    return out


def _err_says_size_equals_limit(err):
    """labelling only: aiohttp's own text 'Message size N exceeds limit N' with both numbers equal
    (e.g. a frame header declaring exactly max_msg_size whose payload has not arrived yet)"""
    import re as _re
    m = _re.search(r"size (\d+) exceeds limit (\d+)", str(err[2]) if err and len(err) > 2 else "")
    return bool(m) and m.group(1) == m.group(2)


def next_is_exactly_max(got, stream, cfg):
    """aiohttp stopped in front of a legal data message of exactly max_msg_size octets?"""
    full = R.decode(stream, deflate=cfg["compress"], max_msg_size=0, validate_text=cfg["decode_text"],
                    max_members=None, stop_at_close=False)
    exp = full.messages
    k = len(got)
    if got != exp[:k]:
        return False
    # control frames interleaved with the refused message are delivered before it would have been
    for x in exp[k:]:
        if x[0] in ("text", "binary"):
            return len(x[1]) == cfg["max_msg_size"]
    return False


def run(scn, ch, log=False):
    viols = []

    def viol(inv, key, msg):
        if not any(v["invariant"] == inv and v["key"] == key for v in viols) and len(viols) < 4:
            viols.append({"invariant": inv, "key": key, "message": msg})

    cfg = scn["cfg"]
    stream = build_stream(scn["stream"])
    n = len(stream)
    variants = ref_variants(stream, cfg)
    primary = variants[0]
    probes = collections.Counter()
    label = scn.get("label", "")
    with World(ch, scn.get("seed", 0), log_events=log) as w:
        loop, net = w.loop, w.net
        net.max_latency_ticks = scn.get("latency", 0)
        sim = Sim(w, cfg, viol, probes)
        head = (f"[{label}] cfg={cfg} stream[{n}]={stream[:48].hex()}{'...' if n > 48 else ''} "
                f"ref: msgs={short(primary.messages)} error={primary.error} closed={primary.closed}")

        def judge(o, seg_desc):
            if o["capped"]:
                viol("progress", f"run_capped_{o['capped']}", f"{head}; delivery {seg_desc}: run hit the {o['capped']} cap")
                return
            if o["stalled"]:
                # max_msg_size=0 is the unlimited configuration: no size bound and hence no bound on the number of reads a
                # frame may take is in force, so a reader that stops reading there is a class of its own (not the
                # consequence of the fragment-count cap of a limited reader)
                viol("stall", "paused_incomplete_frame_never_resumed" + ("" if cfg["max_msg_size"] else ":unlimited_reader"),
                     f"{head}; delivery {seg_desc}: consumer blocked in queue.read() on an empty queue while the "
                     f"transport is paused with {o['undelivered']} of {n} octets undelivered; "
                     f"fragments buffered={o['frag_peak']} deliveries={o['deliveries']} got={short(o['msgs'])}")
                return
            if o["after_err"]:
                viol("nothing_after_violation", "message_after_error",
                     f"{head}; delivery {seg_desc}: {o['after_err']} message(s) read after {o['err']}")
            if o["err"] is not None and not o["sticky"]:
                viol("nothing_after_violation", "error_not_sticky", f"{head}; delivery {seg_desc}: EofStream after {o['err']}")
            why = ""
            for r in variants:
                ok, why_r = matches(o, r, n, scn["end"], cfg)
                if ok:
                    break
                why = why or why_r
            else:
                e = primary.error
                m_ = cfg["max_msg_size"]
                code = o["err"] and (o["err"][1] or o["err"][0])
                # (the exclusive-bound reading was a divergence class of its own, C12-F2, until aiohttp was repaired in
                # b9b75b7; kept only as a switch for bisecting old trees)
                if EQ_MAX_CLASS and m_ > 1 and o["err"] is not None and o["err"][1] == 1009 and (any(
                        matches(o, r, n, scn["end"], cfg)[0] for r in ref_variants(stream, dict(cfg, max_msg_size=m_ - 1)))
                        or next_is_exactly_max(o["msgs"], stream, cfg) or _err_says_size_equals_limit(o["err"])):
                    # explained exactly by reading max_msg_size as an exclusive bound
                    if EQ_MAX_LATITUDE:
                        return
                    key = "spurious_error:1009:size_eq_max"
                elif why in ("early_error", "spurious_error"):
                    key = f"spurious_error:{code}"
                else:
                    cls = "valid" if e is None else e.cls + (":" + e.detail if e.detail else "")
                    key = f"{why}:{cls}" + (f":{code}" if why in ("wrong_code", "wrong_exception_type") else "")
                viol("ref_decoder_agreement", key,
                     f"{head}; delivery {seg_desc}: aiohttp delivered {short(o['msgs'])} err={o['err']} eof={o['eof']} "
                     f"blocked={o['blocked']} ({len(variants)} reference reading(s) tried)")
            m = cfg["max_msg_size"]
            if m:
                if o["max_bytes"] > m + MEM_CONST:
                    viol("retained_memory_bounded", "bytes",
                         f"{head}; delivery {seg_desc}: {o['max_bytes']} octets retained by the reader for an incomplete "
                         f"message, bound max_msg_size + {MEM_CONST} = {m + MEM_CONST}")
                cap = max(1024, m // 256) + OBJ_CONST
                if o["max_objs"] > cap:
                    viol("retained_memory_bounded", "fragment_objects",
                         f"{head}; delivery {seg_desc}: {o['max_objs']} separate buffers retained for an incomplete "
                         f"message (bound {cap}): per-object overhead makes memory a multiple of max_msg_size")

        base = sim.run_one(stream, "whole", [0], scn["end"], "whole")
        judge(base, "whole")
        bk = outcome_kind(base)
        nseg = 1
        paused = base["pauses"]
        frag_pause = base["frag_pause"]
        for seg in scn["segs"]:
            if viols:
                break
            o = sim.run_one(stream, seg, scn["delays"], scn["end"], "seg")
            nseg += 1
            paused = max(paused, o["pauses"])
            frag_pause = frag_pause or o["frag_pause"]
            if not isinstance(seg, str) and seg[0] == "every" and seg[1] == 1:
                probes["byte_at_a_time"] = 1
            if o["max_objs"] > 1000:
                probes["over_1000_buffers_retained"] = 1
            desc = seg if isinstance(seg, str) else (f"cuts={seg[1]}" if seg[0] == "cuts" else f"every {seg[1]} octet(s)")
            judge(o, desc)
            ok_ = outcome_kind(o)
            if (o["msgs"], o["err"] and o["err"][:2], o["eof"], o["stalled"]) != \
                    (base["msgs"], base["err"] and base["err"][:2], base["eof"], base["stalled"]):
                if not (o["stalled"] or base["stalled"]):  # stalls are reported by their own invariant
                    viol("segmentation_independence", f"{bk}->{ok_}:{'same_msgs' if o['msgs'] == base['msgs'] else 'msgs_differ'}",
                         f"{head}; one-piece delivery gave {short(base['msgs'])} err={base['err']} eof={base['eof']}; "
                         f"delivery {desc} gave {short(o['msgs'])} err={o['err']} eof={o['eof']} blocked={o['blocked']}")
        if not viols and loop.exc_contexts:
            c = loop.exc_contexts[0]
            viol("loop_exception", f"{c['exc_type']}@{c.get('frame')}", f"{head}; exception reached the loop: {c}")
        if not viols and net.fatal_errors:
            viol("loop_exception", f"fatal_{net.fatal_errors[0][2]}", f"{head}; {net.fatal_errors[0]}")
        nframes = len(primary.frames)
        reassembled = any((not f[3]) for f in primary.frames)
        probes["segmentations"] = nseg
        probes["deliveries"] = base["deliveries"]
        if paused:
            probes["transport_paused"] = 1
        if frag_pause:
            probes["paused_by_fragment_cap"] = 1
        elif paused:
            probes["paused_by_queue_limit"] = 1
        if base["err"] is not None:
            probes["violation_reported"] = 1
            probes[f"code_{base['err'][1]}"] = 1
        if primary.error is not None:
            probes["cls_" + primary.error.cls] = 1
        if reassembled:
            probes["fragmented_message"] = 1
        if len(variants) > 1:
            probes["latitude_variants"] = 1
        if base["max_objs"] > 1000:
            probes["over_1000_buffers_retained"] = 1
        if base["eof"]:
            probes["eof_after_close"] = 1
        if primary.closed:
            probes["close_frame"] = 1
        if cfg["compress"] and any(f[4] for f in primary.frames):
            probes["compressed_message"] = 1
        stt = w.stats()
        res = {
            "violations": viols,
            "nontrivial": bool(nframes >= 2 and (base["err"] is not None or paused or reassembled)),
            "sig": stt["sig"], "digest": stt["digest"], "steps": stt["steps"], "vtime": stt["vtime"],
            "faults": stt["faults"], "probes": dict(probes),
            "shape": f"{label.split('+')[0]}-c{int(cfg['compress'])}-m{min(cfg['max_msg_size'], 99999)}-{bk}",
        }
        if log:
            res["event_log"] = loop.event_log
        return res


# ---------------------------------------------------------------------------
# minimisation


def shrink(scn):
    segs = scn["segs"]
    if len(segs) > 1:
        for s in segs:
            c = dict(scn)
            c["segs"] = [s]
            yield c
    if len(segs) == 1 and not isinstance(segs[0], str) and segs[0][0] == "cuts" and len(segs[0][1]) > 1:
        cuts = segs[0][1]
        for i in range(len(cuts)):
            c = dict(scn)
            c["segs"] = [["cuts", cuts[:i] + cuts[i + 1:]]]
            yield c
    if len(segs) >= 1:
        c = dict(scn)
        c["segs"] = []
        yield c
    if any(scn["delays"]):
        c = dict(scn)
        c["delays"] = [0]
        yield c
    if scn["end"] != "keep":
        c = dict(scn)
        c["end"] = "keep"
        yield c
    if scn.get("latency"):
        c = dict(scn)
        c["latency"] = 0
        yield c
    if scn["cfg"]["qlimit"] != 65536:
        c = dict(scn)
        c["cfg"] = dict(scn["cfg"], qlimit=65536)
        yield c
    of = scn.get("one_frame")
    if of:
        # one frame delivered in many reads: no prefix message, no mask, shorter frame (the stream is rebuilt)
        cands = []
        if of["prefix"]:
            cands.append(dict(of, prefix=False))
        if of["masked"]:
            cands.append(dict(of, masked=False))
        if of.get("cont"):
            cands.append(dict(of, cont=False))
        for n2 in (1030, of["n"] // 2, of["n"] * 3 // 4, of["n"] - 100):
            if 1 <= n2 < of["n"]:
                cands.append(dict(of, n=n2))
        for of2 in cands:
            c = dict(scn)
            c["one_frame"] = of2
            c["stream"] = one_frame_spec(of2)
            yield c
    # drop whole frames from either end (only for literal streams the reference can split)
    spec = scn["stream"]
    if len(spec) == 1 and spec[0][0] == "l" and len(spec[0][1]) <= 20000:
        b = enc(spec[0][1])
        r = R.decode(b, deflate=scn["cfg"]["compress"], max_msg_size=0, validate_text=False, stop_at_close=False)
        bounds = [f[0] for f in r.frames] + ([r.frames[-1][1]] if r.frames else [])
        for cut in bounds[1:]:
            if 0 < cut < len(b):
                c = dict(scn)
                c["stream"] = [lit(b[cut:])]
                c["segs"] = [s for s in scn["segs"] if isinstance(s, str) or s[0] == "every"]
                yield c
        for cut in reversed(bounds[1:]):
            if 0 < cut < len(b):
                c = dict(scn)
                c["stream"] = [lit(b[:cut])]
                yield c


# ---------------------------------------------------------------------------
# enumerated cut sets


def catalogue(tier):
    """(label, cfg, stream bytes): every violation class at every frame position of a fixed conversation."""
    out = []
    limit = ENUM_MAX[tier]
    for compress in (False, True):
        for mms in (0, 24):
            if tier == "quick" and compress and mms:
                continue
            cfg = {"compress": compress, "decode_text": True, "max_msg_size": mms, "qlimit": 65536}
            rng = random.Random(f"c12-cat-{compress}-{mms}-{tier}")
            masked = False
            defl = R.Deflater(15) if compress else None

            def fr(op, payload, fin=True, rsv1=False):
                return {"op": op, "fin": fin, "rsv1": rsv1, "payload": payload, "mask": None, "msg": 0}

            euro = "\u20ac".encode()
            if tier == "quick":
                t = b"h" + euro
                bin_ = b"\x00\xff"
                extra = []
                reason = b"k"
            else:
                t = b"he" + euro + b"llo, w" + euro + b"rld"
                bin_ = b"\x00\xffbinary\x80payload"
                extra = [fr(R.OP_PONG, b"pong-data")]
                reason = b"bye " + euro
            if defl is not None:
                tw = defl.compress_message(t)
                first = [fr(R.OP_TEXT, tw[:2], fin=False, rsv1=True), fr(R.OP_PING, b"p"), fr(R.OP_CONT, tw[2:])]
            else:
                first = [fr(R.OP_TEXT, t[:2], fin=False), fr(R.OP_PING, b"p"), fr(R.OP_CONT, t[2:])]
            base = first + extra + [fr(R.OP_BINARY, bin_), fr(R.OP_CLOSE, R.close_payload(1000, reason))]
            _mark(base)
            out.append((f"valid", cfg, b"".join(ser(f) for f in base)))
            # masked variant of the valid conversation
            mb = [dict(f, mask=bytes([0x37, 0xfa, 0x21, 0x3d])) for f in base]
            out.append((f"valid_masked", cfg, b"".join(ser(f) for f in mb)))
            for cls in VIOLATION_CLASSES:
                if cls in ("len_over_max",) and not mms:
                    continue
                for pos in range(len(base) + 1):
                    r2 = random.Random(f"{cls}-{pos}-{compress}-{mms}")
                    frames = inject(r2, base, masked, cls, pos, cfg)
                    b = b"".join(ser(f) for f in frames)
                    out.append((f"{cls}@{pos}", cfg, b))
            for code in BAD_CLOSE_CODES + [1000, 1012, 1014, 3000, 4999]:
                out.append((f"close_code_{code}", cfg, R.build_frame(R.OP_PING, b"") + R.build_frame(R.OP_CLOSE, struct.pack("!H", code) + b"r")
                            + R.build_frame(R.OP_PING, b"x")))
            for op in RESERVED_OPCODES:
                out.append((f"opcode_{op}", cfg, R.build_frame(R.OP_TEXT, b"a") + R.build_frame(op, b"zz") + R.build_frame(R.OP_PING, b"x")))
            for bad in BAD_UTF8:
                for k in range(len(bad) + 1):
                    out.append((f"utf8_split", cfg, R.build_frame(R.OP_TEXT, b"a" + bad[:k], fin=False) + R.build_frame(R.OP_PING, b"m")
                                + R.build_frame(R.OP_CONT, bad[k:] + b"z") + R.build_frame(R.OP_PING, b"x")))
            if mms:
                # sizes around the limit, whole and fragmented
                for total in (mms - 1, mms, mms + 1):
                    out.append((f"size{total - mms:+d}", cfg, R.build_frame(R.OP_BINARY, b"s" * total) + R.build_frame(R.OP_PING, b"")))
                    out.append((f"size{total - mms:+d}_frag", cfg,
                                R.build_frame(R.OP_BINARY, b"s" * 10, fin=False) + R.build_frame(R.OP_PING, b"") +
                                R.build_frame(R.OP_CONT, b"s" * (total - 10)) + R.build_frame(R.OP_PING, b"")))
    seen = set()
    res = []
    for label, cfg, b in out:
        k = (b, cfg["compress"], cfg["max_msg_size"])
        if k in seen or len(b) > limit or len(b) < 2:
            continue
        seen.add(k)
        res.append((label, cfg, b))
    return res


def read_count_cases():
    """The unlimited reader (max_msg_size=0): one frame longer than any read-count constant of the implementation,
    delivered one and two octets per read - as a single frame, masked, after a fragmented message, and as the last
    fragment of a message.  (With a limit configured the same deliveries run into the known finding C12-F1, so the
    limited reader is left to the seeded part.)"""
    cfg = {"compress": False, "decode_text": True, "max_msg_size": 0, "qlimit": 65536}
    for of, compress in (({"n": 1100, "masked": False, "prefix": False, "cont": False}, False),
                         ({"n": 2600, "masked": True, "prefix": True, "cont": False}, True),
                         ({"n": 2600, "masked": False, "prefix": False, "cont": True}, False)):
        yield {"cfg": dict(cfg, compress=compress), "stream": one_frame_spec(of), "segs": [["every", 1], ["every", 2]],
               "delays": [0], "end": "keep", "label": "one_frame_many_reads", "latency": 0, "enum": True, "one_frame": of}


def enumerate_cases(tier, seed):
    yield from read_count_cases()
    per = 160  # segmentations per scenario
    for label, cfg, b in catalogue(tier):
        n = len(b)
        cutsets = [["every", 1]]
        cutsets += [["cuts", [i]] for i in range(1, n)]
        cutsets += [["cuts", [i, j]] for i in range(1, n) for j in range(i + 1, n)]
        for k in range(0, len(cutsets), per):
            yield {"cfg": dict(cfg), "stream": [lit(b)], "segs": cutsets[k:k + per], "delays": [0], "end": "keep",
                   "label": label, "latency": 0, "enum": True}


def oracle_selftest():
    R.oracle_selftest()
    # the memory probe sees what it should
    class Box:
        pass
    bx = Box()
    bx.a = [b"abc", bytearray(b"defg"), (b"hi", {"k": b"j"})]
    bx.q = collections.deque([b"zzzzzz"])
    assert retained(bx, set()) == (16, 5)
    assert retained(bx, {id(bx.q)}) == (10, 4)
    # every catalogue stream is classified by the reference as intended
    cat = catalogue("quick")
    assert len(cat) > 100, len(cat)
    nviol = sum(1 for label, cfg, b in cat if R.decode(b, deflate=cfg["compress"], max_msg_size=cfg["max_msg_size"]).error is not None)
    assert nviol > 60, nviol
    return True
