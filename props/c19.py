"""C19 - multipart codec round trip, truthful size, reader termination (DESIGN.md 9, C19).

World U: the real MultipartWriter / FormData payload is written into a sink;
the bytes (optionally mutated) are fed in seeded pieces by a producer actor
that honours pause_reading into a real StreamReader; a consumer task drives
the real MultipartReader / BodyPartReader with a seeded read-API programme.
World CS (a sample of the runs): real ClientSession -> SimNet -> real web
server handler (request.multipart() / request.post()) and a multipart
response read with MultipartReader.from_response.

Oracles: the scenario's own part list (what was given to the writer), the
standard library email parser on the writer's output (ref/multipart.py), the
codec libraries for transfer/content decoding, and counting bounds for
termination and for "limits fire while reading".
"""
from __future__ import annotations

import io
import re

from gen import mp_gen as G
from ref import multipart as R
from sim.world import World

PROP = "C19"
LEVEL = "exploration"
DESIGN_REF = "9/C19"
BUDGET = {"quick": 55, "thorough": 900}
BATCH = 400
ENUM_BATCH = 200
ENUM_SHARE = 0.35
TECHNIQUE = ("deterministic simulation: real multipart writer and reader on a virtual-time loop, seeded segmentation "
             "and read-API schedules, body mutation, stdlib email parser and codec libraries as reference, counting "
             "bounds plus wall-clock watchdog for termination")
LEVEL_TEXT = (
    "Seeded exploration of part lists x encodings x stream segmentation x read-API programmes x body mutations x "
    "limits against the real writer and reader, preceded by a complete enumeration of delimiter offsets relative to "
    "the read_chunk grid and to a single segment cut for a small family of bodies. Sampling, not proof."
)
LEVEL_NOTE = (
    "Trusted: the scenario's own part list, Python's email parser, zlib/base64/binascii, ref/multipart.py "
    "(delimiter scanner, mutations), the assumption that a paused transport delivers nothing. Bounds: <=5 top-level "
    "parts, nesting depth <=2, part content <=530 KB (mostly <=17 KB), <=300 stream pieces per run outside the byte-wise windows (byte-wise only in windows around <=4 delimiter lines of a large body). The CS world "
    "is a sample (about 6% of runs). Content never contains CRLF + delimiter (RFC 2046 makes that the sender's duty)."
)
RULE = (
    "Run = part list (content with CR/LF runs, '--', delimiter prefixes and look-alikes, sizes around 8192 and around "
    "the delimiter length; base64 / quoted-printable / gzip / deflate / binary / identity, coding names also in upper "
    "and mixed case; names and filenames with non-ASCII, "
    "quotes, backslashes, semicolons, and in 14 % of the unmutated runs names / filenames composed over non-ASCII "
    "letters x every ASCII punctuation character that is no RFC 5987 attr-char x plain characters; "
    "quote_fields on/off; nested writers; payloads with and without size) x "
    "segmentation (whole, fixed n, random, byte-wise windows around every delimiter) x read programme per part "
    "(read, read(decode), read_chunk with sampled legal sizes, readline, text, release, next() before the part is "
    "finished) x mode (round trip, a sample through a reader with a finite client_max_size / mutated body for "
    "termination / small client_max_size, max_field_size, max_headers over flat and nested part lists, whole-part "
    "read(), read(decode) and text()). Non-trivial: a delimiter line was split by a segment edge, or a part needed >=2 read_chunk calls, "
    "or a mutation / limit was exercised. Distinct = interleaving signature."
)
ENUM_RULE = (
    "for boundary 'XyZ': first-part length 0..2n+2 x read_chunk size n in {7,8,10,14} x encoding in {stream, "
    "Content-Length, base64} x segmentation in {whole, byte-wise, every single cut in the window around the first "
    "inner delimiter}"
)
COMPONENTS = {
    "real": ["aiohttp.multipart.MultipartWriter/MultipartPayloadWriter", "aiohttp.formdata.FormData", "aiohttp.payload.*",
             "aiohttp.multipart.MultipartReader/BodyPartReader", "aiohttp.streams.StreamReader (counting subclass)",
             "aiohttp.base_protocol.BaseProtocol", "CS sample: ClientSession, web.Application, web_request.post/multipart"],
    "stub": ["transport in world U (flag-only pause/resume, producer actor)", "network in world CS (SimNet)", "TLS"],
}
ASSUMPTIONS = [
    "a transport delivers no data while reading is paused",
    "the sender never puts CRLF + '--' + boundary at a line start inside a part (RFC 2046 5.1.1); nested boundaries "
    "are not prefixes of each other",
    "readline() is only judged on content whose lines (split at LF) do not start with '--' + boundary and fit the "
    "stream's line limit; read_chunk sizes are >= len('--' + boundary) + 2 (the reader's documented assertion)",
    "quoted-printable parts are only generated when Python's own QP codec round-trips the text",
    "a filename / name may arrive verbatim or percent-encoded (decoding to the original)",
    "Content-Encoding / Content-Transfer-Encoding names are case-insensitive (RFC 9110 8.4.1, RFC 2045 6.1): the "
    "writer accepts any spelling, so every spelling must read back",
    "client_max_size bounds what one part's read()/text() returns (raw bytes, and decoded bytes when decoding), for "
    "parts at any nesting depth; read_chunk/readline/release are not bounded by it",
    "per-chunk decode() is judged only for base64 (the reader aligns chunks to quartets); other encodings are decoded "
    "once over the joined raw data",
]

TICK = 0.001
CHUNK = 8192


class ReaderLoop(BaseException):
    """raised by the counting stream when the reader exceeds the linear read-call bound"""


# =============================================================================
# scenario generation


def gen_top(rng, maxparts=5, big_ok=True):
    boundary = rng.choice(G.BOUNDARIES)
    if rng.random() < 0.25:
        n = rng.choice([0, 1, 1, 2, 3, 4])
        qf = rng.random() < 0.6
        parts = []
        for _ in range(min(n, maxparts)):
            p = G.gen_part(rng, boundary, True, 0, big_ok=False)
            if p["k"] in ("aiter", "json", "nested"):
                p["k"] = "bytes"
                p.setdefault("c", G.gen_content(rng, boundary))
            p["qf"] = qf
            p["xh"] = []
            if p["disp"] is None or "name" not in p["disp"][1]:
                p["disp"] = ["form-data", {"name": "x"}]
            parts.append(p)
        charset = rng.choice([None, None, "utf-8"])
        if charset:
            for p in parts:  # a form charset and a per-field charset would be two conflicting instructions
                if p["ct"] and "charset" in p["ct"]:
                    p["ct"] = p["ct"].split(";")[0]
        return {"top": "formdata", "subtype": "form-data", "boundary": boundary, "parts": parts, "qf": qf,
                "charset": charset}
    subtype = rng.choice(["mixed", "mixed", "mixed", "form-data", "related"])
    n = min(maxparts, rng.choice([0, 1, 1, 2, 2, 3, 4, 5]))
    parts = [G.gen_part(rng, boundary, subtype == "form-data", 0, big_ok=big_ok) for _ in range(n)]
    return {"top": "writer", "subtype": subtype, "boundary": boundary, "parts": parts}


def _count_leaves(parts):
    return sum(_count_leaves(p["sub"]["parts"]) + 1 if p["k"] == "nested" else 1 for p in parts)


# Composed field names / filenames: the fixed NAMES / FILENAMES lists hold one special character
# each; a Content-Disposition parameter is written in one of three forms (quoted-string, RFC 5987
# name*=charset''pct-encoded, percent-encoded filename) chosen by the WHOLE value, so what one
# character does depends on the others.  A sample of the scenarios gives one or two parts a name
# composed over non-ASCII letters x every ASCII punctuation character that is not an attr-char
# (RFC 5987) / not a token character x a few plain characters, under the part's quote_fields mode.
NAME_LETTERS = ["\u00e4", "\u00e9", "\u00df", "\u0416", "\u6587", "\u4ef6", "\U0001f600"]
NAME_PUNCT = list("/\"\\;,=?*%'()<>@:[]{} ")
NAME_PLAIN = list("abXY09._-")


def gen_name(rng):
    n = rng.choice([2, 3, 3, 4, 5, 6])
    chars = [rng.choice(NAME_PUNCT)]
    if rng.random() < 0.8:
        chars.append(rng.choice(NAME_LETTERS))
    while len(chars) < n:
        chars.append(rng.choice(rng.choice([NAME_LETTERS, NAME_PUNCT, NAME_PUNCT, NAME_PLAIN])))
    rng.shuffle(chars)
    return "".join(chars)


def _leaf_specs(parts, form):
    out = []
    for p in parts:
        if p["k"] == "nested":
            out.extend(_leaf_specs(p["sub"]["parts"], p["sub"]["subtype"] == "form-data"))
        else:
            out.append((p, form))
    return out


def compose_names(rng, scn):
    """Drawn after everything else: replaces the name and/or filename of one or two leaf parts."""
    leaves = []
    for key in ("w", "rw"):
        if key in scn:
            leaves.extend(_leaf_specs(scn[key]["parts"], scn[key]["subtype"] == "form-data"))
    if not leaves:
        return
    for _ in range(rng.choice([1, 1, 2])):
        p, form = rng.choice(leaves)
        if p["disp"] is None:
            p["disp"] = ["form-data" if form else rng.choice(["attachment", "inline", "form-data"]), {}]
        params = p["disp"][1]
        r = rng.random()
        if r < 0.6 or "name" not in params and form:
            params["name"] = gen_name(rng)
        if r >= 0.4:
            params["filename"] = gen_name(rng)
        p["cn"] = 1
    scn["cn"] = 1


def gen(rng, tier, index):
    scn = _gen(rng, tier, index)
    # composed names (see compose_names): where names are judged, i.e. unmutated bodies
    if rng.random() < 0.14 and (scn["world"] == "CS" or scn.get("mode") == "roundtrip"):
        compose_names(rng, scn)
    return scn


def _gen(rng, tier, index):
    r = rng.random()
    if r < 0.06:
        return gen_cs(rng)
    limit = rng.choice([65536, 65536, 65536, 8192, 4096])
    if r < 0.60:
        top = gen_top(rng)
        bl = len(top["boundary"]) + 4
        return {"world": "U", "mode": "roundtrip", "w": top, "prog": G.gen_program(rng, bl, _count_leaves(top["parts"])),
                "cuts": G.gen_cuts(rng, True), "limit": limit, "email": rng.random() < 0.35, "jitter": rng.random() < 0.3,
                # a sample of the round trips reads through a reader with a finite client_max_size
                "rcms": rng.choice([10, 100, 1000, 8192, 9000, 20000]) if rng.random() < 0.08 else None}
    if r < 0.88:
        top = gen_top(rng, maxparts=3, big_ok=False)
        bl = len(top["boundary"]) + 4
        return {"world": "U", "mode": "term", "w": top, "prog": G.gen_program(rng, bl, _count_leaves(top["parts"]) + 1),
                "cuts": G.gen_cuts(rng, False), "limit": limit, "muts": G.gen_mutations(rng),
                "eof": rng.random() < 0.92, "jitter": rng.random() < 0.2}
    return gen_limits(rng, limit)


def gen_limits(rng, limit):
    boundary = rng.choice(["XyZ", "frontier", "b", "0123456789abcdef0123456789abcdef"])
    kind = rng.choice(["cms", "cms", "mfs", "mh"])
    scn = {"world": "U", "mode": "limits", "lk": kind, "limit": limit, "jitter": False,
           "cuts": {"m": "fixed", "n": rng.choice([64, 500, 1000, 1460])}}
    nparts = rng.choice([1, 2, 3])
    parts = []
    if kind == "cms":
        c = rng.choice([1, 10, 100, 1000, 8192, 9000, 20000])
        scn["cms"] = c
        for _ in range(nparts):
            size = rng.choice([0, c - 1, c, c + 1, c + 2, 2 * c, c + 8192, c + 8193, 10 * c + 50000, c // 2,
                               max(0, c - len(boundary) - 4)])
            p = {"k": "bytes", "ct": None, "cte": "", "ce": "", "disp": None, "qf": True, "xh": [], "avoid": [],
                 "c": [["n", rng.choice([0, 2]), rng.randrange(1 << 16), size]]}
            r = rng.random()
            if r < 0.15:
                p["ce"] = "gzip"
                p["c"] = [["z", size * 3]]
            elif r < 0.3:
                p["cte"] = "base64"
            elif r < 0.5:
                p["k"] = "aiter"
                p["pieces"] = [4096]
            parts.append(p)
        scn["prog"] = [["read", rng.random() < 0.5]]
    elif kind == "mfs":
        f = rng.choice([64, 200, 1000, 8190])
        scn["mfs"] = f
        for _ in range(nparts):
            vlen = rng.choice([1, f - 12, f - 11, f - 10, f - 9, f - 8, f - 7, f - 2, f, f + 1, f + 100, 100000, 300000])
            p = {"k": "bytes", "ct": None, "cte": "", "ce": "", "disp": None, "qf": True, "avoid": [],
                 "xh": [["X-Big", "h" * max(1, vlen)]], "c": [["n", 2, 0, 5]]}
            parts.append(p)
        scn["prog"] = [["read", False]]
    else:
        h = rng.choice([1, 2, 3, 8, 128])
        scn["mh"] = h
        for _ in range(nparts):
            extra = rng.choice([0, 0, h - 3, h - 2, h - 1, h, h + 1, h + 5, 3000])
            p = {"k": "bytes", "ct": None, "cte": "", "ce": "", "disp": None, "qf": True, "avoid": [],
                 "xh": [["X-%d" % i, "v"] for i in range(max(0, extra))], "c": [["n", 2, 0, 5]]}
            parts.append(p)
        scn["prog"] = [["read", False]]
    # limits hold for every part, also inside nested multiparts: a sample wraps a run of the parts
    # into a nested writer (two levels now and then)
    if rng.random() < 0.3:
        i = rng.randrange(len(parts))
        j = rng.randint(i + 1, len(parts))
        inner = rng.choice([b for b in ("XyZ", "frontier", "b", "0123456789abcdef0123456789abcdef", "in-ner") if b != boundary])
        if rng.random() < 0.25:
            deep = "deep." + inner
            wrapped = _nest(inner, [_nest(deep, [dict(p, avoid=[inner, boundary]) for p in parts[i:j]], rng)], rng)
        else:
            wrapped = _nest(inner, [dict(p, avoid=[boundary]) for p in parts[i:j]], rng)
        parts = parts[:i] + [wrapped] + parts[j:]
    if kind == "cms" and rng.random() < 0.15:
        # text() is read(decode=True) + charset decoding: ASCII content
        def asc(ps):
            return [dict(p, sub=dict(p["sub"], parts=asc(p["sub"]["parts"]))) if p["k"] == "nested" else
                    dict(p, c=[[a[0], 2] + a[2:] if a[0] == "n" else a for a in p["c"]]) for p in ps]
        parts = asc(parts)
        scn["prog"] = [["text"]]
    scn["w"] = {"top": "writer", "subtype": "mixed", "boundary": boundary, "parts": parts}
    return scn


def _nest(boundary, parts, rng):
    return {"k": "nested", "ct": None, "cte": "", "ce": "", "disp": None, "qf": True, "xh": [], "avoid": [],
            "sub": {"subtype": rng.choice(["mixed", "mixed", "related"]), "boundary": boundary, "parts": parts}}


def gen_cs(rng):
    form = rng.random() < 0.6
    boundary = rng.choice(G.BOUNDARIES)
    if form:
        top = gen_top(rng, maxparts=4, big_ok=False)
        while top["subtype"] != "form-data":
            top = gen_top(rng, maxparts=4, big_ok=False)
    else:
        top = gen_top(rng, maxparts=4, big_ok=False)
    rtop = gen_top(rng, maxparts=3, big_ok=False)
    while rtop["top"] != "writer":
        rtop = gen_top(rng, maxparts=3, big_ok=False)
    handler = "post" if (top["subtype"] == "form-data" and rng.random() < 0.6) else "multipart"
    if handler == "post":
        for p in top["parts"]:
            # post() decodes text fields; binary content under a text type is the sender's mistake
            if p["k"] != "str" and (p["ct"] or "").startswith("text/"):
                p["ct"] = None
        if rng.random() < 0.15:
            big = {"k": "bytes", "ct": None, "cte": "", "ce": "", "disp": ["form-data", {"name": "big", "filename": "big.bin"}],
                   "qf": True, "xh": [], "avoid": [], "c": [["n", 0, rng.randrange(1 << 16), rng.choice([60000, 150000])]]}
            top["parts"] = top["parts"][:1] + [big]
            return {"world": "CS", "w": top, "rw": rtop, "handler": "post", "prog": [["read", False]], "rprog": [["read", True]],
                    "cms": rng.choice([1000, 5000]), "read_bufsize": 4096, "pol_c2s": rng.choice(["small", "mss"]),
                    "pol_s2c": "whole", "lat": rng.choice([0, 1])}
    bl = len(top["boundary"]) + 4
    cms = rng.choice([None, None, None, 100, 5000, 20000])
    return {"world": "CS", "w": top, "rw": rtop, "handler": handler,
            "prog": G.gen_program(rng, bl, _count_leaves(top["parts"])),
            "rprog": G.gen_program(rng, len(rtop["boundary"]) + 4, _count_leaves(rtop["parts"])),
            "cms": cms, "read_bufsize": rng.choice([65536, 65536, 4096]),
            "pol_c2s": rng.choice(["whole", "small", "mixed", "mss", "tiny"]),
            "pol_s2c": rng.choice(["whole", "small", "mixed", "mss"]), "lat": rng.choice([0, 1, 2])}


def enumerate_cases(tier, seed):
    """Delimiter offset relative to the read_chunk grid x single cut around the delimiter."""
    boundary = "XyZ"
    bl = len(boundary) + 4
    for enc in ("stream", "length", "base64"):
        for n in (bl, bl + 1, bl + 3, 2 * bl):
            for L in range(0, 2 * n + 3):
                first = {"k": "aiter" if enc == "stream" else "bytes", "ct": None, "cte": "base64" if enc == "base64" else "",
                         "ce": "", "disp": None, "qf": True, "xh": [], "avoid": [], "c": [["n", 1 if L % 2 else 2, L * 7, L]]}
                if enc == "stream":
                    first["pieces"] = [5]
                second = {"k": "aiter", "pieces": [3], "ct": None, "cte": "", "ce": "", "disp": None, "qf": True, "xh": [],
                          "avoid": [], "c": [["l", "\r\n--Xy tail"]]}
                top = {"top": "writer", "subtype": "mixed", "boundary": boundary, "parts": [first, second]}
                base = {"world": "U", "mode": "roundtrip", "w": top, "prog": [["chunks", [n]]], "limit": 65536,
                        "email": False, "jitter": False}
                yield dict(base, cuts={"m": "whole"})
                yield dict(base, cuts={"m": "fixed", "n": 1})
                # single cuts: the first inner delimiter starts after the header block (~70 bytes) + L
                yield dict(base, cuts={"m": "delim_single", "k": L % 12})
                yield dict(base, cuts={"m": "delim_single", "k": (L + 5) % 12})
                if tier != "quick":
                    for k in range(12):
                        yield dict(base, cuts={"m": "delim_single", "k": k})
                    yield dict(base, prog=[["lines"]], cuts={"m": "fixed", "n": 1})
                    yield dict(base, prog=[["read", True]], cuts={"m": "fixed", "n": 1})


# =============================================================================
# shrinking


def _simpler_parts(parts):
    for i in range(len(parts)):
        yield parts[:i] + parts[i + 1:]
    for i, p in enumerate(parts):
        if p["k"] == "nested":
            # the nested parts directly at this level (is the nesting needed?)
            yield parts[:i] + [q for q in p["sub"]["parts"]] + parts[i + 1:]
            for sub_parts in _simpler_parts(p["sub"]["parts"]):
                q = dict(p, sub=dict(p["sub"], parts=sub_parts))
                yield parts[:i] + [q] + parts[i + 1:]
            continue
        for key, val in (("xh", []), ("disp", None), ("cte", ""), ("ce", ""), ("ct", None)):
            if p.get(key) != val and not (key == "disp" and p.get("formfield")):
                yield parts[:i] + [dict(p, **{key: val})] + parts[i + 1:]
        if p.get("cn") and p.get("disp"):  # composed names: drop one character / back to a plain name
            dt, params = p["disp"]
            for attr in ("name", "filename"):
                v = params.get(attr)
                if v is None:
                    continue
                if len(v) > 1:
                    for j in range(len(v)):
                        yield parts[:i] + [dict(p, disp=[dt, dict(params, **{attr: v[:j] + v[j + 1:]})])] + parts[i + 1:]
                if v != "x":
                    yield parts[:i] + [dict(p, disp=[dt, dict(params, **{attr: "x"})])] + parts[i + 1:]
        if p.get("ces") or p.get("ctes"):  # back to the canonical lower-case coding names
            yield parts[:i] + [{k: v for k, v in p.items() if k not in ("ces", "ctes")}] + parts[i + 1:]
        if p["k"] in ("bio", "aiter"):
            yield parts[:i] + [dict(p, k="bytes")] + parts[i + 1:]
        c = p.get("c")
        if c:
            if len(c) > 1:
                for j in range(len(c)):
                    yield parts[:i] + [dict(p, c=c[:j] + c[j + 1:])] + parts[i + 1:]
            for j, a in enumerate(c):
                if a[0] in ("n", "z") and a[-1] > 0:
                    for new in (a[-1] // 2, a[-1] - 1):
                        yield parts[:i] + [dict(p, c=c[:j] + [a[:-1] + [new]] + c[j + 1:])] + parts[i + 1:]
        if p["k"] == "str" and p.get("t"):
            t = p["t"]
            yield parts[:i] + [dict(p, t=t[:len(t) // 2])] + parts[i + 1:]
            yield parts[:i] + [dict(p, t=t[len(t) // 2:])] + parts[i + 1:]


def shrink(scn):
    for key in ("w", "rw"):
        if key in scn:
            top = scn[key]
            if top["top"] == "formdata":
                for parts in _simpler_parts([dict(p, formfield=True) for p in top["parts"]]):
                    yield dict(scn, **{key: dict(top, parts=parts)})
            else:
                for parts in _simpler_parts(top["parts"]):
                    yield dict(scn, **{key: dict(top, parts=parts)})
            if top["boundary"] != "XyZ" and len(top["boundary"]) > 3:
                yield dict(scn, **{key: dict(top, boundary="XyZ")})
    if scn.get("cuts", {}).get("m") not in (None, "whole"):
        yield dict(scn, cuts={"m": "whole"})
        if scn["cuts"]["m"] != "fixed":
            for n in (1, 7, 64):
                yield dict(scn, cuts={"m": "fixed", "n": n})
    for key in ("prog", "rprog"):
        prog = scn.get(key)
        if prog:
            if len(prog) > 1:
                for i in range(len(prog)):
                    yield dict(scn, **{key: prog[:i] + prog[i + 1:]})
            for i, op in enumerate(prog):
                if op != ["read", False]:
                    yield dict(scn, **{key: prog[:i] + [["read", False]] + prog[i + 1:]})
                if op[0] in ("chunks", "partial_chunks") and len(op[1]) > 1:
                    yield dict(scn, **{key: prog[:i] + [[op[0], op[1][:1]] + op[2:]] + prog[i + 1:]})
    if scn.get("muts") and len(scn["muts"]) > 1:
        for i in range(len(scn["muts"])):
            yield dict(scn, muts=scn["muts"][:i] + scn["muts"][i + 1:])
    if scn.get("jitter"):
        yield dict(scn, jitter=False)
    if scn.get("email"):
        yield dict(scn, email=False)
    if scn.get("limit", 65536) != 65536:
        yield dict(scn, limit=65536)
    if scn.get("rcms") is not None:
        yield dict(scn, rcms=None)
    if scn["world"] == "CS":
        for k in ("pol_c2s", "pol_s2c"):
            if scn[k] != "whole":
                yield dict(scn, **{k: "whole"})
        if scn["lat"]:
            yield dict(scn, lat=0)
        if scn["read_bufsize"] != 65536:
            yield dict(scn, read_bufsize=65536)


# =============================================================================
# building the writer from a spec (real aiohttp objects) + the expected tree


class Node:
    __slots__ = ("leaf", "spec", "data", "payload", "parts", "boundary", "text", "name", "filename", "form", "raw_len",
                 "depth")

    def __init__(self, leaf, spec):
        self.leaf = leaf
        self.spec = spec
        self.data = None
        self.payload = None
        self.parts = None
        self.boundary = None
        self.text = None
        self.name = None
        self.filename = None
        self.form = False
        self.raw_len = None  # encoded length on the wire (set_raw_lens)
        self.depth = 0


async def _agen(pieces):
    for p in pieces:
        yield p


def build(top):
    """-> (payload to write, [Node], all boundaries)"""
    from aiohttp import FormData, MultipartWriter
    from multidict import CIMultiDict
    from aiohttp import payload as P

    boundary = top["boundary"]
    nodes = []
    if top["top"] == "formdata":
        fd = FormData(quote_fields=top["qf"], charset=top["charset"], boundary=boundary, default_to_multipart=True)
        for spec in top["parts"]:
            node = Node(True, spec)
            node.form = True
            node.data = G.part_bytes(spec, boundary)
            params = spec["disp"][1]
            node.name, node.filename = params["name"], params.get("filename")
            if spec["k"] == "str":
                value = spec["t"]
                node.text = value
                node.data = value.encode(top["charset"] or G.part_charset(spec))
            elif spec["k"] == "bio":
                value = io.BytesIO(node.data)
            else:
                value = node.data
            fd.add_field(node.name, value, content_type=spec["ct"], filename=node.filename)
            if isinstance(value, io.IOBase) and node.filename is None:
                node.filename = node.name  # guess_filename(): documented default for file objects
            nodes.append(node)
        mpw = fd()
        for node, (pl, _e, _t) in zip(nodes, mpw._parts):
            node.payload = pl
        return mpw, nodes

    def fill(mpw, parts, boundary, form):
        out = []
        for spec in parts:
            if spec["k"] == "nested":
                sub = spec["sub"]
                node = Node(False, spec)
                node.boundary = sub["boundary"]
                w = MultipartWriter(sub["subtype"], boundary=sub["boundary"])
                node.parts = fill(w, sub["parts"], sub["boundary"], sub["subtype"] == "form-data")
                hdrs = CIMultiDict(spec["xh"])
                node.payload = mpw.append(w, hdrs)
                out.append(node)
                continue
            node = Node(True, spec)
            node.form = form
            data = G.part_bytes(spec, boundary)
            node.data = data
            hdrs = CIMultiDict()
            if spec["ct"]:
                hdrs["Content-Type"] = spec["ct"]
            if spec["cte"]:
                hdrs["Content-Transfer-Encoding"] = G.spelled(spec, "cte")
            if spec["ce"]:
                hdrs["Content-Encoding"] = G.spelled(spec, "ce")
            for k, v in spec["xh"]:
                hdrs.add(k, v)
            k = spec["k"]
            if k == "str":
                node.text = spec["t"]
                if spec.get("cs") or "charset" in (spec["ct"] or ""):
                    obj = P.StringPayload(spec["t"], encoding=spec.get("cs"), content_type=spec["ct"])
                    hdrs.pop("Content-Type", None)
                else:
                    obj = spec["t"]
            elif k == "json":
                obj = P.JsonPayload(spec["j"])
            elif k == "bio":
                obj = io.BytesIO(data)
            elif k == "aiter":
                obj = _agen(G.aiter_pieces(data, spec["pieces"]))
            else:
                obj = data
            pl = mpw.append(obj, hdrs)
            if spec["disp"] is not None:
                dt, params = spec["disp"]
                pl.set_content_disposition(dt, quote_fields=spec["qf"], **params)
                node.name, node.filename = params.get("name"), params.get("filename")
            elif form:
                node.name = "section-%d" % (len(mpw) - 1)
            node.payload = pl
            out.append(node)
        return out

    mpw = MultipartWriter(top["subtype"], boundary=boundary)
    nodes = fill(mpw, top["parts"], boundary, top["subtype"] == "form-data")
    return mpw, nodes


def flat_leaves(nodes):
    out = []
    for n in nodes:
        if n.leaf:
            out.append(n)
        else:
            out.extend(flat_leaves(n.parts))
    return out


def all_boundaries(top):
    out = [top["boundary"]]

    def rec(parts):
        for p in parts:
            if p["k"] == "nested":
                out.append(p["sub"]["boundary"])
                rec(p["sub"]["parts"])
    rec(top["parts"])
    return out


def accidental_delimiter(wire, top):
    """True when some part's *encoded* bytes spell a delimiter of its own (or an enclosing)
    multipart: more delimiter lines inside a section than parts were written."""
    def check(section, boundary, parts):
        d = b"--" + boundary.encode()
        pos = [0] if section.startswith(d) else []
        i = section.find(b"\r\n" + d)
        while i >= 0:
            pos.append(i + 2)
            i = section.find(b"\r\n" + d, i + 1)
        if len(pos) != len(parts) + 1:
            return True
        for k, p in enumerate(parts):
            if p["k"] == "nested":
                sub = section[pos[k]:pos[k + 1]]
                h = sub.find(b"\r\n\r\n")
                if h < 0 or check(sub[h + 4:], p["sub"]["boundary"], p["sub"]["parts"]):
                    return True
        return False

    return check(wire, top["boundary"], top["parts"])


class Sink:
    """AbstractStreamWriter stand-in: collects what the payload writes."""

    def __init__(self):
        self.buf = bytearray()
        self.writes = 0

    async def write(self, chunk):
        self.buf += chunk
        self.writes += 1

    async def write_eof(self, chunk=b""):
        self.buf += chunk

    async def drain(self):
        pass


# =============================================================================
# consumer: drives the real reader with a read programme


class Consumer:
    def __init__(self, loop, prog, violate, probes, line_limit):
        self.loop = loop
        self.prog = prog or [["read", False]]
        self.pi = 0
        self._violate = violate
        self.probes = probes
        self.line_limit = line_limit
        self.records = []  # term mode: (op, raw bytes, complete)
        self.multi_chunk = False
        self.stream = None
        self.on_part = None  # callback(part) when a leaf part is handed out
        self.partial_readline = False  # a part was left unfinished after readline() calls
        self.size_limit = None  # the reader's client_max_size, when one is configured ...
        self.size_exc = None    # ... and its max_size_error_cls
        self.size_hit = False   # the size error was raised where it had to be (it ends the walk)

    def violate(self, inv, key, msg):
        if self.partial_readline:
            # once a part was abandoned after readline() calls the reader's position is off
            # (one defect, many symptoms): everything later is attributed to it
            self._violate("roundtrip_no_error", "next_after_partial_readline",
                          f"after a part was left unfinished following readline(): {inv}/{key}: {msg}")
        else:
            self._violate(inv, key, msg)

    def next_op(self):
        op = self.prog[self.pi % len(self.prog)]
        self.pi += 1
        return op

    # ---- helpers -------------------------------------------------------
    def line_safe(self, node, boundaries):
        data = node.data if not (node.spec["cte"] or node.spec["ce"]) else None
        if data is None:
            if node.spec["cte"] == "base64":
                return len(node.data) * 4 // 3 + 8 < self.line_limit
            if node.spec["cte"] == "quoted-printable" and not node.spec["ce"]:
                data = node.data
            else:
                return False  # compressed bytes: arbitrary line structure
        for b in boundaries:
            if re.search(rb"(?:^|\n)--" + re.escape(b.encode()), data):
                return False
        longest = max((len(x) for x in data.split(b"\n")), default=0)
        return longest + 8 < self.line_limit

    async def chunks(self, part, sizes, limit=None):
        out = []
        i = 0
        while not part.at_eof():
            c = await part.read_chunk(sizes[i % len(sizes)])
            out.append(bytes(c))
            i += 1
            if limit is not None and i >= limit:
                break
        if i >= 2:
            self.multi_chunk = True
        return out

    async def lines(self, part, limit=None):
        out = []
        i = 0
        empties = 0
        while not part.at_eof():
            ln = await part.readline()
            out.append(bytes(ln))
            i += 1
            if limit is not None and i >= limit:
                break
            if not ln and not part.at_eof():
                # b"" without at_eof(): a blank last line, or the stream ended; a careful
                # caller stops once the stream itself is exhausted
                empties += 1
                if empties >= 2:
                    break
            else:
                empties = 0
        return out

    def legal(self, sizes, part, node=None):
        bl = len(part._boundary) + 2
        # tiny chunks over a large part only burn budget: keep <= ~400 calls per part
        floor = max(bl, (len(node.data) // 300) if node is not None else 0)
        return [max(floor, s) for s in sizes]

    async def limited(self, part, node, decode, call, api):
        """read() / text() of one part under the reader's client_max_size: the size error must come
        exactly when the part's raw bytes (or, decoding, its decoded bytes) exceed the limit."""
        if self.size_limit is None:
            return await call()
        c = self.size_limit
        over = node.raw_len > c or (decode and len(node.data) > c)
        where = ":nested" if node.depth else ""
        try:
            res = await call()
        except self.size_exc as e:
            if over:
                self.probes["walk_cms_fired" + where.replace(":", "_")] = 1
                self.size_hit = True
            else:
                self.violate("limit_exact", f"cms_false_reject:{type(e).__name__}",
                             f"client_max_size={c}: part has {node.raw_len} raw / {len(node.data)} decoded bytes but "
                             f"{api} raised {e!r}")
            raise
        if over:
            self.violate("limit_enforced", "cms_not_enforced" + where,
                         f"client_max_size={c}: part (nesting depth {node.depth}) has {node.raw_len} raw bytes "
                         f"({len(node.data)} decoded) but {api} returned it")
        else:
            self.probes["walk_cms_within"] = 1
        return res

    # ---- strict walk (round trip) ---------------------------------------------
    async def walk(self, reader, nodes, boundaries, complete=True):
        from aiohttp.multipart import MultipartReader

        for node in nodes:
            part = await reader.next()
            if part is None:
                self.violate("parts_equal", "part_missing", f"reader ended early; expected {len(nodes)} parts at this level")
                return False
            op = self.next_op()
            if not node.leaf:
                if not isinstance(part, MultipartReader):
                    self.violate("parts_equal", "nested_not_recognised", f"expected nested reader, got {type(part).__name__}")
                    return False
                self.probes["nested"] = 1
                if op[0] == "release":
                    await part.release()
                elif op[0] == "skip":
                    self.probes["next_early_nested"] = 1
                elif op[0].startswith("partial") and node.parts:
                    k = min(len(node.parts) - 1, op[-1] if isinstance(op[-1], int) else 1)
                    self.probes["next_early_nested"] = 1
                    if not await self.walk(part, node.parts[:k], boundaries, complete=False):
                        return False
                else:
                    if not await self.walk(part, node.parts, boundaries):
                        return False
                continue
            if isinstance(part, MultipartReader):
                self.violate("parts_equal", "leaf_read_as_nested", "a plain part came back as a nested reader")
                return False
            if self.on_part is not None:
                self.on_part(part, node)
            self.check_headers(part, node)
            await self.read_leaf(part, node, op, boundaries)
        if complete:
            extra = await reader.next()
            if extra is not None:
                self.violate("parts_equal", "extra_part", f"reader produced a part beyond the {len(nodes)} written")
                return False
            if not reader.at_eof():
                self.violate("parts_equal", "not_at_eof_after_last", "next() returned None but at_eof() is False")
        return True

    def check_headers(self, part, node):
        want = node.payload.headers
        got = part.headers
        for k in want:
            wv = ", ".join(v.strip() for v in want.getall(k))
            gv = got.get(k)
            if wv != gv:
                self.violate("headers_equal", f"header_differs:{k.lower()}",
                             f"part header {k}: written {wv!r}, read back {gv!r}")
                return
        if len(got) != len({k.lower() for k in want}):
            self.violate("headers_equal", "header_count", f"written {list(want.items())!r} read {list(got.items())!r}")
        if node.name is not None or node.spec["disp"] is not None:
            top = "form" if node.form else "mixed"
            qf = int(bool(node.spec["qf"]))
            # what is literally inside the header's quoted strings decides how it parses
            known = disp_split_class(node.name, node.filename, qf)
            if known:
                cls = lambda s: known  # noqa: E731
            else:
                cls = R.name_class
            if node.name is not None and not R.same_name(part.name, node.name):
                self.violate("names_equal", f"name:{cls(node.name)}:qf={qf}",
                             f"field name given {node.name!r}, read back {part.name!r} "
                             f"(header {got.get('Content-Disposition')!r}, {top})")
            if node.filename is not None and not R.same_name(part.filename, node.filename):
                self.violate("names_equal", f"filename:{cls(node.filename)}:qf={qf}",
                             f"filename given {node.filename!r}, read back {part.filename!r} "
                             f"(header {got.get('Content-Disposition')!r}, {top})")
            if node.filename is None and part.filename is not None:
                self.violate("names_equal", f"filename_invented:{cls(node.name or '')}:qf={qf}",
                             f"no filename given (name {node.name!r}) but read back {part.filename!r} "
                             f"(header {got.get('Content-Disposition')!r})")

    def enc_of(self, node):
        s = node.spec
        e = "+".join(x for x in (s["cte"] if s["cte"] != "binary" else "", s["ce"] if s["ce"] != "identity" else "") if x)
        if not e:
            e = "length" if "Content-Length" in node.payload.headers else "stream"
        return e

    def decode_ref(self, raw, node):
        s = node.spec
        return R.ce_decode(R.cte_decode(raw, s["cte"]), s["ce"] if not node.form else "")

    def judge_raw(self, part, node, raw, api):
        """raw = the undecoded content as returned by the reader"""
        enc = self.enc_of(node)
        try:
            ref = self.decode_ref(raw, node)
        except Exception as e:
            self.violate("content_equal", f"raw_undecodable:{api}:{enc}",
                         f"{api}: raw content of part does not decode with the reference codec ({e!r}); "
                         f"raw[:60]={raw[:60]!r} len={len(raw)} expected decoded len={len(node.data)}")
            return
        if ref != node.data:
            self.violate("content_equal", f"data_mismatch:{api}:{enc}", _diff(api, ref, node.data))
            return
        try:
            own = bytes(part.decode(raw))
        except Exception as e:
            self.violate("content_equal", f"decode_raises:{type(e).__name__}:{enc}", f"part.decode(raw) raised {e!r}")
            return
        if own != node.data:
            if len(own) < len(node.data) and node.data.startswith(own) and len(own) == part._max_decompress_size:
                self.violate("content_equal", "decode_sync_truncates_at_max_decompress_size",
                             f"part.decode(raw) silently returned the first {len(own)} of {len(node.data)} decoded bytes ({enc})")
                return
            self.violate("content_equal", f"decode_mismatch:{enc}", _diff("part.decode(raw)", own, node.data))

    async def read_leaf(self, part, node, op, boundaries):
        kind = op[0]
        s = node.spec
        if kind in ("lines", "partial_lines") and not self.line_safe(node, boundaries):
            kind = "chunks" if kind == "lines" else "partial_chunks"
            op = [kind, [CHUNK]] + ([op[1]] if kind == "partial_chunks" else [])
        if kind == "text" and (node.text is None or s["ce"]):
            kind, op = "read", ["read", True]
        self.probes["op_" + kind] = 1
        enc = self.enc_of(node)
        self.loop.note("part", f"{kind}:{enc}:{len(node.data)}")
        if kind == "read":
            data = bytes(await self.limited(part, node, op[1], lambda: part.read(decode=op[1]), f"read(decode={op[1]})"))
            if op[1]:
                if data != node.data:
                    self.violate("content_equal", f"data_mismatch:read_decode:{enc}", _diff("read(decode=True)", data, node.data))
            else:
                self.judge_raw(part, node, data, "read")
            self.after_full(part, "read")
        elif kind == "text":
            try:
                t = await self.limited(part, node, True, part.text, "text()")
            except UnicodeDecodeError:
                if "charset" in node.payload.headers.get("Content-Type", ""):
                    raise
                return  # the writer was told an encoding it did not declare: caller's business
            if t != node.text and "charset" in node.payload.headers.get("Content-Type", ""):
                self.violate("content_equal", f"data_mismatch:text:{enc}", _diff("text()", t.encode("utf-8"), node.text.encode("utf-8")))
        elif kind == "chunks":
            sizes = self.legal(op[1], part, node)
            chunks = await self.chunks(part, sizes)
            if s["cte"] == "base64" and not s["ce"]:
                got = bytearray()
                for ci, c in enumerate(chunks):
                    try:
                        got += part.decode(c)
                    except Exception as e:
                        # a piece that is shorter than one quartet is its own class (known finding):
                        # the reader hands it out when the first stream read was short
                        cls = "short_first_chunk" if (ci == 0 and len(c) < 4) else "unaligned_chunk"
                        self.violate("content_equal", f"chunk_decode_raises:{type(e).__name__}:{enc}:{cls}",
                                     f"decode() of piece #{ci} of read_chunk({sizes}) raised {e!r}; piece lengths "
                                     f"{[len(x) for x in chunks][:12]}")
                        return
                got = bytes(got)
                if got != node.data:
                    self.violate("content_equal", f"data_mismatch:chunk_decode:{enc}",
                                 _diff(f"per-chunk decode, read_chunk{sizes}", got, node.data))
            else:
                self.judge_raw(part, node, b"".join(chunks), "read_chunk")
            self.after_full(part, "read_chunk")
        elif kind == "lines":
            lines = await self.lines(part)
            self.judge_raw(part, node, b"".join(lines), "readline")
            self.after_full(part, "readline")
        elif kind == "release":
            await part.release()
            self.after_full(part, "release")
        elif kind == "skip":
            self.probes["next_early"] = 1
        elif kind == "partial_chunks":
            sizes = self.legal(op[1], part, node)
            chunks = await self.chunks(part, sizes, limit=op[2])
            if not part.at_eof():
                self.probes["next_early"] = 1
            if enc in ("stream", "length"):
                got = b"".join(chunks)
                if node.data[:len(got)] != got:
                    self.violate("content_equal", f"data_mismatch:partial_chunks:{enc}", _diff("partial read_chunk", got, node.data[:len(got)]))
        elif kind == "partial_lines":
            lines = await self.lines(part, limit=op[1])
            if not part.at_eof():
                self.probes["next_early_after_readline"] = 1
                self.partial_readline = True
            if enc in ("stream", "length"):
                got = b"".join(lines)
                # the CRLF that belongs to the delimiter may still be attached to the last line
                if node.data[:len(got)] != got and (node.data + b"\r\n")[:len(got)] != got:
                    self.violate("content_equal", f"data_mismatch:partial_lines:{enc}", _diff("partial readline", got, node.data[:len(got)]))
        else:
            raise AssertionError(op)

    def after_full(self, part, api):
        if not part.at_eof():
            self.violate("parts_equal", f"not_at_eof:{api}", f"{api} finished but part.at_eof() is False")

    # ---- tolerant walk (termination) ------------------------------------------
    async def walk_any(self, reader, depth, budget):
        from aiohttp.multipart import MultipartReader

        while True:
            part = await reader.next()
            if part is None:
                return
            budget[0] -= 1
            if budget[0] < 0:
                raise ReaderLoop("more parts than the input can hold")
            op = self.next_op()
            if isinstance(part, MultipartReader):
                self.probes["nested"] = 1
                if op[0] == "release":
                    await part.release()
                elif op[0] == "skip":
                    pass
                else:
                    await self.walk_any(part, depth + 1, budget)
                continue
            kind = op[0]
            self.probes["op_" + kind] = 1
            self.loop.note("part_any", kind)
            rec = [kind, b"", False]
            self.records.append(rec)
            if kind == "read":
                data = bytes(await part.read(decode=False))
                rec[1] = data
                rec[2] = part.at_eof()
                if op[1]:
                    part.decode(data)
            elif kind == "text":
                await part.text()
            elif kind in ("chunks", "partial_chunks"):
                sizes = self.legal(op[1], part)
                acc = []
                rec[1] = acc
                i = 0
                while not part.at_eof():
                    acc.append(bytes(await part.read_chunk(sizes[i % len(sizes)])))
                    i += 1
                    if kind == "partial_chunks" and i >= op[2]:
                        break
                rec[2] = part.at_eof()
            elif kind in ("lines", "partial_lines"):
                rec[1] = await self.lines(part, limit=op[1] if kind == "partial_lines" else None)
                rec[2] = part.at_eof()
                rec[0] = "lines"
            elif kind == "release":
                await part.release()
            # skip: nothing


def disp_split_class(name, filename, qf):
    """Key class for the two input classes on which the reader's split-on-';'-first parsing of
    Content-Disposition is known to lose the header (C19-F1, C19-F7), else None.  Only values that are
    written as LITERAL quoted strings count: with quote_fields the filename is percent-encoded and a
    name that is no 7-bit quoted-string goes out as name*=charset''pct-encoded (no literal ';' or '"')."""
    if qf:
        lits = [name] if name is not None and all(0x20 <= ord(c) < 0x7f or c == "\t" for c in name) else []
        dq = '";'  # quoted_string() escapes blanks as well: '\" ;' does not end the piece with a quote
    else:
        lits = [v for v in (name, filename) if v is not None]
        dq = '"[ \t]*;'
    if sum(v.count(";") for v in lits) >= 2:
        return "semicolons_in_disposition"
    if any(re.search(dq, v) for v in lits):
        return "dquote_semicolon_in_disposition"
    return None


def _diff(what, got, want):
    n = min(len(got), len(want))
    i = next((k for k in range(n) if got[k] != want[k]), n)
    return (f"{what}: got {len(got)} bytes, expected {len(want)}; first difference at offset {i}: "
            f"got {bytes(got[max(0, i - 12):i + 24])!r} expected {bytes(want[max(0, i - 12):i + 24])!r}")


def _frame_of(exc):
    tb = exc.__traceback__
    last = "?"
    while tb is not None:
        fn = tb.tb_frame.f_code.co_filename
        if "/aiohttp/" in fn:
            last = fn.rsplit("/", 1)[-1] + ":" + tb.tb_frame.f_code.co_name
        tb = tb.tb_next
    return last


# =============================================================================
# world U


class _Transport:
    def __init__(self):
        self.paused = False
        self.on_resume = None
        self.pauses = 0

    def pause_reading(self):
        if not self.paused:
            self.paused = True
            self.pauses += 1

    def resume_reading(self):
        if self.paused:
            self.paused = False
            if self.on_resume:
                self.on_resume()

    def get_extra_info(self, name, default=None):
        return default

    def is_closing(self):
        return False

    def close(self):
        pass


class _Parser:
    def pause_reading(self):
        pass

    def resume_reading(self):
        pass

    def feed_data(self, data):
        return (), False, b""


_CS_CACHE = {}


def counting_stream_cls():
    from aiohttp.streams import StreamReader

    cls = _CS_CACHE.get(StreamReader)
    if cls is None:
        class CountingStream(StreamReader):
            calls = 0
            cap = 1 << 60

            async def read(self, n=-1):
                self.calls += 1
                if self.calls > self.cap:
                    raise ReaderLoop("read")
                return await super().read(n)

            async def readuntil(self, separator=b"\n", *, max_size=None):
                self.calls += 1
                if self.calls > self.cap:
                    raise ReaderLoop("readline")
                return await super().readuntil(separator, max_size=max_size)

        cls = _CS_CACHE[StreamReader] = CountingStream
    return cls


class TooBig(Exception):
    pass


def write_out(loop, mpw, violate):
    sink = Sink()
    size0 = mpw.size
    t = loop.run_sim(mpw.write(sink), vt_cap=loop.time() + 30.0, step_cap=loop.steps + 50_000)
    if not t.done():
        violate("writer_completes", "writer_blocked", "MultipartWriter.write() did not finish")
        return None, size0
    exc = t.exception()
    if exc is not None:
        if isinstance(exc, ReaderLoop):
            raise exc
        violate("writer_completes", f"writer_raises:{type(exc).__name__}@{_frame_of(exc)}", f"write() raised {exc!r}")
        return None, size0
    wire = bytes(sink.buf)
    if size0 is not None and size0 != len(wire):
        violate("truthful_size", "size_differs", f"declared size {size0}, bytes written {len(wire)}")
    return wire, size0


def content_spans(wire, boundary):
    """For a flat body: [(content_start, content_end)] per part, from the delimiter lines."""
    marks = R.delimiter_lines(wire, boundary)
    out = []
    for i, (s, e, closing) in enumerate(marks):
        if closing or i + 1 >= len(marks):
            break
        h = wire.find(b"\r\n\r\n", e - 2)
        if h < 0:
            break
        out.append((h + 4, marks[i + 1][0] - 2, e))
    return out


def preorder(nodes):
    """Nodes in the order the reader meets their header blocks (a nested part, then its parts)."""
    out = []
    for n in nodes:
        out.append(n)
        if not n.leaf:
            out.extend(preorder(n.parts))
    return out


def _depths(parts, d=0):
    """nesting depth per node, parallel to preorder(nodes)"""
    out = []
    for p in parts:
        out.append(d)
        if p["k"] == "nested":
            out.extend(_depths(p["sub"]["parts"], d + 1))
    return out


def set_raw_lens(wire, top, nodes):
    """Fill Node.raw_len / Node.depth from the written body; False when the body does not scan
    into exactly the parts written (then no size limit is judged)."""
    order = preorder(nodes)
    spans = preorder_spans(wire, top)
    if len(spans) != len(order):
        return False
    for n, (cs, ce, _hb), d in zip(order, spans, _depths(top["parts"])):
        n.raw_len = ce - cs
        n.depth = d
    return True


def preorder_spans(wire, top):
    """Like content_spans but through nested multiparts: one (content_start, content_end,
    header_block_start) per node of preorder(nodes), absolute offsets; a nested part's content is
    its whole inner multipart body.  Stops (shorter list) where the body does not scan."""
    out = []

    def rec(base, section, boundary, parts):
        spans = content_spans(section, boundary)
        for spec, (cs, ce, hb) in zip(parts, spans):
            out.append((base + cs, base + ce, base + hb))
            if spec["k"] == "nested":
                if not rec(base + cs, section[cs:ce], spec["sub"]["boundary"], spec["sub"]["parts"]):
                    return False
        return len(spans) == len(parts)

    rec(0, wire, top["boundary"], top["parts"])
    return out


def check_email(wire, ctype, nodes, violate, boundaries):
    # The email parser also accepts bare CR / bare LF before a delimiter; RFC 2046 (and aiohttp)
    # require CRLF.  Bodies holding such look-alikes (possible in binary content, including
    # stored deflate blocks) are outside what the two readers can agree on.
    for b in boundaries:
        like = len(re.findall(rb"(?:^|[\r\n])--" + re.escape(b.encode()), wire))
        if like != len(R.delimiter_lines(wire, b)):
            return "skipped_lookalike"
    if not nodes:
        return "skipped_empty"  # RFC 2046 requires at least one body part; the email parser insists on it
    tree, defects = R.email_tree(ctype, wire)
    if tree is None:
        violate("email_parser_agrees", "not_multipart", f"email parser does not see a multipart body: {defects}")
        return "done"

    def cmp(tn, nn, path):
        if len(tn) != len(nn):
            violate("email_parser_agrees", "part_count", f"{path}: email parser finds {len(tn)} parts, written {len(nn)}; defects={defects}")
            return False
        for i, (t, n) in enumerate(zip(tn, nn)):
            if n.leaf:
                if t["parts"] is not None:
                    violate("email_parser_agrees", "leaf_as_multipart", f"{path}/{i}")
                    return False
                try:
                    data = R.ce_decode(t["raw"], n.spec["ce"] if not n.form else "")
                except Exception as e:
                    violate("email_parser_agrees", "undecodable", f"{path}/{i}: {e!r}")
                    return False
                if data != n.data:
                    violate("email_parser_agrees", f"content:{n.spec['cte'] or 'id'}:{n.spec['ce'] or 'id'}",
                            _diff(f"{path}/{i} via email parser", data, n.data))
                    return False
                want_ct = n.payload.headers.get("Content-Type", "text/plain").split(";")[0].strip().lower()
                if t["ctype"] != want_ct:
                    violate("email_parser_agrees", "content_type", f"{path}/{i}: {t['ctype']!r} vs {want_ct!r}")
                    return False
                if t["nhdr"] != len(n.payload.headers):
                    violate("email_parser_agrees", "header_count", f"{path}/{i}: email parser sees {t['nhdr']} header fields, written {len(n.payload.headers)}")
                    return False
                for attr in ("name", "filename"):
                    want = getattr(n, attr)
                    if want is not None and want.isalnum() and want.isascii() and n.spec["disp"] is not None \
                            and isinstance(t[attr], str) and not R.same_name(t[attr], want):
                        violate("email_parser_agrees", f"{attr}", f"{path}/{i}: email parser reads {attr} {t[attr]!r}, given {want!r}")
                        return False
            else:
                if t["parts"] is None:
                    violate("email_parser_agrees", "nested_as_leaf", f"{path}/{i}: defects={defects}")
                    return False
                if not cmp(t["parts"], n.parts, f"{path}/{i}"):
                    return False
        return True

    cmp(tree, nodes, "")
    return "done"


def run(scn, ch, log=False):
    if scn["world"] == "CS":
        return run_cs(scn, ch, log)
    return run_u(scn, ch, log)


def run_u(scn, ch, log=False):
    from aiohttp.base_protocol import BaseProtocol
    from aiohttp.multipart import MultipartReader
    from multidict import CIMultiDict

    viols = []

    def violate(inv, key, msg):
        if len(viols) < 6 and not any(v["invariant"] == inv and v["key"] == key for v in viols):
            viols.append({"invariant": inv, "key": key, "message": msg})
            if w_[0] is not None:
                w_[0].loop.note("violation", f"{inv}:{key}")

    w_ = [None]
    mode = scn["mode"]
    probes = {}
    with World(ch, 0, log_events=log) as w:
        w_[0] = w
        loop = w.loop
        top = scn["w"]
        mpw, nodes = build(top)
        boundaries = all_boundaries(top)
        ctype = mpw.headers["Content-Type"]
        wire, size0 = write_out(loop, mpw, violate)
        shape = f"U-{mode}-{top['top']}-{len(top['parts'])}p"
        nontrivial = False
        if wire is not None and not viols and accidental_delimiter(wire, top):
            # an *encoded* part (stored deflate block + trailer, ...) happens to spell a delimiter:
            # the sender's duty to pick another boundary; not a question for the reader
            probes["skipped_accidental_delimiter"] = 1
            wire = None
        if wire is not None and not viols:
            probes["size_known" if size0 is not None else "size_none"] = 1
            if mode == "roundtrip" and scn.get("email"):
                probes["email_" + check_email(wire, ctype, nodes, violate, boundaries)] = 1
        if wire is not None and not viols:
            body = wire
            if mode == "term":
                for m in scn["muts"]:
                    body = R.mutate(body, top["boundary"], m)
                    probes["mut_" + m[0]] = 1
            marks = []
            for b in boundaries:
                marks.extend((s, e) for s, e, _c in R.delimiter_lines(body, b))
            marks.sort()
            cuts = scn["cuts"]
            if cuts["m"] == "delim_single":
                inner = [m for m in R.delimiter_lines(body, top["boundary"])][1:2]
                at = (inner[0][0] - 4 + cuts["k"]) if inner else len(body) // 2
                cuts = {"m": "list", "cuts": [at]}
            pieces = G.expand_cuts(cuts, body, marks)
            # a delimiter line split by a segment edge?
            pos = 0
            edges = set()
            for k in pieces[:-1]:
                pos += k
                edges.add(pos)
            if any(any(s - 2 < x < e for x in range(max(0, s - 1), e) if x in edges) for s, e in marks[:40]):
                probes["delim_split_by_segment"] = 1
                nontrivial = True

            tr = _Transport()
            proto = BaseProtocol(loop, parser=_Parser())
            proto.connection_made(tr)
            stream = counting_stream_cls()(proto, scn["limit"], loop=loop)
            stream.cap = 64 + 3 * len(body) + 8 * len(pieces)
            kw = {}
            if mode == "limits":
                if scn["lk"] == "cms":
                    kw = {"client_max_size": scn["cms"], "max_size_error_cls": TooBig}
                elif scn["lk"] == "mfs":
                    kw = {"max_field_size": scn["mfs"]}
                else:
                    kw = {"max_headers": scn["mh"]}
            rcms = scn.get("rcms") if mode == "roundtrip" else None
            if rcms is not None and set_raw_lens(wire, top, nodes):
                kw = {"client_max_size": rcms, "max_size_error_cls": TooBig}
            else:
                rcms = None
            try:
                reader = MultipartReader(CIMultiDict({"Content-Type": ctype}), stream, **kw)
            except Exception as e:
                # the Content-Type is the writer's own (no mode mutates it): a reader that cannot even be
                # built for it refuses what the writer produced
                if _frame_of(e) == "?":
                    raise
                reader = None
                violate("roundtrip_no_error", f"reader_refuses_writer_content_type:{type(e).__name__}@{_frame_of(e)}",
                        f"MultipartReader could not be constructed for the writer's own Content-Type {ctype!r}: {e!r}")
            st = {"i": 0, "fed": 0, "waiting": False, "eof_fed": False, "maxseg": max(pieces, default=0)}
            feed_eof = scn.get("eof", True)
            jitter = scn.get("jitter")

            def producer_step():
                if tr.paused:
                    st["waiting"] = True
                    return
                i = st["i"]
                if i < len(pieces):
                    k = pieces[i]
                    st["i"] = i + 1
                    stream.feed_data(body[st["fed"]:st["fed"] + k])
                    st["fed"] += k
                    loop.note("feed", k)
                if st["i"] >= len(pieces):
                    if feed_eof and not st["eof_fed"]:
                        st["eof_fed"] = True
                        stream.feed_eof()
                        loop.note("feed_eof")
                    return
                d = ch.draw("delay", 0, 2) if jitter else 0
                loop.sim_call_later(d * TICK, producer_step)

            def on_resume():
                if st["waiting"]:
                    st["waiting"] = False
                    loop.sim_call_later(0, producer_step)

            tr.on_resume = on_resume
            cons = Consumer(loop, scn["prog"], violate, probes, 2 * scn["limit"])
            cons.stream = stream
            if rcms is not None:
                cons.size_limit, cons.size_exc = rcms, TooBig
            outcome = {"exc": None, "consumed": None, "part_index": None}

            def consumed():
                return st["fed"] - stream._size

            async def main_roundtrip():
                try:
                    await cons.walk(reader, nodes, boundaries)
                except TooBig:
                    # the size error ends the walk: right where a part exceeds the limit, or already
                    # filed by Consumer.limited as a false rejection
                    if not cons.size_hit and not viols:
                        raise

            async def main_term():
                try:
                    await cons.walk_any(reader, 0, [len(body) // 2 + 8])
                except Exception as e:
                    if _frame_of(e) == "?" and isinstance(e, (TypeError, AttributeError, NameError, KeyError, IndexError)):
                        raise  # never entered aiohttp: a fault of this harness, not a reader error
                    outcome["exc"] = e

            spans = preorder_spans(wire, top) if mode == "limits" else []
            order = preorder(nodes) if mode == "limits" else []
            lim = {"idx": -1}

            async def limits_level(rd):
                # lim["idx"] = position in preorder(nodes) of the part being fetched / read
                while True:
                    lim["idx"] += 1
                    part = await rd.next()
                    if part is None:
                        lim["idx"] -= 1
                        return
                    node = order[lim["idx"]] if lim["idx"] < len(order) else None
                    if isinstance(part, MultipartReader):
                        probes["limits_nested"] = 1
                        if node is not None and node.leaf:
                            violate("parts_equal", "leaf_read_as_nested", "a plain part came back as a nested reader")
                        await limits_level(part)
                        continue
                    if node is not None and not node.leaf:
                        violate("parts_equal", "nested_not_recognised", f"expected nested reader, got {type(part).__name__}")
                        node = None
                    op = scn["prog"][0]
                    if op[0] == "text":
                        data = (await part.text()).encode("utf-8")
                    else:
                        data = bytes(await part.read(decode=op[1]))
                    if node is not None and not viols:
                        want = node.data if (op[0] == "text" or op[1]) else None
                        if want is not None and data != want:
                            violate("content_equal", "data_mismatch:limits", _diff("read under limits", data, want))
                        lim.setdefault("ok", []).append(lim["idx"])

            async def main_limits():
                # every leaf (also inside nested multiparts) read whole; the first limit error ends the run
                try:
                    await limits_level(reader)
                    lim["idx"] += 1
                except Exception as e:
                    outcome["exc"] = e
                    outcome["consumed"] = consumed()

            main = {"roundtrip": main_roundtrip, "term": main_term, "limits": main_limits}[mode]
            loop.sim_call_later(0, producer_step)
            step_bound = loop.steps + 2000 + 6 * len(body) + 40 * len(pieces)
            try:
                t = None
                if reader is not None:
                    t = loop.run_sim(main(), vt_cap=loop.time() + 60.0 + 0.003 * len(pieces), step_cap=step_bound)
            except ReaderLoop as e:
                t = None
                violate("termination", f"read_calls_exceed_linear_bound:{e}",
                        f"the reader made more than {stream.cap} stream read calls on a {len(body)}-byte body "
                        f"({len(pieces)} pieces): it is looping")
            if t is not None:
                exc = None
                if t.done() and not t.cancelled():
                    exc = t.exception()
                if isinstance(exc, ReaderLoop):
                    violate("termination", f"read_calls_exceed_linear_bound:{exc}",
                            f"the reader made more than {stream.cap} stream read calls on a {len(body)}-byte body "
                            f"({len(pieces)} pieces, prog {scn['prog']}): it is looping")
                elif loop.capped == "steps":
                    violate("termination", "step_bound", f"run exceeded the step bound {step_bound} for a {len(body)}-byte body")
                elif not t.done():
                    if st["eof_fed"] or (st["i"] < len(pieces) and not tr.paused):
                        violate("termination", "blocked_after_eof" if st["eof_fed"] else "blocked_producer_idle",
                                f"consumer still blocked at quiescence (eof fed={st['eof_fed']}, pieces fed {st['i']}/{len(pieces)})")
                    elif tr.paused and st["i"] < len(pieces):
                        violate("termination", "blocked_while_paused", "consumer blocked while the transport is paused")
                    else:
                        probes["blocked_open_stream"] = 1
                elif exc is not None and mode == "roundtrip" and cons.partial_readline:
                    violate("roundtrip_no_error", "next_after_partial_readline",
                            f"a part was left unfinished after readline(); going on with next() raised {exc!r} at "
                            f"{_frame_of(exc)}; prog={scn['prog']}")
                elif exc is not None and (mode != "roundtrip" or _frame_of(exc) == "?"):
                    raise exc  # nothing of aiohttp on the stack (or a tolerant mode): harness fault
                elif exc is not None:
                    violate("roundtrip_no_error",
                            f"exception:{type(exc).__name__}@{_frame_of(exc)}",
                            f"reading back raised {exc!r} at {_frame_of(exc)}; prog={scn['prog']} cuts={scn['cuts']}")
                loop.note("outcome", f"{type(outcome['exc']).__name__}:{len(cons.records)}:{st['fed']}")
                if mode == "term" and not viols:
                    e = outcome["exc"]
                    probes["term_error" if e is not None else "term_parts"] = 1
                    if e is not None:
                        probes["err_" + type(e).__name__] = 1
                    nontrivial = True
                    judge_truncation(scn, wire, body, top, nodes, cons, violate, probes)
                if mode == "limits" and not viols:
                    nontrivial = True
                    judge_limits(scn, wire, top, order, spans, outcome, lim, st, violate, probes)
            if cons.multi_chunk:
                probes["multi_chunk_part"] = 1
                nontrivial = True
            if cons.size_hit:
                nontrivial = True
            if tr.pauses:
                probes["stream_paused"] = 1
            if not viols and loop.exc_contexts:
                c = loop.exc_contexts[0]
                violate("loop_exception", f"{c['exc_type']}@{c.get('frame')}", f"exception reached the loop: {c}")
        stt = w.stats()
        res = {"violations": viols, "nontrivial": bool(nontrivial), "sig": stt["sig"], "digest": stt["digest"],
               "steps": stt["steps"], "vtime": stt["vtime"], "faults": stt["faults"], "probes": probes, "shape": shape}
        if log:
            res["event_log"] = loop.event_log
        return res


def judge_truncation(scn, wire, body, top, nodes, cons, violate, probes):
    """After a pure truncation nothing delivered may differ from what was written:
    every piece of raw data must be a prefix of the wire from its part's content start."""
    muts = scn["muts"]
    if len(muts) != 1 or muts[0][0] != "truncate" or any(not n.leaf for n in nodes):
        return
    spans = content_spans(wire, top["boundary"])
    for i, rec in enumerate(cons.records):
        if i >= len(spans):
            break
        kind, raw, complete = rec
        if isinstance(raw, list):
            raw = b"".join(raw)
        if kind == "lines" and re.search(rb"(?:^|\n)--" + re.escape(top["boundary"].encode()), nodes[i].data):
            break  # readline() on lines that look like delimiters: outside the stated assumptions,
            #        and the parts after it no longer line up with what was written
        if not raw or kind == "lines":
            # readline() strips the CRLF before anything that starts like a delimiter, which at a
            # truncation point may be half a delimiter: only read()/read_chunk() data is judged
            continue
        start, end, _ = spans[i]
        if "Content-Length" in nodes[i].payload.headers or kind != "lines":
            ok = wire[start:start + len(raw)] == raw
        else:
            ok = wire[start:start + len(raw)] == raw or wire[start:start + len(raw) + 2].startswith(raw)
        if not ok:
            probes["trunc_checked"] = 1
            violate("truncated_never_wrong", f"delivered_bytes_not_in_stream:{kind}",
                    f"after truncation at {len(body)} part {i} delivered {raw[:60]!r}... which is not what the stream "
                    f"holds at its content start {start}: {wire[start:start + 60]!r}")
            return
        probes["trunc_checked"] = 1


def judge_limits(scn, wire, top, nodes, spans, outcome, lim, st, violate, probes):
    """nodes / spans: pre-order (a nested part, then its parts); lim["idx"] indexes the same list"""
    exc = outcome["exc"]
    kind = scn["lk"]
    ok = lim.get("ok", [])
    maxseg = st["maxseg"]
    bl = max(len(b) for b in all_boundaries(top)) + 4
    if kind == "cms":
        c = scn["cms"]
        decode = scn["prog"][0][0] == "text" or scn["prog"][0][1]
        first_bad = None
        for i, node in enumerate(nodes):
            if i >= len(spans):
                break
            if not node.leaf:
                continue  # the limit is on what one part's read() returns
            raw_len = spans[i][1] - spans[i][0]
            if raw_len > c or (decode and len(node.data) > c):
                first_bad = i
                break
        if first_bad is None:
            if exc is not None:
                violate("limit_exact", f"cms_false_reject:{type(exc).__name__}",
                        f"client_max_size={c}: no part exceeds it (raw sizes {[s[1] - s[0] for s in spans]}) but reading raised {exc!r}")
            else:
                probes["cms_within"] = 1
            return
        where = "nested" if _depths(top["parts"])[first_bad] else "flat"
        if exc is None:
            violate("limit_enforced", "cms_not_enforced" if where == "flat" else "cms_not_enforced:nested",
                    f"client_max_size={c}: part {first_bad} ({where}) has {spans[first_bad][1] - spans[first_bad][0]} raw bytes "
                    f"({len(nodes[first_bad].data)} decoded) but {scn['prog'][0]} returned it")
            return
        if not isinstance(exc, TooBig):
            violate("limit_enforced", f"cms_other_error:{type(exc).__name__}@{_frame_of(exc)}", f"expected the size error, got {exc!r}")
            return
        if lim["idx"] != first_bad:
            violate("limit_exact", "cms_wrong_part" if where == "flat" else "cms_wrong_part:nested",
                    f"size error at part {lim['idx']}, expected at part {first_bad} ({where}; parts counted in reading order, c={c})")
            return
        probes["cms_fired"] = 1
        raw_len = spans[first_bad][1] - spans[first_bad][0]
        if raw_len > c:
            used = outcome["consumed"] - spans[first_bad][0]
            bound = c + CHUNK + bl + 4
            if raw_len > bound + 2 * CHUNK:
                probes["cms_early_checked"] = 1
                if used > bound:
                    violate("limit_while_reading", "cms_read_past_limit",
                            f"client_max_size={c}: the size error came after {used} bytes of the part were taken from the "
                            f"stream (part has {raw_len}); bound is limit + one chunk = {bound}")
        return
    # header limits: which part is the first offender?
    block_starts = [s[2] for s in spans]
    first_bad = None
    dont_care = False
    for i, node in enumerate(nodes):
        hdrs = node.payload.headers
        lines = [len(k.encode()) + 2 + len(v.encode()) + 2 for k, v in hdrs.items()]
        if kind == "mfs":
            f = scn["mfs"]
            if any(ln > f + 2 for ln in lines):
                first_bad = i
                break
            if any(ln > f - 2 for ln in lines):
                dont_care = True
                break
        else:
            h = scn["mh"]
            if len(lines) > h + 1:
                first_bad = i
                break
            if len(lines) >= h:
                dont_care = True
                break
    if dont_care:
        probes["limit_edge_dont_care"] = 1
        return
    if first_bad is None:
        if exc is not None:
            violate("limit_exact", f"{kind}_false_reject:{type(exc).__name__}",
                    f"{kind}={scn.get('mfs', scn.get('mh'))}: every header block is within the limit but reading raised {exc!r}")
        else:
            probes[kind + "_within"] = 1
        return
    if exc is None:
        violate("limit_enforced", f"{kind}_not_enforced",
                f"{kind}={scn.get('mfs', scn.get('mh'))}: part {first_bad} exceeds it but all parts were read")
        return
    if lim["idx"] != first_bad:
        violate("limit_exact", f"{kind}_wrong_part", f"error {exc!r} at part {lim['idx']}, expected at part {first_bad}")
        return
    probes[kind + "_fired"] = 1
    node = nodes[first_bad]
    block_len = len(node.payload._binary_headers)
    used = outcome["consumed"] - block_starts[first_bad]
    if kind == "mfs":
        bound = scn["mfs"] + 80 + maxseg + 4
    else:
        per = max(len(k.encode()) + len(v.encode()) + 4 for k, v in node.payload.headers.items())
        bound = (scn["mh"] + 3) * per + maxseg + 80
    if block_len > bound + 2000:
        probes[kind + "_early_checked"] = 1
        if used > bound:
            violate("limit_while_reading", f"{kind}_block_buffered",
                    f"{kind}: rejected only after {used} bytes of a {block_len}-byte header block were taken from the stream "
                    f"(bound {bound})")


# =============================================================================
# world CS


def run_cs(scn, ch, log=False):
    from aiohttp import ClientSession, MultipartReader, TCPConnector, web
    from aiohttp.web_request import FileField
    from sim.net import SimResolver

    viols = []

    def violate(inv, key, msg):
        if len(viols) < 6 and not any(v["invariant"] == inv and v["key"] == key for v in viols):
            viols.append({"invariant": inv, "key": key, "message": msg})

    probes = {"cs_run": 1}
    with World(ch, 0, log_events=log) as w:
        loop, net = w.loop, w.net
        net.max_latency_ticks = scn["lat"]
        net.dns["h.test"] = ["10.0.0.1"]

        def on_connect(ctr, str_):
            ctr.out.policy = scn["pol_c2s"]
            str_.out.policy = scn["pol_s2c"]
        net.on_connect = on_connect
        top, rtop = scn["w"], scn["rw"]
        # dry run of both writers: a writer that cannot serialise its parts is reported as in world U
        req_wire = None
        for which, t_ in (("request", top), ("response", rtop)):
            dry, _n = build(t_)
            wire, _s = write_out(loop, dry, violate)
            if which == "request":
                req_wire = wire
            if wire is None:
                stt = w.stats()
                return {"violations": viols, "nontrivial": True, "sig": stt["sig"], "digest": stt["digest"],
                        "steps": stt["steps"], "vtime": stt["vtime"], "faults": stt["faults"], "probes": probes,
                        "shape": f"CS-writer-fails-{which}"}
        req_mpw, req_nodes = build(top)
        resp_mpw, resp_nodes = build(rtop)
        req_size = req_mpw.size
        cms = scn["cms"] if scn["handler"] == "post" else None
        # request.multipart(): the application's client_max_size bounds what one part's read() returns
        cms_mp = scn["cms"] if scn["handler"] == "multipart" else None
        if cms_mp is not None and not (not accidental_delimiter(req_wire, top) and set_raw_lens(req_wire, top, req_nodes)):
            cms_mp = None
        srv = {"calls": 0, "exc": None, "too_large_at": None, "post": None, "done": False}
        bufsize = scn["read_bufsize"]

        async def handler(request):
            srv["calls"] += 1
            try:
                if scn["handler"] == "post":
                    data = await request.post()
                    out = []
                    for k, v in data.items():
                        if isinstance(v, FileField):
                            out.append((k, "file", v.filename, v.file.read(), v.content_type))
                        else:
                            out.append((k, "str" if isinstance(v, str) else "bytes", None, v, None))
                    srv["post"] = out
                else:
                    reader = await request.multipart()
                    cons = Consumer(loop, scn["prog"], violate, probes, 2 * bufsize)
                    cons.stream = request.content
                    if cms_mp is not None:
                        cons.size_limit, cons.size_exc = cms_mp, web.HTTPRequestEntityTooLarge
                    srv["cons"] = cons
                    await cons.walk(reader, req_nodes, all_boundaries(top))
                srv["done"] = True
            except web.HTTPRequestEntityTooLarge:
                srv["too_large_at"] = request.content.total_bytes
                raise
            except Exception as e:
                srv["exc"] = e
                raise
            return web.Response(body=resp_mpw)

        app = web.Application(client_max_size=cms if cms is not None else cms_mp if cms_mp is not None else 64 * 1024 ** 2)
        app.router.add_post("/mp", handler)
        runner = web.AppRunner(app, access_log=None, shutdown_timeout=1.0, read_bufsize=bufsize)

        async def start():
            await runner.setup()
            await web.TCPSite(runner, "10.0.0.1", 80).start()

        loop.run_sim(start(), vt_cap=10).result()
        cl = {"status": None, "exc": None, "cons": None, "resp_headers": None}

        async def client():
            conn = TCPConnector(resolver=SimResolver(net))
            async with ClientSession(connector=conn) as s:
                try:
                    async with s.post("http://h.test/mp", data=req_mpw) as resp:
                        cl["status"] = resp.status
                        cl["clen"] = resp.headers.get("Content-Length")
                        if resp.status == 200:
                            rd = MultipartReader.from_response(resp)
                            cons = Consumer(loop, scn["rprog"], violate, probes, 2 * 65536)
                            cons.stream = resp.content
                            cl["cons"] = cons
                            await cons.walk(rd, resp_nodes, all_boundaries(rtop))
                        else:
                            await resp.read()
                except Exception as e:
                    cl["exc"] = e

        t = loop.run_sim(client(), vt_cap=loop.time() + 120.0, step_cap=loop.steps + 400_000)
        if loop.capped == "steps":
            violate("termination", "cs_step_bound", "client/server exchange exceeded 400000 loop steps")
        elif not t.done():
            # where is it stuck?  (white-box look at the server connection, only to name the class)
            parked = None
            for tr in net.all_transports:
                pp = getattr(getattr(tr.protocol, "_parser", None), "_payload_parser", None)
                tail = getattr(pp, "_chunk_tail", b"") if pp is not None else b""
                if tr.name.startswith("s") and tail and not tr._read_paused and not tr.inp.buf and not tr._closed:
                    parked = len(tail)
            if parked is not None and srv["calls"] and not srv["done"]:
                violate("termination", "cs_blocked:http_payload_parser_parked_tail",
                        f"handler blocked reading the request body: every byte was delivered, the transport is not "
                        f"paused, but the HTTP payload parser holds {parked} unparsed bytes and nothing will feed it again "
                        f"(read_bufsize={bufsize}, request size {req_size})")
            else:
                violate("termination", "cs_blocked",
                        f"exchange did not finish (server calls={srv['calls']} done={srv['done']} status={cl['status']})")
        else:
            # ---- judge ------------------------------------------------------
            body_len = None
            c2s = [tr for tr in net.all_transports if tr.name.startswith("c")]
            sexc, cexc = srv["exc"], cl["exc"]
            partial_rl = any(c is not None and c.partial_readline for c in (srv.get("cons"), cl["cons"]))
            expect_413 = None
            if cms is not None and req_size is not None:
                # must refuse when the parts alone exceed the limit, must accept when the whole body fits
                closing = len(top["boundary"]) + 8
                expect_413 = True if req_size - closing > cms else (False if req_size <= cms else None)
            if cexc is not None and cl["status"] is None:
                violate("roundtrip_no_error", f"client_request_raises:{type(cexc).__name__}@{_frame_of(cexc)}",
                        f"posting the multipart body raised {cexc!r} (cause {cexc.__cause__!r})")
            elif cl["status"] == 413:
                probes["cs_413"] = 1
                if scn["handler"] == "multipart":
                    if srv.get("cons") is not None and srv["cons"].size_hit:
                        probes["cs_mp_413"] = 1
                    elif not viols:
                        violate("limit_exact", "cs_false_413",
                                f"request.multipart() with client_max_size={cms_mp}: 413 although no part that was read "
                                f"whole exceeds it")
                elif expect_413 is False:
                    violate("limit_exact", "cs_false_413", f"body of {req_size} bytes refused with client_max_size={cms}")
                elif srv["too_large_at"] is not None and scn["pol_c2s"] in ("small", "mss", "tiny") and req_size is not None:
                    bound = cms + 2 * bufsize + 4096 + 1024
                    if req_size > bound + 16384:
                        probes["cs_413_early_checked"] = 1
                        if srv["too_large_at"] > bound:
                            violate("limit_while_reading", "cs_post_buffered_past_limit",
                                    f"post() refused a {req_size}-byte body only after {srv['too_large_at']} bytes had been "
                                    f"received (client_max_size={cms}, read_bufsize={bufsize}; bound {bound})")
            elif expect_413 and sexc is None:
                violate("limit_enforced", "cs_post_limit_not_enforced",
                        f"client_max_size={cms} but a {req_size}-byte form was accepted (status {cl['status']})")
            elif sexc is not None and "missing name" in str(sexc) and any(
                    disp_split_class(n.name, n.filename, n.spec["qf"]) for n in req_nodes):
                n = next(n for n in req_nodes if disp_split_class(n.name, n.filename, n.spec["qf"]))
                violate("names_equal", f"name:{disp_split_class(n.name, n.filename, n.spec['qf'])}:qf={int(bool(n.spec['qf']))}",
                        f"post(): field {n.name!r} (filename {n.filename!r}) arrived without a name: {sexc!r}")
            elif sexc is not None:
                key = "next_after_partial_readline" if partial_rl else f"server_handler_raises:{type(sexc).__name__}@{_frame_of(sexc)}"
                violate("roundtrip_no_error", key, f"handler ({scn['handler']}) raised {sexc!r}; status {cl['status']}")
            elif cl["status"] != 200:
                violate("roundtrip_no_error", f"status_{cl['status']}", f"unexpected status {cl['status']}")
            elif cexc is not None:
                key = "next_after_partial_readline" if partial_rl else f"client_reader_raises:{type(cexc).__name__}@{_frame_of(cexc)}"
                violate("roundtrip_no_error", key, f"reading the multipart response raised {cexc!r}")
            else:
                probes["cs_ok"] = 1
                if cl.get("clen") is not None:
                    probes["cs_resp_content_length"] = 1
            if srv["post"] is not None and not viols:
                judge_post(srv["post"], req_nodes, violate, probes)
        for name, msg_, et, ex in net.fatal_errors:
            violate("loop_exception", f"fatal:{et}", f"fatal protocol error on {name}: {msg_} {ex}")
        t2 = loop.run_sim(runner.cleanup(), vt_cap=loop.time() + 100.0)
        if not t2.done():
            violate("termination", "cs_cleanup_blocked", "AppRunner.cleanup() did not return")
        if not viols and loop.exc_contexts:
            c = loop.exc_contexts[0]
            violate("loop_exception", f"{c['exc_type']}@{c.get('frame')}", f"exception reached the loop: {c}")
        stt = w.stats()
        res = {"violations": viols, "nontrivial": cl["status"] is not None, "sig": stt["sig"], "digest": stt["digest"],
               "steps": stt["steps"], "vtime": stt["vtime"], "faults": stt["faults"], "probes": probes,
               "shape": f"CS-{scn['handler']}-{top['top']}-{len(top['parts'])}p"}
        if log:
            res["event_log"] = loop.event_log
        return res


def judge_post(got, nodes, violate, probes):
    """request.post(): one entry per field, in order; files as FileField."""
    if len(got) != len(nodes):
        violate("parts_equal", "post_field_count", f"post() returned {len(got)} fields, {len(nodes)} were sent: {[g[0] for g in got]}")
        return
    probes["post_checked"] = 1
    for (name, kind, filename, value, ct), node in zip(got, nodes):
        qf = int(bool(node.spec["qf"]))
        if not R.same_name(name, node.name):
            violate("names_equal", f"name:{R.name_class(node.name)}:qf={qf}", f"post(): field {node.name!r} arrived as {name!r}")
        if node.filename:
            if kind != "file":
                violate("parts_equal", "post_file_as_value", f"field {node.name!r} with filename {node.filename!r} arrived as {kind}")
                continue
            if not R.same_name(filename, node.filename):
                violate("names_equal", f"filename:{R.name_class(node.filename)}:qf={qf}",
                        f"post(): filename {node.filename!r} arrived as {filename!r}")
            if bytes(value) != node.data:
                violate("content_equal", "data_mismatch:post_file", _diff("post() file field", bytes(value), node.data))
        else:
            if kind == "file":
                violate("parts_equal", "post_value_as_file", f"field {node.name!r} arrived as a file ({filename!r})")
                continue
            ctype = node.payload.headers.get("Content-Type")
            if ctype is None or ctype.startswith("text/"):
                cs = "utf-8"
                if ctype and "charset=" in ctype:
                    cs = ctype.split("charset=")[1].split(";")[0].strip()
                want = node.data.decode(cs)
                if value != want:
                    violate("content_equal", "data_mismatch:post_text", _diff("post() text field", str(value).encode("utf-8"), want.encode("utf-8")))
            elif bytes(value) != node.data:
                violate("content_equal", "data_mismatch:post_bytes", _diff("post() bytes field", bytes(value), node.data))


def oracle_selftest():
    R.selftest()
    for txt in ("a=b\r\nc\r\n", "x " * 50 + "\r\n--end"):
        assert G.qp_lossless([txt.encode()]), txt
    assert G.expand([["p", 99]], "XyZ") == b"\r\n--Xy"
    assert b"\r\n--XyZ" not in G.expand([["l", "a\r\n--XyZ--\r\n"]], "XyZ")
    assert G.expand_cuts({"m": "fixed", "n": 4}, b"x" * 10, []) == [4, 4, 2]
    assert sum(G.expand_cuts({"m": "window", "coarse": 50, "seed": 1}, b"x" * 300, [(100, 107)])) == 300
    wire = (b"--o\r\nA: 1\r\n\r\nxx\r\n--o\r\nContent-Type: multipart/mixed; boundary=i\r\n\r\n"
            b"--i\r\n\r\nyyy\r\n--i--\r\n\r\n--o--\r\n")
    top = {"boundary": "o", "parts": [{"k": "bytes"}, {"k": "nested", "sub": {"boundary": "i", "parts": [{"k": "bytes"}]}}]}
    got = [wire[cs:ce] for cs, ce, _hb in preorder_spans(wire, top)]
    assert got == [b"xx", b"--i\r\n\r\nyyy\r\n--i--\r\n", b"yyy"], got
    assert _depths(top["parts"]) == [0, 0, 1]
    assert G.spelled({"ce": "gzip", "ces": "GZip"}, "ce") == "GZip" and G.spelled({"ce": "", "ces": "GZip"}, "ce") == ""
    assert G.spelled({"cte": "base64"}, "cte") == "base64" and G.spelled({"ce": "deflate", "ces": "GZIP"}, "ce") == "deflate"
