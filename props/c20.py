"""C20 - application life-cycle: cleanup runs exactly for what started; shutdown drains.

Part 1 (World U, crash points): an application tree (<= 5 cleanup contexts written
as async generators, @asynccontextmanager functions and class-based async context
managers; on_startup / on_shutdown / on_cleanup handlers; 0-2 sub-applications) in
which a chosen set of callbacks raises during set-up and during teardown, driven
through both documented entry points: AppRunner.setup()/cleanup() and
web.run_app(app, loop=SimLoop) ended by an injected signal or by the start-up
failure itself.  The instrumented callbacks write an event log which
ref.lifecycle.judge() compares with the documented contract.

Part 2 (World S, shutdown): a real server behind SimNet with several scripted
connections in different phases (idle keep-alive, half a request head, body
outstanding, handler sleeping shorter / longer than shutdown_timeout / for ever,
streaming response, WebSocket open, pipelined, client already gone); the shutdown
instant (runner.cleanup() task / SIGTERM to run_app) is placed before every loop
step of short baselines (loop.at_step) and at seeded times for random ones.

See DESIGN.md section 9 (C20) and 11 (f).
"""
from __future__ import annotations

import asyncio
import gc
import itertools
import logging
import re
import signal

from ref import http1
from ref import lifecycle as L
from sim.choices import Choices
from sim.peers import RawClient
from sim.world import World

PROP = "C20"
LEVEL = "fault_enumeration"
DESIGN_REF = "9/C20"
BUDGET = {"quick": 60, "thorough": 900}
BATCH = 400
ENUM_BATCH = 120
ENUM_SHARE = 0.7
ENUM_IS_EXHAUSTIVE = True
STRICT_CROSS_APP_ORDER = False  # see ref/lifecycle.py G2: no order between applications is documented
TECHNIQUE = ("deterministic simulation with crash-point enumeration: real Application/AppRunner/run_app/Server/"
             "RequestHandler on a virtual-time loop and in-memory network; instrumented user callbacks raising at "
             "enumerated positions; shutdown instant enumerated over loop steps; executable life-cycle contract as oracle")
LEVEL_TEXT = (
    "Enumeration of crash points (which start-up step fails x which teardown steps fail x application shape x entry "
    "point) and of the shutdown instant over every loop step of short multi-connection baselines, plus seeded "
    "exploration of larger shapes and random shutdown scenes; each run is judged against ref/lifecycle.py. "
    "Complete for the enumerated sub-space named in enumeration_rule, sampling beyond it."
)
LEVEL_NOTE = (
    "Trusted: ref/lifecycle.py (contract + timing bounds), ref/http1.py response splitter, SimLoop/SimNet, the "
    "instrumented callbacks. Bounds: <=5 contexts, <=2 sub-applications (one level), <=7 connections, shutdown_timeout "
    "in {0.05, 0.2, 1, 6} s. Signals are simulated (loop.add_signal_handler seam); run_app's loop.close() is deferred "
    "to World teardown. White-box extras: RequestHandler task liveness is read from asyncio.all_tasks()."
)
RULE = (
    "Part 1 run = application shape (contexts per application, styles gen/cm/obj, handler and sub-application "
    "registration order) x first failing start-up step (context, on_startup handler, site bind, or none; for run_app "
    "also a signal during start-up) x set of failing teardown steps (context cleanup code, on_shutdown, on_cleanup) x "
    "entry point; in 12 % of them some of the failing teardown steps end with asyncio.CancelledError (the callback "
    "cancels a background task and awaits it unsuppressed) instead of raising an ordinary exception. "
    "Part 2 run = 2-7 connections in different phases x shutdown_timeout x on_shutdown behaviour x late "
    "connection / late request x entry point x shutdown instant (loop step or virtual time) x segmentation/latency; "
    "12 % of them place 1-2 requests (plain / with a request queued behind / streaming) so that they are in flight at "
    "the shutdown instant and end while a slow on_shutdown handler is still running; in 8 % (AppRunner only) the task "
    "awaiting cleanup() is cancelled 0 .. 1.5 x shutdown_timeout after on_shutdown was delivered, while the server "
    "drains the requests in flight (only the clauses that do not depend on cleanup() returning are judged then); in "
    "12 % a client that sends nothing is accepted by the listening socket at the very instant the shutdown is requested "
    "(just before / after the call) and its connection_made() is delivered 0-4 loop iterations after the accept. "
    "Non-trivial: part 1 - at least two contexts started and at least one callback raised; part 2 - the shutdown fired "
    "while at least one handler was running and at least one other connection was idle or half-received. "
    "Distinct = interleaving signature."
)
ENUM_RULE = (
    "Part 1: every application shape with <=4 contexts over main + <=2 sub-applications (both registration orders of "
    "handlers vs. sub-applications) x every first failing start-up position (each context, each on_startup handler, "
    "site bind, none) x every subset of failing context-cleanup codes (flags on contexts that cannot have started are "
    "dropped) x every subset of <=2 (thorough: <=3) failing on_shutdown/on_cleanup handlers x {AppRunner, run_app}; "
    "plus 5-context shapes with every subset of <=3 failing cleanup codes (thorough: every subset). Part 2: fixed "
    "multi-connection baselines (9 in quick, two of them with requests that end while slow on_shutdown handlers are "
    "still running) under an all-zero choice tape x the shutdown instant before every loop "
    "step from just before the first client connects up to the horizon x {AppRunner.cleanup(), SIGTERM to run_app}. "
    "First of all: 6 shapes x every first failing start-up position x ONE teardown step ending with CancelledError "
    "(alone / with one other step raising) x both entry points; and 4 baselines x the task awaiting "
    "AppRunner.cleanup() cancelled at 8 offsets (0 .. 1.5 x shutdown_timeout) after on_shutdown was delivered; and 3 "
    "baselines x 2 shutdown instants x a silent connection accepted just before / after the shutdown call x its "
    "connection_made() 0..4 loop iterations after the accept x both entry points."
)
COMPONENTS = {
    "real": ["aiohttp.web.Application / CleanupContext / signals / sub-applications", "web_runner.AppRunner, TCPSite",
             "web.run_app / _run_app / _cancel_tasks", "web_server.Server", "web_protocol.RequestHandler",
             "web_ws.WebSocketResponse", "http parser/writer (Python)", "asyncio tasks, timeouts, async generators"],
    "stub": ["network (SimNet)", "clients (scripted raw peers incl. a minimal WebSocket close responder)",
             "signals (SimLoop.add_signal_handler / deliver_signal)", "loop.close() at the end of run_app (deferred)",
             "TLS", "access log disabled"],
}
ASSUMPTIONS = [
    "user callbacks are the harness' own: 'start-up code completed' / 'cleanup code ran' are what they log",
    "cleanup code means the code after the yield (no try/finally around it), as in the documentation's examples",
    "AppRunner is used as documented: setup(), site.start(), then cleanup() whether or not setup()/start() raised",
    "reverse order is demanded among the contexts of one application only (no cross-application order is documented)",
    "the graceful period is measured from the instant the on_shutdown signal has been delivered",
    "a teardown step that ends with asyncio.CancelledError is a failing cleanup step like one that raises; where the "
    "CancelledError surfaces is not judged, and through run_app (which absorbs it) neither is the reporting of other errors",
    "a caller that cancels the task awaiting AppRunner.cleanup() while requests are drained still gets the cleanup code "
    "of started contexts run once; connection states and timeouts are not judged for such a run (cleanup did not return)",
    "TCP stream semantics of SimNet; a close by the server reaches the client as EOF after the bytes in flight",
    "a connection whose connection_made() was delivered before on_shutdown began and from which no byte has reached "
    "the server is an idle connection (closed at once = by the time on_shutdown has been delivered); one whose "
    "connection_made() comes later is only required to be closed when cleanup returns",
]

ADDR = ("10.0.0.1", 80)
TICK = 0.001
STYLES = ("gen", "cm", "obj")


class Boom(Exception):
    def __init__(self, cid, phase):
        super().__init__(cid, phase)
        self.cid, self.phase = cid, phase


# =========================================================================== part 1: scenarios
def _mk_app(aid, nctx, off, handlers, subs=(), subs_first=False):
    items = [{"k": "ctx", "id": f"{aid}.c{j}", "style": STYLES[(off + j) % 3], "y": (off + j) % 3} for j in range(nctx)]
    hs = [{"k": {"s": "startup", "d": "shutdown", "x": "cleanup"}[h], "id": f"{aid}.{h}0", "y": (off + n) % 2}
          for n, h in enumerate(handlers)]
    ss = [{"k": "sub", "app": s} for s in subs]
    items += (ss + hs) if subs_first else (hs + ss)
    return {"id": aid, "items": items}


def _shapes(tier):
    """(spec, exhaustive?) for the enumeration"""
    out = []
    for n in (1, 2, 3, 4):
        out.append(_mk_app("m", n, n, "sdx"))
    for m, a in ((1, 1), (2, 1), (1, 2), (2, 2), (0, 2), (3, 1), (0, 1)):
        for sf in (False, True):
            out.append(_mk_app("m", m, m + a, "sdx", [_mk_app("A", a, 1, "sx")], sf))
    for m, a, b in ((1, 1, 1), (2, 1, 1), (0, 2, 2), (1, 2, 1), (0, 1, 1)):
        for sf in (False, True):
            out.append(_mk_app("m", m, a + b, "sdx", [_mk_app("A", a, 1, "sx"), _mk_app("B", b, 2, "d")], sf))
    res = [(s, True) for s in out]
    for m, a, b in ((5, 0, 0), (3, 2, 0), (2, 2, 1), (1, 2, 2), (0, 3, 2)):
        subs = []
        if a:
            subs.append(_mk_app("A", a, 1, "sx"))
        if b:
            subs.append(_mk_app("B", b, 2, "d"))
        for sf in (False, True):
            res.append((_mk_app("m", m, 2, "sdx", subs, sf), tier == "thorough"))
    return res


def _part1_cases(tier):
    hmax = 3 if tier == "thorough" else 2
    seen = set()
    for spec, exhaustive in _shapes(tier):
        cbs = [it for it, _a in L.walk(spec)]
        ctxs = [it["id"] for it in cbs if it["k"] == "ctx"]
        setup_pos = [None] + [it["id"] for it in cbs if it["k"] in ("ctx", "startup")] + ["site"]
        tdh = [it["id"] for it in cbs if it["k"] in ("shutdown", "cleanup")]
        hsubsets = [c for r in range(hmax + 1) for c in itertools.combinations(tdh, r)]
        cmax = len(ctxs) if exhaustive else 3
        csubsets = [c for r in range(cmax + 1) for c in itertools.combinations(ctxs, r)]
        for sp in setup_pos:
            sr = [] if sp is None else [sp]
            doc = L.documented_trace(spec, setup_raise=[x for x in sr if x != "site"], site_fails=sp == "site")
            can_start = {i for k, i in doc if k == "started"}
            for cs in csubsets:
                if any(c not in can_start for c in cs):
                    continue
                for hs in hsubsets:
                    for entry in ("runner", "run_app"):
                        key = (repr(spec), sp, cs, hs, entry)
                        if key in seen:
                            continue
                        seen.add(key)
                        yield {"part": 1, "entry": entry, "app": spec, "setup_raise": sr,
                               "teardown_raise": list(cs) + list(hs), "signal_at": 50,
                               "sig": "SIGTERM" if (len(cs) + len(hs)) % 2 == 0 else "SIGINT"}


def _rand_app(rng, aid, nctx, subs=()):
    items = [{"k": "ctx", "id": f"{aid}.c{j}", "style": rng.choice(STYLES), "y": rng.choice([0, 1, 2, 2])} for j in range(nctx)]
    extra = []
    for h, kind in (("s", "startup"), ("d", "shutdown"), ("x", "cleanup")):
        for j in range(rng.choice([0, 1, 1, 2])):
            extra.append({"k": kind, "id": f"{aid}.{h}{j}", "y": rng.choice([0, 1, 2])})
    extra += [{"k": "sub", "app": s} for s in subs]
    rng.shuffle(extra)
    # ids of one kind must stay in registration order for readability only; order is free
    pos = sorted(rng.sample(range(len(extra) + len(items)), len(items))) if items else []
    merged, ei, ci = [], 0, 0
    for p in range(len(extra) + len(items)):
        if ci < len(pos) and pos[ci] == p:
            merged.append(items[ci])
            ci += 1
        else:
            merged.append(extra[ei])
            ei += 1
    return {"id": aid, "items": merged}


def _gen_part1(rng):
    n = rng.choice([2, 3, 4, 5, 5])
    nsub = rng.choice([0, 1, 1, 2])
    parts = [0] * (nsub + 1)
    for _ in range(n):
        parts[rng.randrange(nsub + 1)] += 1
    subs = [_rand_app(rng, "AB"[i], parts[i + 1]) for i in range(nsub)]
    spec = _rand_app(rng, "m", parts[0], subs)
    cbs = [it for it, _a in L.walk(spec)]
    su = [it["id"] for it in cbs if it["k"] in ("ctx", "startup")] + ["site"]
    td = [it["id"] for it in cbs if it["k"] in ("ctx", "shutdown", "cleanup")]
    r = rng.random()
    sr = [] if r < 0.35 else rng.sample(su, min(len(su), rng.choice([1, 1, 1, 2])))
    tr = [i for i in td if rng.random() < rng.choice([0.0, 0.2, 0.5])]
    entry = rng.choice(["runner", "run_app"])
    # run_app ends by the start-up failure or by one signal (which may come during start-up).  A signal that
    # arrives while run_app is already cleaning up after a failed site start is a second termination request
    # and outside the property's quantifier, so early signals are not combined with a site failure.
    early = entry == "run_app" and "site" not in sr
    scn = {"part": 1, "entry": entry, "app": spec, "setup_raise": sr, "teardown_raise": tr,
           "signal_at": rng.choice([50, 50, 50, 0, 1, 2, 3, 5]) if early else 50,
           "sig": rng.choice(["SIGTERM", "SIGINT"])}
    if rng.random() < 0.12:
        _cancel_mode_feature(rng, scn, td)
    return scn


def _cancel_mode_feature(rng, scn, td):
    """How a teardown step fails: some of the failing steps do not raise an ordinary exception but end with
    asyncio.CancelledError - the callback stops a background task of the application the usual way
    (task.cancel(); await task) without suppressing the result.  CancelledError is a BaseException, not an
    Exception: the other half of 'any set of cleanup steps that fail'."""
    tr = list(scn["teardown_raise"])
    if not tr or rng.random() < 0.4:
        sd = [i for i in td if i.split(".")[1][0] == "d"]
        extra = rng.choice(sd if sd and rng.random() < 0.7 else td) if td else None
        if extra is not None and extra not in tr:
            tr = [i for i in td if i in tr or i == extra]
    tc = [i for i in tr if rng.random() < 0.6]
    if tr and not tc:
        tc = [rng.choice(tr)]
    scn["teardown_raise"], scn["teardown_cancel"] = tr, tc
    scn["feature"] = "cancel_mode"


# =========================================================================== part 2: scenarios
def _conn(kind, t, **kw):
    d = {"kind": kind, "t": t}
    d.update(kw)
    return d


def _scenes(tier):
    """Fixed baselines for the step enumeration: (name, scenario without shutdown instant, stride)."""
    common = {"part": 2, "zero_tape": True, "lat": 0, "policy": "whole"}
    a = dict(common, T=0.05, on_shutdown="close_ws", hc=False,
             conns=[_conn("idle", 1), _conn("sleep", 2, ms=20), _conn("sleep", 4, ms=75), _conn("sleep", 3, ms=-1),
                    _conn("stream", 5, n=4, gap=10), _conn("ws", 6), _conn("half", 7)],
             late_conn=1, late_req=[0, 1], horizon=50)
    a2 = dict(a, on_shutdown="none", hc=True, late_conn=0, late_req=[1, 0], horizon=30)
    b = dict(common, T=0.2, on_shutdown="none", hc=False,
             conns=[_conn("idle2", 1), _conn("pipe", 2, ms=30), _conn("body", 3, rest=40), _conn("body", 4, rest=None),
                    _conn("ws", 5), _conn("stream", 6, n=30, gap=20), _conn("fresh", 8)],
             late_conn=0, late_req=[0, 0], horizon=60)
    b2 = dict(b, on_shutdown="close_ws", T=0.05, late_conn=3, late_req=[1, 3], horizon=45)
    c = dict(common, T=0.05, on_shutdown="slow:30", hc=True,
             conns=[_conn("idle", 1), _conn("sleep", 2, ms=60), _conn("ws_mute", 3), _conn("gone", 4, ms=-1, abort=4),
                    _conn("sleep", 9, ms=200), _conn("idle2", 5)],
             late_conn=5, late_req=[0, 10], horizon=25)
    c2 = dict(c, hc=False, on_shutdown="close_ws", late_req=[5, 2])
    d = dict(common, T=6.0, on_shutdown="close_ws", hc=False,
             conns=[_conn("idle", 1), _conn("sleep", 2, ms=3000), _conn("sleep", 3, ms=8500), _conn("sleep", 4, ms=-1),
                    _conn("ws_mute", 5), _conn("stream", 6, n=5, gap=1500)],
             late_conn=2, late_req=None, horizon=20)
    # requests in flight at the shutdown instant that complete while the on_shutdown handlers are still running
    # (between Server.pre_shutdown() and Server.shutdown()): plain, with a second request queued behind, streaming
    wn = dict(common, T=0.2, on_shutdown="slow:30", hc=False,
              conns=[_conn("idle", 1), _conn("sleep", 2, ms=12), _conn("pipe", 3, ms=8), _conn("stream", 4, n=3, gap=3),
                     _conn("sleep", 5, ms=-1)],
              late_conn=2, late_req=[1, 14], horizon=10)
    wn2 = dict(wn, T=0.05, hc=True, conns=[_conn("pipe", 1, ms=6), _conn("sleep", 2, ms=20), _conn("idle2", 1),
                                            _conn("sleep", 3, ms=45), _conn("body", 2, rest=9)],
               late_conn=None, late_req=[1, 22], horizon=8)
    out = [("A", a, 1), ("A2", a2, 1), ("B", b, 1), ("B2", b2, 1), ("C", c, 1), ("C2", c2, 1), ("D", d, 1),
           ("W", wn, 1), ("W2", wn2, 1)]
    if tier == "thorough":
        e = dict(a, T=1.0, on_shutdown="none", conns=a["conns"] + [_conn("body", 8, rest=300), _conn("pipe", 9, ms=1500)],
                 horizon=400)
        out.append(("E", e, 1))
        for lat in (1, 3):
            out.append(("A-lat%d" % lat, dict(a, lat=lat), 1))
            out.append(("B-lat%d" % lat, dict(b, lat=lat, policy="small"), 2))
    return out


def _part2_cases(tier):
    for name, base, stride in _scenes(tier):
        for entry in ("runner", "run_app"):
            scn0 = dict(base, entry=entry, scene=name, shutdown={"step": None})
            info = run(scn0, Choices(tape=[]))["base_info"]
            lo = max(1, info["first_client_step"] - 3)
            hi = info["trigger_step"]
            yield scn0
            for k in range(lo, hi + 1, stride):
                yield dict(scn0, shutdown={"step": k})


P2_KINDS = ["idle", "idle", "idle2", "half", "fresh", "sleep", "sleep", "sleep", "stream", "ws", "ws_mute", "body",
            "pipe", "gone"]


def _gen_part2(rng):
    T = rng.choice([0.05, 0.05, 0.2, 0.2, 1.0, 6.0])
    ms_T = int(T * 1000)
    durs = [max(1, int(ms_T * 0.4)), int(ms_T * 0.9), int(ms_T * 1.5), int(ms_T * 3), -1]
    conns = []
    for _ in range(rng.randint(2, 6)):
        k = rng.choice(P2_KINDS)
        t = rng.randint(1, 12)
        if k == "sleep":
            conns.append(_conn(k, t, ms=rng.choice(durs)))
        elif k == "stream":
            n = rng.choice([2, 4, 8])
            conns.append(_conn(k, t, n=n, gap=max(1, rng.choice(durs[:4]) // n)))
        elif k == "body":
            conns.append(_conn(k, t, rest=rng.choice([None, None, durs[0], durs[2]])))
        elif k == "pipe":
            conns.append(_conn(k, t, ms=rng.choice(durs[:4])))
        elif k == "gone":
            conns.append(_conn(k, t, ms=rng.choice(durs[1:]), abort=rng.randint(1, 8), how=rng.choice(["reset", "close"])))
        else:
            conns.append(_conn(k, t))
    idle_idx = [i for i, c in enumerate(conns) if c["kind"] in ("idle", "idle2", "sleep", "fresh")]
    mode = rng.random()
    shutdown = {"step": rng.randint(5, 110)} if mode < 0.4 else {"t": rng.randint(0, 30)}
    scn = {"part": 2, "entry": rng.choice(["runner", "run_app"]), "scene": "rand", "T": T,
           "on_shutdown": rng.choice(["none", "none", "close_ws", "close_ws", "slow:%d" % rng.choice([5, 30, ms_T])]),
           "hc": rng.random() < 0.3, "zero_tape": False, "lat": rng.choice([0, 0, 1, 3]),
           "policy": rng.choice(["whole", "whole", "small", "mixed"]),
           "conns": conns, "late_conn": rng.choice([None, 0, 1, 3, 10]),
           "late_req": [rng.choice(idle_idx), rng.choice([0, 1, 2, 10])] if idle_idx and rng.random() < 0.5 else None,
           "horizon": 40, "shutdown": shutdown}
    if rng.random() < 0.12:
        _window_feature(rng, scn)
    if rng.random() < 0.16 and scn["entry"] == "runner":  # half of the scenarios use this entry point: 8 %
        # the caller gives up waiting for AppRunner.cleanup() (outer timeout, second stop request): the task
        # awaiting it is cancelled d ms after on_shutdown has been delivered, while requests are being drained
        scn["cancel_cleanup"] = {"after_ms": rng.choice([0, 1, 2, 5, ms_T // 2, ms_T * 9 // 10, ms_T + 1, ms_T * 3 // 2])}
        if not any(c["kind"] in ("sleep", "stream", "ws_mute", "pipe") for c in scn["conns"]):
            scn["conns"].append(_conn("sleep", rng.randint(1, 8), ms=rng.choice(durs[1:])))
        scn["feature"] = (scn.get("feature", "") + "+cancel_cleanup").lstrip("+")
    if rng.random() < 0.12:
        _accept_race_feature(rng, scn)
    return scn


ACCEPT_LAGS = (0, 1, 2, 3, 4)


def _accept_race_feature(rng, scn):
    """A client whose TCP connection is accepted by the listening socket at the very instant the shutdown is
    requested (just before / just after the call), and which sends nothing.  As with a real listening socket the
    server protocol's connection_made() is delivered `lag` loop iterations after the accept (asyncio: accept in
    the reader callback -> transport set-up task -> connection_made via call_soon), so it lands before, between
    or after the first steps of the shutdown sequence.  A connection that is established when on_shutdown begins
    and has never carried a byte is an idle connection."""
    scn["accept_race"] = {"lag": rng.choice([0, 1, 1, 2, 2, 3, 4]), "order": rng.choice(["before", "after"])}
    scn["feature"] = (scn.get("feature", "") + "+accept_race").lstrip("+")


def _window_feature(rng, scn):
    """Requests that are in flight when the shutdown begins and end while the on_shutdown handlers are still
    running, i.e. between the graceful close of the connections and their forced shutdown: on_shutdown takes w ms
    from the shutdown instant ts, and 1-2 added connections carry a request (plain, with a second one queued
    behind it, or streaming) that starts before ts and ends inside (ts, ts + w); sometimes the client sends a
    further request on such a connection after the first has ended, still inside the window."""
    slack = 2 * scn["lat"]  # a request may start up to this many ms after its connection was opened
    w = rng.choice([x for x in (6, 12, 30, 60) if x >= 2 * slack + 6])
    ts = rng.randint(3 + slack, 14 + slack)
    scn["on_shutdown"] = "slow:%d" % w
    scn["shutdown"] = {"t": ts}
    scn["feature"] = "window"
    conns = scn["conns"] = scn["conns"][: rng.choice([0, 1, 2, 4])]
    if scn["late_req"] is not None and scn["late_req"][0] >= len(conns):
        scn["late_req"] = None
    ends = []
    for _ in range(rng.choice([1, 1, 2])):
        tc = rng.randint(1, ts - 1 - slack)
        end = rng.randint(ts + 1, ts + w - 2 - slack)  # nominal end tc + ms; the real one is at most slack later
        k = rng.choice(["sleep", "sleep", "pipe", "pipe", "stream"])
        if k == "stream":
            n = rng.choice([2, 3])
            gap = max(1, (end - tc) // n)
            conns.append(_conn(k, tc, n=n, gap=gap))
            end = tc + n * gap
        else:
            conns.append(_conn(k, tc, ms=end - tc))
        ends.append((len(conns) - 1, end, k))
    i, end, k = rng.choice(ends)
    lo, hi = end + slack + 1, ts + w - 1 - scn["lat"]
    if k == "sleep" and rng.random() < 0.5 and lo <= hi:
        scn["late_req"] = [i, rng.randint(lo, hi) - ts]


# =========================================================================== interface
def gen(rng, tier, index):
    if rng.random() < 0.4:
        return _gen_part1(rng)
    return _gen_part2(rng)


def _cancel_mode_cases(tier):
    """Part 1, failure mode 'ends with CancelledError': a few shapes x every first failing start-up position x ONE
    teardown step (context cleanup code, on_shutdown or on_cleanup handler) that ends with CancelledError, alone and
    together with one other step raising an ordinary exception, x {AppRunner, run_app}."""
    shapes = [_mk_app("m", 1, 0, "d"), _mk_app("m", 2, 1, "sdx"), _mk_app("m", 3, 2, "sdx"),
              _mk_app("m", 1, 2, "sdx", [_mk_app("A", 1, 1, "sx")], False),
              _mk_app("m", 2, 3, "sdx", [_mk_app("A", 1, 1, "sx"), _mk_app("B", 1, 2, "d")], True),
              _mk_app("m", 0, 2, "x", [_mk_app("A", 2, 1, "sdx")], False)]
    for spec in shapes:
        cbs = [it for it, _a in L.walk(spec)]
        setup_pos = [None] + [it["id"] for it in cbs if it["k"] in ("ctx", "startup")] + ["site"]
        tds = [it["id"] for it in cbs if it["k"] in ("ctx", "shutdown", "cleanup")]
        for sp in setup_pos:
            sr = [] if sp is None else [sp]
            doc = L.documented_trace(spec, setup_raise=[x for x in sr if x != "site"], site_fails=sp == "site")
            runs = {i for k, i in doc if k == "exit"}  # teardown steps that are due after this start-up
            for c in tds:
                if c not in runs:
                    continue
                for other in [None] + [o for o in tds if o != c and o in runs]:
                    for entry in ("runner", "run_app"):
                        yield {"part": 1, "entry": entry, "app": spec, "setup_raise": sr,
                               "teardown_raise": [i for i in tds if i in (c, other)], "teardown_cancel": [c],
                               "signal_at": 50, "sig": "SIGTERM" if other is None else "SIGINT",
                               "feature": "cancel_mode"}


def _cancel_cleanup_cases(tier):
    """Part 2: the task awaiting AppRunner.cleanup() is cancelled d ms after on_shutdown was delivered, i.e. while the
    server drains the requests in flight (graceful period, d < T) or waits for the cancelled handlers (T <= d < 2T)."""
    sc = {name: base for name, base, _stride in _scenes(tier)}
    for name in ("A", "B", "C", "W"):
        base = sc[name]
        ms_T = int(base["T"] * 1000)
        for d in sorted({0, 1, 3, 10, ms_T // 2, ms_T - 1, ms_T + 1, ms_T * 3 // 2}):
            for sd in ({"step": None}, {"t": 10}):
                yield dict(base, entry="runner", scene=name + "-cc", shutdown=sd, cancel_cleanup={"after_ms": d},
                           feature="cancel_cleanup")


def _accept_race_cases(tier):
    """Part 2: a connection accepted at the shutdown instant (just before / just after the shutdown call) that
    never sends anything, its connection_made() delivered 0..4 loop iterations after the accept."""
    sc = {name: base for name, base, _stride in _scenes(tier)}
    for name in ("A", "B", "W"):
        for entry in ("runner", "run_app"):
            for sd in ({"step": None}, {"t": 10}):
                for lag in ACCEPT_LAGS:
                    for order in ("before", "after"):
                        yield dict(sc[name], entry=entry, scene=name + "-ar", shutdown=sd,
                                   accept_race={"lag": lag, "order": order}, feature="accept_race")


def enumerate_cases(tier, seed):
    yield from _cancel_mode_cases(tier)
    yield from _cancel_cleanup_cases(tier)
    yield from _accept_race_cases(tier)
    yield from _part2_cases(tier)
    yield from _part1_cases(tier)


def oracle_selftest():
    L.selftest()


def _drop_item(spec, iid):
    items = []
    for it in spec["items"]:
        if it["k"] == "sub":
            if it["app"]["id"] == iid:
                continue
            items.append({"k": "sub", "app": _drop_item(it["app"], iid)})
        elif it["id"] != iid:
            items.append(it)
    return {"id": spec["id"], "items": items}


def _sub_ids(spec):
    for it in spec["items"]:
        if it["k"] == "sub":
            yield it["app"]["id"]
            yield from _sub_ids(it["app"])


def _map_items(spec, fn):
    return {"id": spec["id"], "items": [{"k": "sub", "app": _map_items(it["app"], fn)} if it["k"] == "sub" else fn(it)
                                        for it in spec["items"]]}


def shrink(scn):
    if scn["part"] == 1:
        tc = scn.get("teardown_cancel") or []
        for key in ("teardown_raise", "setup_raise"):
            for i in range(len(scn[key])):
                cand = dict(scn, **{key: scn[key][:i] + scn[key][i + 1:]})
                if tc:
                    cand["teardown_cancel"] = [x for x in tc if x in cand["teardown_raise"]]
                yield cand
        for i in range(len(tc)):  # an ordinary exception instead of CancelledError
            yield dict(scn, teardown_cancel=tc[:i] + tc[i + 1:])
        spec = scn["app"]
        raising = set(scn["setup_raise"]) | set(scn["teardown_raise"])
        for sid in list(_sub_ids(spec)):
            cand = _drop_item(spec, sid)
            left = {it["id"] for it, _a in L.walk(cand)} | {"site"}
            cand = dict(scn, app=cand, setup_raise=[i for i in scn["setup_raise"] if i in left],
                        teardown_raise=[i for i in scn["teardown_raise"] if i in left])
            if tc:
                cand["teardown_cancel"] = [i for i in tc if i in left]
            yield cand
        for it, _a in list(L.walk(spec)):
            if it["id"] not in raising:
                yield dict(scn, app=_drop_item(spec, it["id"]))
        if any(it.get("y") for it, _a in L.walk(spec)):
            yield dict(scn, app=_map_items(spec, lambda it: dict(it, y=0)))
        if any(it.get("style", "gen") != "gen" for it, _a in L.walk(spec)):
            yield dict(scn, app=_map_items(spec, lambda it: dict(it, style="gen") if it["k"] == "ctx" else it))
        if scn["signal_at"] != 50:
            yield dict(scn, signal_at=50)
        return
    conns = scn["conns"]
    lr = scn.get("late_req")
    cc = scn.get("cancel_cleanup")
    if cc is not None:
        yield {k: v for k, v in scn.items() if k != "cancel_cleanup"}
        for d in (0, cc["after_ms"] // 2):
            if d < cc["after_ms"]:
                yield dict(scn, cancel_cleanup={"after_ms": d})
    ar = scn.get("accept_race")
    if ar is not None:
        yield {k: v for k, v in scn.items() if k != "accept_race"}
        if ar["lag"] > 0:
            yield dict(scn, accept_race=dict(ar, lag=ar["lag"] - 1))
        if ar["order"] != "before":
            yield dict(scn, accept_race=dict(ar, order="before"))
    for i in range(len(conns)):
        if lr is not None and lr[0] == i:
            continue
        nl = None if lr is None else [lr[0] - (1 if lr[0] > i else 0), lr[1]]
        yield dict(scn, conns=conns[:i] + conns[i + 1:], late_req=nl)
    if lr is not None:
        yield dict(scn, late_req=None)
    if scn.get("late_conn") is not None:
        yield dict(scn, late_conn=None)
    if scn["lat"]:
        yield dict(scn, lat=0)
    if scn["policy"] != "whole":
        yield dict(scn, policy="whole")
    if scn["on_shutdown"] != "none":
        yield dict(scn, on_shutdown="none")
    if scn["on_shutdown"].startswith("slow:") and int(scn["on_shutdown"][5:]) > 4:
        yield dict(scn, on_shutdown="slow:%d" % (int(scn["on_shutdown"][5:]) // 2))
    for i, c in enumerate(conns):
        if c["kind"] == "pipe":  # without the request queued behind
            yield dict(scn, conns=conns[:i] + [_conn("sleep", c["t"], ms=c["ms"])] + conns[i + 1:])
        elif c["kind"] == "stream":
            yield dict(scn, conns=conns[:i] + [_conn("sleep", c["t"], ms=c["n"] * c["gap"])] + conns[i + 1:])
    if scn["hc"]:
        yield dict(scn, hc=False)
    for i, c in enumerate(conns):
        if c["t"] > 1:
            yield dict(scn, conns=conns[:i] + [dict(c, t=1)] + conns[i + 1:])
    if "t" in scn["shutdown"] and scn["shutdown"]["t"] > 15:
        yield dict(scn, shutdown={"t": 15})


def run(scn, ch, log=False):
    try:
        if scn["part"] == 1:
            return _run_part1(scn, ch, log)
        return _run_part2(scn, ch, log)
    finally:
        # aiohttp memoises middleware chains in a process-wide lru_cache(1024) keyed by handler and
        # applications; it would keep the last 1024 simulated worlds alive (run-to-run independence, speed)
        from aiohttp import web_app

        cache = getattr(web_app, "_cached_build_middleware", None)
        if cache is not None and hasattr(cache, "cache_clear"):
            cache.cache_clear()


# =========================================================================== shared helpers
class _LogCapture(logging.Handler):
    """aiohttp's loggers are silenced by check.py (logging.disable); for the
    'errors are reported' clause the records must be seen, so the block is
    lifted for the run and the records go here and nowhere else."""

    def __init__(self):
        super().__init__(level=logging.WARNING)
        self.records = []

    def emit(self, record):
        self.records.append(record)

    def __enter__(self):
        self._lg = logging.getLogger("aiohttp")
        self._prev = (logging.root.manager.disable, self._lg.propagate, self._lg.level)
        logging.disable(logging.NOTSET)
        self._lg.propagate = False
        self._lg.setLevel(logging.WARNING)
        self._lg.addHandler(self)
        return self

    def __exit__(self, *a):
        self._lg.removeHandler(self)
        self._lg.propagate = self._prev[1]
        self._lg.setLevel(self._prev[2])
        logging.disable(self._prev[0])
        return False


def _exc_tree(exc, out, seen):
    if exc is None or id(exc) in seen:
        return
    seen.add(id(exc))
    out.append(exc)
    for sub in getattr(exc, "exceptions", None) or ():
        _exc_tree(sub, out, seen)
    _exc_tree(exc.__cause__, out, seen)
    _exc_tree(exc.__context__, out, seen)


_BOOM_RE = re.compile(r"Boom\('([^']+)', '([^']+)'\)")


def _reported(raised, loop, cap):
    rep = set()
    flat: list = []
    seen: set = set()
    for e in raised:
        _exc_tree(e, flat, seen)
    for rec in cap.records:
        if rec.exc_info and rec.exc_info[1] is not None:
            _exc_tree(rec.exc_info[1], flat, seen)
        for m in _BOOM_RE.finditer(str(rec.msg) + " " + " ".join(repr(a) for a in (rec.args or ()))):
            rep.add((m.group(1), m.group(2)))
    for e in flat:
        if isinstance(e, Boom):
            rep.add((e.cid, e.phase))
    for c in loop.exc_contexts:
        for m in _BOOM_RE.finditer(c.get("exc") or ""):
            rep.add((m.group(1), m.group(2)))
    return rep


def _run_app_guarded(loop, app, st, **kw):
    """web.run_app(app, loop=SimLoop) from outside the loop.  run_app closes the
    loop it was given; the World still has to drain and close it, so close() is
    recorded and deferred.  Any signal left registered/scheduled is removed:
    a late GracefulExit (SystemExit) must never fire during World teardown."""
    from aiohttp import web

    loop.close = lambda: st.__setitem__("loop_closed", True)
    try:
        web.run_app(app, host=ADDR[0], port=ADDR[1], loop=loop, print=None, access_log=None,
                    handle_signals=True, **kw)
        st["returned"] = True
    except SystemExit as e:  # a GracefulExit that run_app did not absorb (never seen; must not kill the worker)
        st["raised"] = e
        st["returned"] = True
        st["graceful_exit_escaped"] = True
    except asyncio.CancelledError as e:  # a teardown step that ended with CancelledError, after a failed start-up
        st["raised"] = e
        st["returned"] = True
    except Exception as e:  # start-up / cleanup errors are re-raised by run_app
        st["raised"] = e
        stopped = isinstance(e, RuntimeError) and "Event loop stopped before Future completed" in str(e)
        st["returned"] = not (stopped and loop.capped is not None)
        st["stopped_early"] = stopped and loop.capped is None
    finally:
        del loop.close
        loop.signal_handlers.clear()
        for h in st.get("handles", ()):
            h.cancel()
        asyncio.set_event_loop(loop)


def _alive_handler_tasks(loop):
    n = 0
    for t in asyncio.all_tasks(loop):
        if t.done():
            continue
        q = getattr(t.get_coro(), "__qualname__", "")
        if q.startswith("RequestHandler."):
            n += 1
    return n


# =========================================================================== part 1: run
class _Trace(list):
    """event list of the instrumented callbacks; every entry also goes into the run's digest"""

    def __init__(self, loop):
        super().__init__()
        self._note = loop.note

    def append(self, ev):
        self._note("cb", f"{ev[0]}:{ev[1]}")
        super().append(ev)


def _build_app(spec, events, setup_raise, teardown_raise, flt, teardown_cancel=frozenset()):
    from contextlib import asynccontextmanager

    from aiohttp import web

    async def pause(y):
        if y == 1:
            await asyncio.sleep(0)
        elif y == 2:
            await asyncio.sleep(TICK)

    async def su(it):
        i = it["id"]
        events.append(["enter", i])
        try:
            await pause(it.get("y", 0))
        except asyncio.CancelledError:
            events.append(["setup_cancelled", i])
            raise
        if i in setup_raise:
            events.append(["setup_raise", i])
            flt["crash_setup"] += 1
            raise Boom(i, "setup")
        events.append(["started", i])

    async def td(it):
        i = it["id"]
        events.append(["exit", i])
        await pause(it.get("y", 0))
        if i in teardown_raise and i in teardown_cancel:
            # the step stops a background job of the application and awaits it without suppressing the outcome
            events.append(["teardown_cancelled", i])
            flt["crash_teardown_cancelled_error"] += 1
            job = asyncio.ensure_future(asyncio.sleep(3600.0))
            job.cancel()
            await job  # raises asyncio.CancelledError
            raise AssertionError("unreachable")
        if i in teardown_raise:
            events.append(["teardown_raise", i])
            flt["crash_teardown"] += 1
            raise Boom(i, "teardown")
        events.append(["exit_done", i])

    def mk_ctx(it):
        async def gen(app):
            await su(it)
            yield
            await td(it)

        if it["style"] == "gen":
            return gen
        if it["style"] == "cm":
            return asynccontextmanager(gen)

        class Obj:
            async def __aenter__(self):
                await su(it)

            async def __aexit__(self, *a):
                await td(it)

        return lambda app: Obj()

    def mk_handler(it):
        if it["k"] == "startup":
            async def h(app):
                await su(it)
        else:
            async def h(app):
                await td(it)
        return h

    def build(sp):
        app = web.Application()
        for it in sp["items"]:
            if it["k"] == "ctx":
                app.cleanup_ctx.append(mk_ctx(it))
            elif it["k"] == "sub":
                app.add_subapp("/" + it["app"]["id"], build(it["app"]))
            else:
                getattr(app, "on_" + it["k"]).append(mk_handler(it))
        return app

    return build(spec)


def _run_part1(scn, ch, log):
    from aiohttp import web

    entry = scn["entry"]
    st: dict = {}
    raised: list = []
    viols: list = []
    with World(ch, 0, log_events=log) as w, _LogCapture() as cap:
        loop, net = w.loop, w.net
        events = _Trace(loop)
        net.max_latency_ticks = 0
        sr = set(scn["setup_raise"])
        app = _build_app(scn["app"], events, sr, set(scn["teardown_raise"]), loop.faults,
                         frozenset(scn.get("teardown_cancel") or ()))
        if "site" in sr:
            net.listen(asyncio.Protocol, ADDR[0], ADDR[1])  # address already in use
        if entry == "runner":
            async def main():
                runner = web.AppRunner(app, access_log=None, shutdown_timeout=0.2)
                ok = False
                try:
                    await runner.setup()
                    ok = True
                except Exception as e:
                    raised.append(e)
                if ok:
                    try:
                        await web.TCPSite(runner, ADDR[0], ADDR[1]).start()
                    except OSError as e:
                        events.append(["site_fail", "site"])
                        loop.faults["crash_site"] += 1
                        st["site_exc"] = e
                try:
                    await runner.cleanup()
                except Exception as e:
                    raised.append(e)
                except asyncio.CancelledError as e:  # a teardown step ended with CancelledError (nobody cancels main)
                    raised.append(e)
                    st["cleanup_cancelled_error"] = True

            t = loop.run_sim(main(), vt_cap=30.0, step_cap=50_000)
            st["returned"] = t.done()
            if t.done() and not t.cancelled() and t.exception() is not None:
                raise t.exception()
        else:
            sig = getattr(signal, scn.get("sig", "SIGTERM"))
            def _deliver(sig=sig):
                # a signal that lands while run_app is already cleaning up after a failed start-up is a second
                # termination request (it cancels that cleanup); like double signals it is outside the quantifier
                if any(k in ("setup_raise", "site_fail") for k, _i in events) and any(k == "exit" for k, _i in events):
                    st["signal_during_failure_cleanup"] = True
                elif not any(k in ("setup_raise", "site_fail", "exit") for k, _i in events):
                    st["signal_before_failure"] = True
                loop.deliver_signal(sig)

            st["handles"] = [loop.sim_call_later(scn["signal_at"] * TICK, _deliver),
                             loop.sim_call_later(1.0, _deliver)]
            loop.vt_cap, loop.step_cap = 30.0, 50_000
            _run_app_guarded(loop, app, st, shutdown_timeout=0.2)
            if "raised" in st:
                e = st["raised"]
                raised.append(e)
                tree: list = []
                _exc_tree(e, tree, set())
                if "site" in sr and any(isinstance(x, OSError) for x in tree):
                    events.append(["site_fail", "site"])
                    loop.faults["crash_site"] += 1
        if not st.get("returned"):
            viols.append({"invariant": "returns", "key": f"{entry}:part1_blocked",
                          "message": f"{entry} did not finish within 30 virtual seconds; trace={L._fmt(events)}"})
        if st.get("graceful_exit_escaped"):
            viols.append({"invariant": "returns", "key": "run_app:graceful_exit_escaped",
                          "message": f"run_app let GracefulExit escape; trace={L._fmt(events)}"})
        if st.get("stopped_early"):
            # not a cap of the harness: run_app's own final run_until_complete() was stopped
            viols.append({"invariant": "returns", "key": "run_app:final_phase_stopped_by_stale_callback",
                          "message": "run_app raised RuntimeError('Event loop stopped before Future completed.') from its "
                                     "final phase (the loop was not capped): a stop callback left over from the "
                                     f"interrupted run_until_complete(main_task) ended it; trace={L._fmt(events)}"})
        gc.collect()  # an exception left in a finished, unobserved task is logged when the task is collected
        # a start-up cancelled by the signal counts as a failed start-up step
        # ... and a teardown step that ended with CancelledError counts as a failed teardown step
        jev = [["setup_raise", i] if k == "setup_cancelled" else ["teardown_raise", i] if k == "teardown_cancelled"
               else [k, i] for k, i in events]
        cancelled = any(k == "setup_cancelled" for k, _i in events)
        td_cancelled = [i for k, i in events if k == "teardown_cancelled"]
        td_raised = [i for k, i in events if k == "teardown_raise"]
        kind_of = L.kinds(scn["app"])
        # every on_shutdown failure of the run was a CancelledError
        sd_only_cancelled = bool(td_cancelled) and not any(kind_of.get(i) == "shutdown" for i in td_raised) \
            and any(kind_of.get(i) == "shutdown" for i in td_cancelled)
        rep = _reported(raised, loop, cap)
        rep |= {(i, "setup") for k, i in events if k == "setup_cancelled"}
        # a CancelledError is not an error report: where it surfaces is not judged (G5 is about exceptions)
        rep |= {(i, "teardown") for i in td_cancelled}
        # run_app only: the signal arrived while start-up was still running / in the iteration it failed in
        raced = entry == "run_app" and loop.faults.get("signal", 0) > 0 \
            and (st.get("signal_before_failure") or not any(k == "exit" for k, _i in events)) \
            and any(k in ("setup_raise", "setup_cancelled") for k, _i in events)
        for v in L.judge(scn["app"], jev, entry=entry, reported=rep, strict_cross_app=STRICT_CROSS_APP_ORDER):
            if st.get("signal_during_failure_cleanup"):
                continue
            if cancelled:
                v = dict(v, key=v["key"].replace("startup_failed", "startup_cancelled"))
            if td_cancelled and entry == "run_app" and v["invariant"] == "errors_reported":
                # A CancelledError that ends run_app's main task cannot be told from run_app's own cancellation of
                # that task and is absorbed like it; exceptions raised by earlier steps travel only as its
                # __context__.  Reporting is judged through AppRunner for this failure mode (the caller gets the
                # CancelledError with its chain), not through run_app.
                continue
            if td_cancelled:
                key = v["key"]
                if sd_only_cancelled:
                    key = key.replace(":on_shutdown_raised:", ":on_shutdown_cancelled_error:")
                v = dict(v, key=key, message=f"(teardown steps that ended with asyncio.CancelledError instead of an "
                                             f"ordinary exception: {td_cancelled}) " + v["message"])
            if raced and v["invariant"] == "errors_reported":
                v = dict(v, key=v["key"] + ":signal_raced_startup_failure",
                         message="(a signal was delivered in the loop iteration in which start-up failed) " + v["message"])
            viols.append(v)
        if entry == "run_app" and st.get("returned") and not st.get("loop_closed") and not st.get("stopped_early"):
            viols.append({"invariant": "returns", "key": "run_app:loop_not_closed",
                          "message": "run_app returned without closing the loop it was given"})
        for c in loop.exc_contexts:
            if not _BOOM_RE.search(c.get("exc") or ""):
                viols.append({"invariant": "loop_exception", "key": f"{entry}:{c['exc_type']}@{c.get('frame')}",
                              "message": f"exception reached the event loop: {c['message']} {c['exc']}"})
                break
        nstarted = sum(1 for k, i in events if k == "started" and "." in i and i.split(".")[1][0] == "c")
        nraised = sum(1 for k, _i in events if k in ("setup_raise", "teardown_raise", "site_fail", "setup_cancelled",
                                                     "teardown_cancelled"))
        stt = w.stats()
        n_ctx = len(L.contexts(scn["app"]))
        probes = {
            "p1_runs": 1, "p1_setup_failed": int(any(k in ("setup_raise", "site_fail") for k, _ in events)),
            "p1_setup_cancelled": int(cancelled), "p1_teardown_raised": int(any(k == "teardown_raise" for k, _ in events)),
            "p1_teardown_step_ended_with_cancelled_error": int(bool(td_cancelled)),
            "p1_on_shutdown_ended_with_cancelled_error": int(any(kind_of.get(i) == "shutdown" for i in td_cancelled)),
            "p1_cancelled_error_reached_caller": int(any(isinstance(e, asyncio.CancelledError) for e in raised)),
            "p1_multi_teardown_errors": int(sum(1 for k, _ in events if k == "teardown_raise") > 1),
            "p1_cleanup_error_group": int(any(type(e).__name__ == "CleanupError" for e in raised)),
            "p1_cross_app_start_order_cleanup": int(L.cross_app_inversions(scn["app"], events) > 0),
            "p1_" + entry: 1,
        }
        res = {"violations": viols, "nontrivial": nstarted >= 2 and nraised >= 1, "sig": stt["sig"], "digest": stt["digest"],
               "steps": stt["steps"], "vtime": stt["vtime"], "faults": stt["faults"],
               "probes": {k: v for k, v in probes.items() if v},
               "shape": f"P1-{entry}-n{n_ctx}-sub{len(list(_sub_ids(scn['app'])))}-su{len(scn['setup_raise'])}-td{min(len(scn['teardown_raise']), 3)}"}
        if log:
            res["event_log"] = loop.event_log
            res["debug"] = {"trace": L._fmt(events), "raised": [repr(e) for e in raised]}
        return res


# =========================================================================== part 2: run
WS_REQ = (b"GET /ws HTTP/1.1\r\nHost: h.test\r\nX-Conn: %d\r\nUpgrade: websocket\r\nConnection: Upgrade\r\n"
          b"Sec-WebSocket-Key: dGhlIHNhbXBsZSBub25jZQ==\r\nSec-WebSocket-Version: 13\r\n\r\n")


def _get(path, ci):
    return b"GET %s HTTP/1.1\r\nHost: h.test\r\nX-Conn: %d\r\n\r\n" % (path.encode(), ci)


class _Client(RawClient):
    """RawClient + timestamps + a minimal WebSocket peer that answers a close frame."""

    def __init__(self, loop, script, ws=None):
        super().__init__(loop, script, end="keep")
        self.ws = ws  # None | "reply" | "mute"
        self.eof_time = None
        self.lost_time = None
        self.ws_close_seen = False
        self.ws_close_code = None
        self._replied = False

    def data_received(self, data):
        super().data_received(data)
        if self.ws and not self.ws_close_seen:
            buf = bytes(self.received)
            i = buf.find(b"\r\n\r\n")
            if i < 0 or not buf.startswith(b"HTTP/1.1 101"):
                return
            p = i + 4
            while len(buf) - p >= 2:
                op, ln = buf[p] & 0x0F, buf[p + 1] & 0x7F
                if ln >= 126 or len(buf) - p - 2 < ln:
                    break
                if op == 8:
                    self.ws_close_seen = True
                    if ln >= 2:
                        self.ws_close_code = int.from_bytes(buf[p + 2:p + 4], "big")
                    break
                p += 2 + ln
            if self.ws_close_seen and self.ws == "reply" and not self._replied:
                self._replied = True
                tr = self.transport
                if tr is not None and not tr.is_closing():
                    tr.write(b"\x88\x82\x00\x00\x00\x00\x03\xe8")

    def eof_received(self):
        self.eof_time = self.loop.time()
        return super().eof_received()

    def connection_lost(self, exc):
        self.lost_time = self.loop.time()
        super().connection_lost(exc)


def _script(c, ci):
    """-> (pieces [[delay_ticks, bytes]], request head end offsets, ws mode)"""
    k = c["kind"]
    if k in ("idle", "fresh"):
        reqs = [] if k == "fresh" else [_get("/fast", ci)]
        return [[0, r] for r in reqs], reqs, None
    if k == "idle2":
        reqs = [_get("/fast", ci), _get("/fast", ci)]
        return [[0, reqs[0]], [3, reqs[1]]], reqs, None
    if k == "half":
        return [[0, _get("/fast", ci)[:24]]], [], None
    if k in ("sleep", "gone"):
        r = _get("/sleep/%d" % c["ms"], ci)
        return [[0, r]], [r], None
    if k == "stream":
        r = _get("/stream/%d/%d" % (c["n"], c["gap"]), ci)
        return [[0, r]], [r], None
    if k == "body":
        head = b"POST /read HTTP/1.1\r\nHost: h.test\r\nX-Conn: %d\r\nContent-Length: 10\r\n\r\n" % ci
        pieces = [[0, head + b"abc"]]
        if c.get("rest") is not None:
            pieces.append([c["rest"], b"defghij"])
        return pieces, [head], None
    if k == "pipe":
        r1, r2 = _get("/sleep/%d" % c["ms"], ci), _get("/fast", ci)
        return [[0, r1 + r2]], [r1, r2], None
    if k in ("ws", "ws_mute"):
        r = WS_REQ % ci
        return [[0, r]], [r], "reply" if k == "ws" else "mute"
    raise AssertionError(k)


def _run_part2(scn, ch, log):
    from aiohttp import web

    entry = scn["entry"]
    T = scn["T"]
    if scn.get("zero_tape"):
        ch = Choices(tape=[])  # enumerated placements: the run is a function of the scenario alone
    viols: list = []
    seen_v: set = set()

    def violate(inv, key, msg):
        if (inv, key) not in seen_v:
            seen_v.add((inv, key))
            viols.append({"invariant": inv, "key": key, "message": msg})

    with World(ch, 0, log_events=log) as w:
        loop, net = w.loop, w.net
        net.max_latency_ticks = scn["lat"]
        net.default_policy = scn["policy"]
        st: dict = {"triggered": False, "marker": None, "hooks_done": None, "returned": False, "ctx": []}
        recs: list = []  # handler invocations
        conns: dict = {}  # conn index -> meta
        by_tr: dict = {}
        websockets: list = []
        late: dict = {}

        # ------------------------------------------------------------ server
        @web.middleware
        async def mw(request, handler):
            ci = int(request.headers.get("X-Conn", "-1"))
            rec = {"conn": ci, "path": request.path, "t0": loop.time(), "s0": loop.steps, "t1": None, "s1": None, "out": None,
                   "j": sum(1 for r in recs if r["conn"] == ci)}
            recs.append(rec)
            loop.note("h_start", f"{ci}:{request.path}")
            try:
                resp = await handler(request)
                rec["out"] = "returned"
                return resp
            except asyncio.CancelledError:
                rec["out"] = "cancelled"
                raise
            except BaseException as e:
                rec["out"] = "exc:" + type(e).__name__
                raise
            finally:
                rec["t1"], rec["s1"] = loop.time(), loop.steps
                loop.note("h_end", f"{ci}:{rec['out']}")

        async def fast(request):
            return web.Response(text="ok")

        async def sleep(request):
            ms = int(request.match_info["ms"])
            if ms < 0:
                await loop.create_future()
            await asyncio.sleep(ms * TICK)
            return web.Response(text="slept")

        async def stream(request):
            n, gap = int(request.match_info["n"]), int(request.match_info["gap"])
            resp = web.StreamResponse()
            await resp.prepare(request)
            for i in range(n):
                await resp.write(b"chunk%03d;" % i)
                await asyncio.sleep(gap * TICK)
            await resp.write_eof()
            return resp

        async def read(request):
            body = await request.read()
            return web.Response(text="got%d" % len(body))

        async def ws_handler(request):
            ws = web.WebSocketResponse(timeout=0.03)
            await ws.prepare(request)
            websockets.append(ws)
            try:
                async for _msg in ws:
                    pass
            finally:
                websockets.remove(ws)
            return ws

        async def ctx(app):
            st["ctx"].append(("started", loop.time()))
            yield
            st["ctx"].append(("exit", loop.time(), sorted({r["conn"] for r in recs if r["t1"] is None})))

        async def sd_first(app):
            snap = {}
            for ci, m in conns.items():
                cl, ctr, str_ = m["cl"], m["ctr"], m["str"]
                mine = [r for r in recs if r["conn"] == ci]
                running = sum(1 for r in mine if r["t1"] is None)
                all_sent = cl.done_sending and ctr.out.delivered == ctr.out.written
                resps, rest = http1.split_responses(bytes(cl.received), methods=[b"GET"] * 8, closed=False)
                flushed = str_.out.delivered == str_.out.written
                idle = (bool(m["reqs"]) and m["ws"] is None and m["kind"] in ("idle", "idle2") and all_sent and running == 0
                        and len(mine) == len(m["reqs"]) and flushed and rest == "clean"
                        and len([r for r in resps if r["complete"]]) == len(m["reqs"]) and not str_._closing)
                # established (connection_made delivered) and no byte of a request has ever reached the server
                unused = (m["made_step"] is not None and not str_.recv_log and not (str_._closing or str_._closed)
                          and not (ctr._closing or ctr._closed))
                snap[ci] = {"idle": idle, "running": running, "closing": str_._closing or str_._closed, "unused": unused}
            st["marker"] = {"t": loop.time(), "step": loop.steps, "snap": snap,
                            "listening": ADDR in net.listeners}
            loop.note("marker", "on_shutdown")

        async def sd_close_ws(app):
            for ws in list(websockets):
                await ws.close(code=1001, message=b"Server shutdown")

        async def sd_slow(app):
            await asyncio.sleep(int(scn["on_shutdown"].split(":")[1]) * TICK)

        cc = scn.get("cancel_cleanup") if entry == "runner" else None

        def cancel_cleanup():
            t = box.get("cleanup_task")
            if t is None or t.done() or any(x[0] == "exit" for x in st["ctx"]):
                return  # nothing left to drain: the shutdown step is over
            st["cleanup_cancelled"] = {"t": loop.time(), "step": loop.steps,
                                       "running": sorted({r["conn"] for r in recs if r["t1"] is None})}
            loop.faults["cleanup_task_cancelled_while_draining"] += 1
            loop.note("cancel", "cleanup_task")
            t.cancel()

        async def sd_last(app):
            st["hooks_done"] = loop.time()
            if cc is not None:
                handles.append(loop.sim_call_later(cc["after_ms"] * TICK + 0.0003, cancel_cleanup))

        app = web.Application(middlewares=[mw])
        app.router.add_get("/fast", fast)
        app.router.add_get("/sleep/{ms}", sleep)
        app.router.add_get("/stream/{n}/{gap}", stream)
        app.router.add_post("/read", read)
        app.router.add_get("/ws", ws_handler)
        app.cleanup_ctx.append(ctx)
        app.on_shutdown.append(sd_first)
        if scn["on_shutdown"] == "close_ws":
            app.on_shutdown.append(sd_close_ws)
        elif scn["on_shutdown"].startswith("slow"):
            app.on_shutdown.append(sd_slow)
        app.on_shutdown.append(sd_last)

        # ------------------------------------------------------------ network observation
        def on_connect(ctr, str_):
            m = {"close_t": None, "close_step": None}
            by_tr[str_.name] = m
            str_.recv_log = []
            for name in ("close", "abort"):
                orig = getattr(str_, name)

                def wrapped(orig=orig, m=m):
                    if m["close_t"] is None:
                        m["close_t"], m["close_step"] = loop.time(), loop.steps
                    return orig()
                setattr(str_, name, wrapped)

        net.on_connect = on_connect

        # ------------------------------------------------------------ clients
        def connect(ci, c):
            pieces, reqs, wsmode = _script(c, ci)
            cl = _Client(loop, pieces, ws=wsmode)
            try:
                ctr, str_ = net.connect_raw(ADDR, cl)
            except ConnectionRefusedError:
                conns[ci] = None
                return
            conns[ci] = {"cl": cl, "ctr": ctr, "str": str_, "reqs": reqs, "ws": wsmode, "kind": c["kind"],
                         "obs": by_tr[str_.name], "t_conn": loop.time(), "late": False, "gone": False,
                         "made_step": loop.steps}
            if st.get("first_client_step") is None:
                st["first_client_step"] = loop.steps
            if c["kind"] == "gone":
                def abort(ctr=ctr, m=conns[ci]):
                    if not ctr._closed:
                        loop.faults["client_gone_" + c.get("how", "reset")] += 1
                        m["gone"] = True
                        net.kill(ctr, c.get("how", "reset"))
                loop.sim_call_later(c["abort"] * TICK, abort)

        for ci, c in enumerate(scn["conns"]):
            loop.sim_call_later(c["t"] * TICK, connect, ci, c)

        def late_connect():
            loop.faults["late_connect"] += 1
            late["conn"] = {"t": loop.time(), "step": loop.steps, "listening": ADDR in net.listeners}
            ci = 90
            cl = _Client(loop, [[0, _get("/fast", ci)]])
            try:
                ctr, str_ = net.connect_raw(ADDR, cl)
            except ConnectionRefusedError:
                late["conn"]["accepted"] = False
                return
            late["conn"]["accepted"] = True
            conns[ci] = {"cl": cl, "ctr": ctr, "str": str_, "reqs": [_get("/fast", ci)], "ws": None, "kind": "late",
                         "obs": by_tr[str_.name], "t_conn": loop.time(), "late": True, "gone": False,
                         "made_step": loop.steps}

        arace = scn.get("accept_race")

        def race_connect():
            """The listening socket accepts a TCP connection now; the server protocol's connection_made() follows
            `lag` loop iterations later (0: at once, like the other scripted clients).  The client sends nothing."""
            ci = 91
            srv = net.find_listener(ADDR)
            late["race"] = {"t": loop.time(), "step": loop.steps, "accepted": srv is not None}
            if srv is None:
                conns[ci] = None
                return
            loop.faults["accepted_at_shutdown_instant"] += 1
            cl = _Client(loop, [])
            ctr, str_ = net.make_pair(ADDR, server_ssl=srv.ssl)
            sproto = srv.factory()
            ctr.protocol, str_.protocol, str_.server = cl, sproto, srv
            srv.transports.append(str_)
            net.on_connect(ctr, str_)
            net.hold(str_.inp)  # nothing is read from a socket before its transport exists
            m = conns[ci] = {"cl": cl, "ctr": ctr, "str": str_, "reqs": [], "ws": None, "kind": "accepted_at_shutdown",
                             "obs": by_tr[str_.name], "t_conn": loop.time(), "late": False, "gone": False,
                             "made_step": None}
            cl.connection_made(ctr)
            loop.note("accepted", str_.name)

            def hop(n):
                if n > 0:
                    loop.call_soon(hop, n - 1)
                    return
                m["made_step"] = loop.steps
                loop.note("made", str_.name)
                sproto.connection_made(str_)
                net.release(str_.inp)

            hop(arace["lag"])

        def late_request():
            ci = scn["late_req"][0]
            m = conns.get(ci)
            if m is None or m["ctr"].is_closing() or m["ws"] or m["kind"] in ("half", "body"):
                return
            loop.faults["late_request"] += 1
            r = _get("/fast", ci)
            m["reqs"] = m["reqs"] + [r]
            m["late_req_at"] = {"t": loop.time(), "step": loop.steps}
            m["ctr"].write(r)

        # ------------------------------------------------------------ shutdown trigger
        done_fut = loop.create_future()
        box: dict = {}

        def snapshot():
            st["t_return"] = loop.time()
            st["at_return"] = {
                "open": sorted(ci for ci, m in conns.items() if m and not (m["str"]._closing or m["str"]._closed)),
                "running": sorted({r["conn"] for r in recs if r["t1"] is None}),
                "alive_tasks": _alive_handler_tasks(loop),
                "listening": ADDR in net.listeners,
            }

        async def do_cleanup():
            try:
                await box["runner"].cleanup()
            except Exception as e:
                st["cleanup_exc"] = e
            except asyncio.CancelledError:
                if not st.get("cleanup_cancelled"):
                    raise
                st["cleanup_cancelled"]["raised"] = True
            finally:
                st["returned"] = True
                snapshot()
                if not done_fut.done():
                    done_fut.set_result(None)

        def trigger(why):
            if st["triggered"]:
                return
            can_fire = "runner" in box if entry == "runner" else int(signal.SIGTERM) in loop.signal_handlers
            if arace is not None and arace["order"] == "before" and can_fire:
                race_connect()
            if entry == "runner":
                if "runner" not in box:
                    return
                box["cleanup_task"] = loop.create_task(do_cleanup(), name="cleanup")
            elif not loop.deliver_signal(signal.SIGTERM):
                return
            st["triggered"] = True
            if arace is not None and arace["order"] != "before":
                race_connect()
            st["trigger"] = {"t": loop.time(), "step": loop.steps, "why": why}
            loop.faults["shutdown_" + why] += 1
            loop.note("trigger", why)
            if scn.get("late_conn") is not None:
                loop.sim_call_later(scn["late_conn"] * TICK, late_connect)
            if scn.get("late_req") is not None:
                loop.sim_call_later(scn["late_req"][1] * TICK, late_request)

        sd = scn["shutdown"]
        handles = []
        if sd.get("step") is not None:
            loop.at_step.setdefault(sd["step"], []).append(lambda: trigger("step"))
        elif sd.get("t") is not None:
            handles.append(loop.sim_call_later(sd["t"] * TICK + 0.0005, trigger, "time"))
        handles.append(loop.sim_call_later(scn["horizon"] * TICK + 0.0007, trigger, "horizon"))
        slow_ms = int(scn["on_shutdown"].split(":")[1]) if scn["on_shutdown"].startswith("slow") else 0
        cap = (scn["horizon"] + slow_ms) * TICK + 2 * T + 4.0 + 0.1 * len(scn["conns"])
        kw = dict(shutdown_timeout=T, handler_cancellation=scn["hc"], keepalive_timeout=75.0)

        if entry == "runner":
            async def start():
                runner = web.AppRunner(app, access_log=None, **kw)
                await runner.setup()
                await web.TCPSite(runner, ADDR[0], ADDR[1]).start()
                box["runner"] = runner

            loop.run_sim(start(), vt_cap=1.0).result()
            loop.run_sim(done_fut, vt_cap=cap, step_cap=400_000)
        else:
            st["handles"] = handles
            loop.vt_cap, loop.step_cap = cap, 400_000
            rst: dict = {"handles": handles}
            _run_app_guarded(loop, app, rst, **kw)
            st["returned"] = bool(rst.get("returned"))
            st["loop_closed"] = rst.get("loop_closed")
            if "raised" in rst and rst.get("returned"):
                st["cleanup_exc"] = rst["raised"]
            if rst.get("stopped_early"):
                st["loop_closed"] = True  # reported through cleanup_exc (RuntimeError) already
            if st["returned"]:
                snapshot()
        for h in handles:
            h.cancel()
        t_ret = loop.time()
        # let closes reach the clients; nothing new may happen on the server side
        loop.run_sim(None, vt_cap=t_ret + 0.05 + 4 * scn["lat"] * TICK, step_cap=loop.steps + 50_000)

        # ------------------------------------------------------------ judge
        base_info = {"first_client_step": st.get("first_client_step") or 1,
                     "trigger_step": (st.get("trigger") or {}).get("step") or loop.steps}
        mk = st["marker"]
        names = {ci: (m["kind"] if m else "refused") for ci, m in conns.items()}

        def made_late(ci):
            """accepted by the listening socket before it was closed, connection_made() delivered only after
            on_shutdown had begun (or never)"""
            m = conns.get(ci)
            return bool(m and mk and (m["made_step"] is None or m["made_step"] > mk["step"]))

        def judge_unused(eps=1e-6):
            # a connection that was established when on_shutdown began and had never carried a byte is idle:
            # closed at once (same latitude as for idle keep-alive connections: by the time on_shutdown is delivered)
            for ci, sn in mk["snap"].items():
                if not sn.get("unused"):
                    continue
                ct = conns[ci]["obs"]["close_t"]
                if ct is None or ct > st["hooks_done"] + eps:
                    violate("idle_closed_at_once", f"{entry}:never_used_connection_closed_late",
                            f"connection {ci} ({names[ci]}) was established (connection_made at step "
                            f"{conns[ci]['made_step']}) and had not sent a byte when on_shutdown began "
                            f"(t={mk['t']:.4f}, step {mk['step']}) but its transport was closed at {ct} (on_shutdown "
                            f"delivered by {st['hooks_done']:.4f}, timeout {T}); {ctxd}")
        ctxd = f"scene={scn.get('scene')} T={T} entry={entry} trigger={st.get('trigger')} marker=" \
               f"{None if mk is None else (round(mk['t'], 4), mk['step'])} hooks_done={st['hooks_done']} " \
               f"returned_at={st.get('t_return')} conns={names}"
        if "cleanup_exc" in st:
            e = st["cleanup_exc"]
            violate("returns", f"{entry}:cleanup_raised:{type(e).__name__}", f"shutdown raised {e!r}; {ctxd}")
        if not st["triggered"]:
            violate("returns", f"{entry}:never_triggered", f"harness: shutdown never fired; {ctxd}")
        elif not st["returned"]:
            violate("returns", f"{entry}:shutdown_blocked",
                    f"shutdown did not return within {cap:.2f} virtual seconds; still running handlers on "
                    f"{sorted({r['conn'] for r in recs if r['t1'] is None})}; {ctxd}")
        elif mk is None or st["hooks_done"] is None:
            violate("returns", f"{entry}:on_shutdown_not_delivered", f"on_shutdown handlers did not run; {ctxd}")
        elif st.get("cleanup_cancelled"):
            # The caller stopped waiting: cleanup() did not return, so the clauses about the state "when cleanup
            # returns" and the two timeout periods say nothing here.  What the statement still demands: the shutdown
            # step ended by a failure (CancelledError) like any other failing cleanup step, so the cleanup code of
            # every context that started runs, once; and what had to happen before the cancellation did happen.
            cx = st["cleanup_cancelled"]
            ctxd += f" cleanup_task_cancelled_at={cx['t']:.4f} (step {cx['step']}, handlers running on {cx['running']})"
            ex = [x for x in st["ctx"] if x[0] == "exit"]
            if len(ex) != 1:
                violate("cleanup_iff_started", f"{entry}:part2_ctx_exits:{len(ex)}:caller_cancelled_while_draining",
                        f"the task awaiting cleanup() was cancelled while the server was draining requests in flight and "
                        f"the cleanup code of the started context ran {len(ex)} times; {ctxd}")
            if mk["listening"] or ADDR in net.listeners:
                violate("no_new_connection", f"{entry}:still_listening",
                        f"listener still registered (at on_shutdown: {mk['listening']}); {ctxd}")
            for ci, sn in mk["snap"].items():
                ct = conns[ci]["obs"]["close_t"]
                if sn["idle"] and (ct is None or ct > st["hooks_done"] + 1e-6):
                    violate("idle_closed_at_once", f"{entry}:idle_keepalive_closed_late",
                            f"connection {ci} was idle keep-alive at on_shutdown (t={mk['t']:.4f}) but its transport was "
                            f"closed at {ct} (on_shutdown delivered by {st['hooks_done']:.4f}, timeout {T}); {ctxd}")
            judge_unused()
        else:
            b = L.shutdown_bounds(st["hooks_done"], T)
            eps = 1e-6
            ar = st["at_return"]
            # every server-side transport closed, no handler alive, listener gone
            if ar["open"]:
                kinds = sorted({"connection_made_after_on_shutdown_began" if made_late(ci) else names[ci] for ci in ar["open"]})
                violate("all_closed_on_return", f"{entry}:open_transport:{'+'.join(kinds)}",
                        f"server-side transports of connections {ar['open']} still open when shutdown returned; {ctxd}")
            if ar["running"] or ar["alive_tasks"]:
                gone = sorted({("client_gone" if conns[ci] and conns[ci]["gone"] else "client_connected") for ci in ar["running"]})
                if not gone and ar["alive_tasks"] <= sum(1 for ci in ar["open"] if made_late(ci)):
                    # only the connection tasks of connections that were never shut down (see all_closed_on_return)
                    gone = ["connection_made_after_on_shutdown_began"]
                violate("no_handler_alive_on_return", f"{entry}:handler_alive:{'+'.join(gone) or 'task_only'}",
                        f"request handlers of connections {ar['running']} still running ({ar['alive_tasks']} "
                        f"RequestHandler tasks alive) when shutdown returned; {ctxd}")
            if ar["listening"] or mk["listening"]:
                violate("no_new_connection", f"{entry}:still_listening",
                        f"listener still registered (at on_shutdown: {mk['listening']}, at return: {ar['listening']}); {ctxd}")
            lc = late.get("conn")
            if lc is not None and lc.get("accepted") and lc["step"] > mk["step"]:
                violate("no_new_connection", f"{entry}:accepted_after_on_shutdown",
                        f"a connection attempted at t={lc['t']:.4f} (step {lc['step']}) after on_shutdown was accepted; {ctxd}")
            # no new request handled
            for r in recs:
                if r["s0"] <= mk["step"]:
                    continue
                m = conns.get(r["conn"])
                if m is None:
                    continue
                need = sum(len(x) for x in m["reqs"][: r["j"] + 1])
                got, at = 0, None
                for s, chunk in m["str"].recv_log:
                    got += len(chunk)
                    if got >= need:
                        at = s
                        break
                if at is None or at > mk["step"]:
                    violate("no_new_request", f"{entry}:handled_after_on_shutdown:{m['kind']}",
                            f"request #{r['j']} of connection {r['conn']} ({r['path']}) was delivered at step {at} and "
                            f"handled at step {r['s0']}, both after on_shutdown (step {mk['step']}); {ctxd}")
            # ... nor a request that was queued behind one in flight: once a request of a connection has ended after
            # on_shutdown, that connection must not start handling another one, whenever its bytes arrived
            for r in recs:
                m = conns.get(r["conn"])
                if m is None or r["s0"] <= mk["step"] or r["j"] < 1:
                    continue
                prev = [p for p in recs if p["conn"] == r["conn"] and p["j"] == r["j"] - 1]
                if prev and prev[0]["s1"] is not None and prev[0]["s1"] > mk["step"]:
                    was = "in_flight" if prev[0]["s0"] <= mk["step"] else "started_late"
                    violate("no_new_request", f"{entry}:next_request_handled_after_on_shutdown:{was}:{m['kind']}",
                            f"connection {r['conn']}: request #{r['j'] - 1} ({prev[0]['path']}) ended at step {prev[0]['s1']} "
                            f"(t={prev[0]['t1']:.4f}), after on_shutdown (step {mk['step']}), and the connection then went on "
                            f"to handle request #{r['j']} ({r['path']}) at step {r['s0']} (t={r['t0']:.4f}); {ctxd}")
            # idle keep-alive connections closed at once
            for ci, sn in mk["snap"].items():
                if not sn["idle"]:
                    continue
                ct = conns[ci]["obs"]["close_t"]
                if ct is None or ct > st["hooks_done"] + eps:
                    violate("idle_closed_at_once", f"{entry}:idle_keepalive_closed_late",
                            f"connection {ci} was idle keep-alive at on_shutdown (t={mk['t']:.4f}) but its transport was "
                            f"closed at {ct} (on_shutdown delivered by {st['hooks_done']:.4f}, timeout {T}); {ctxd}")
            judge_unused(eps)
            # ... and so are connections that become idle while the shutdown is going on: the request that was in
            # flight returned normally after on_shutdown began -> its connection is closed at that instant (at the
            # latest when on_shutdown has been delivered, the same latitude as for connections idle from the start)
            for r in recs:
                m = conns.get(r["conn"])
                if m is None or m["gone"] or m["ws"] or r["out"] != "returned" or r["s1"] <= mk["step"]:
                    continue
                if any(p["conn"] == r["conn"] and p["j"] > r["j"] for p in recs):
                    continue  # judged on the last request the connection handled
                ct = m["obs"]["close_t"]
                due = max(r["t1"], st["hooks_done"])
                if ct is None or ct > due + eps:
                    when = "during_on_shutdown" if r["t1"] <= st["hooks_done"] + eps else "during_grace"
                    violate("idle_closed_at_once", f"{entry}:idle_after_inflight_closed_late:{when}",
                            f"connection {r['conn']} ({m['kind']}): its request {r['path']} was being handled during shutdown "
                            f"and returned at t={r['t1']:.4f} (step {r['s1']}), leaving the connection idle, but the transport "
                            f"was closed at {ct} (on_shutdown began {mk['t']:.4f}, delivered by {st['hooks_done']:.4f}, "
                            f"timeout {T}); {ctxd}")
            # handlers: grace period honoured, cancel deadline, responses
            for r in recs:
                m = conns.get(r["conn"])
                gone = bool(m and m["gone"])
                if r["out"] == "cancelled" and r["t1"] < b["grace_min"] - eps and not gone:
                    violate("grace_period_honoured", f"{entry}:cancelled_early:{r['path'].split('/')[1]}",
                            f"handler {r['path']} of connection {r['conn']} was cancelled at {r['t1']:.4f}, before the "
                            f"graceful period ended ({b['grace_min']:.4f}); {ctxd}")
                if r["t1"] is None or r["t1"] > b["cancel_by"] + eps:
                    violate("cancel_deadline", f"{entry}:running_past_2x_timeout:{'client_gone' if gone else 'client_connected'}",
                            f"handler {r['path']} of connection {r['conn']} (started {r['t0']:.4f}) ended at {r['t1']} "
                            f"but everything must be cancelled by {b['cancel_by']:.4f}; {ctxd}")
            if st["t_return"] > b["cancel_by"] + 0.05 + eps:
                violate("cancel_deadline", f"{entry}:returned_late",
                        f"shutdown returned at {st['t_return']:.4f}, bound {b['cancel_by']:.4f}; {ctxd}")
            # cleanup context: exactly once, after every handler ended
            ex = [x for x in st["ctx"] if x[0] == "exit"]
            if len(ex) != 1:
                violate("cleanup_iff_started", f"{entry}:part2_ctx_exits:{len(ex)}", f"cleanup code ran {len(ex)} times; {ctxd}")
            elif ex[0][2]:
                gone = sorted({("client_gone" if conns.get(ci) and conns[ci]["gone"] else "client_connected") for ci in ex[0][2]})
                violate("cleanup_after_handlers", f"{entry}:handlers_running_at_cleanup:{'+'.join(gone)}",
                        f"request handlers of connections {ex[0][2]} were still running when cleanup code ran; {ctxd}")
            # responses
            for ci, m in conns.items():
                if m is None:
                    continue
                cl = m["cl"]
                mine = [r for r in recs if r["conn"] == ci]
                methods = [b"POST" if r["path"] == "/read" else b"GET" for r in mine]
                closed = cl.eof or cl.lost is not None
                resps, rest = http1.split_responses(bytes(cl.received), methods=methods, closed=closed)
                if isinstance(rest, tuple) and rest[0] == "malformed":
                    violate("well_formed_responses", f"{entry}:malformed:{m['kind']}",
                            f"output on connection {ci} is not a sequence of well-formed responses: {rest}; "
                            f"{bytes(cl.received[:160])!r}; {ctxd}")
                    continue
                if m["gone"]:
                    continue
                finals = [x for x in resps if not x.get("interim")]
                for r in mine:
                    if r["out"] == "returned" and r["t1"] < b["cancel_by"] - eps and r["path"] != "/ws":
                        if len(finals) <= r["j"] or not finals[r["j"]]["complete"]:
                            violate("inflight_response_complete", f"{entry}:truncated:{r['path'].split('/')[1]}",
                                    f"handler {r['path']} of connection {ci} returned normally at {r['t1']:.4f} but the "
                                    f"client did not get a complete response (got {len(finals)} responses, rest={rest}); "
                                    f"{bytes(cl.received[-120:])!r}; {ctxd}")
                if len(finals) > len(mine):
                    violate("well_formed_responses", f"{entry}:more_responses_than_requests:{m['kind']}",
                            f"connection {ci}: {len(finals)} responses for {len(mine)} handled requests; {ctxd}")
                if not closed:
                    kind = "connection_made_after_on_shutdown_began" if made_late(ci) else m["kind"]
                    violate("all_closed_on_return", f"{entry}:client_saw_no_close:{kind}",
                            f"client of connection {ci} saw neither EOF nor connection loss after shutdown returned; {ctxd}")
        for c in loop.exc_contexts:
            violate("loop_exception", f"{entry}:{c['exc_type']}@{c.get('frame')}",
                    f"exception reached the event loop: {c['message']} {c['exc']}; {ctxd}")
            break
        for name, msg_, et, exs in net.fatal_errors:
            violate("loop_exception", f"{entry}:fatal:{et}", f"fatal protocol error on {name}: {msg_} {exs}; {ctxd}")
            break
        if entry == "run_app" and st["returned"] and not st.get("loop_closed"):
            violate("returns", "run_app:loop_not_closed", "run_app returned without closing the loop it was given")

        snap = mk["snap"] if mk else {}
        n_run = sum(1 for s in snap.values() if s["running"])
        n_idle = sum(1 for ci, s in snap.items() if s["idle"] or (conns.get(ci) and conns[ci]["kind"] in ("half", "fresh") and not s["closing"]))
        hd = st["hooks_done"]
        bb = L.shutdown_bounds(hd, T) if hd is not None else None
        probes = {
            "p2_runs": 1, "p2_" + entry: 1,
            "p2_handler_running_at_shutdown": int(n_run > 0), "p2_idle_at_shutdown": int(any(s["idle"] for s in snap.values())),
            "p2_handler_completed_in_grace": int(bb is not None and any(r["out"] == "returned" and r["t1"] is not None and mk["t"] < r["t1"] for r in recs)),
            "p2_handler_cancelled": int(any(r["out"] == "cancelled" for r in recs)),
            "p2_cancelled_at_2T": int(bb is not None and any(r["out"] == "cancelled" and r["t1"] >= bb["cancel_by"] - 1e-6 for r in recs)),
            "p2_payload_cancelled_at_T": int(bb is not None and any(r["out"] == "cancelled" and r["path"] == "/read" for r in recs)),
            "p2_inflight_completed_during_on_shutdown": int(hd is not None and any(
                r["out"] == "returned" and r["s0"] <= mk["step"] < r["s1"] and r["t1"] < hd - 1e-6 for r in recs)),
            "p2_request_queued_behind_inflight_at_shutdown": int(hd is not None and any(
                m and m["kind"] == "pipe" and any(r["conn"] == ci and r["j"] == 0 and r["s0"] <= mk["step"]
                                                  and (r["s1"] is None or r["s1"] > mk["step"]) for r in recs)
                for ci, m in conns.items())),
            "p2_late_request_after_inflight_ended_in_window": int(hd is not None and any(
                m and "late_req_at" in m and m["late_req_at"]["t"] < hd and any(
                    r["conn"] == ci and r["s0"] <= mk["step"] and r["s1"] is not None
                    and mk["step"] < r["s1"] <= m["late_req_at"]["step"] for r in recs) for ci, m in conns.items())),
            "p2_ws_open_at_shutdown": int(any(conns.get(ci) and conns[ci]["ws"] and s["running"] for ci, s in snap.items())),
            "p2_ws_close_frame_1001": int(any(m and m["cl"].ws_close_code == 1001 for m in conns.values())),
            "p2_late_conn_refused": int(late.get("conn", {}).get("accepted") is False),
            "p2_late_conn_accepted_before_stop": int(bool(late.get("conn", {}).get("accepted"))),
            "p2_late_request_sent": int(any(m and "late_req_at" in m for m in conns.values())),
            "p2_stream_truncated": int(any(m and m["kind"] == "stream" and any(r["out"] == "cancelled" for r in recs if r["conn"] == ci) for ci, m in conns.items())),
            "p2_accepted_at_shutdown_instant": int(bool(late.get("race", {}).get("accepted"))),
            "p2_accepted_at_shutdown_made_before_on_shutdown": int(bool(conns.get(91)) and not made_late(91)),
            "p2_accepted_at_shutdown_made_after_on_shutdown": int(bool(conns.get(91)) and made_late(91)),
            "p2_never_used_connection_at_on_shutdown": int(any(sn.get("unused") for sn in snap.values())),
            "p2_cleanup_task_cancelled_while_draining": int(bool(st.get("cleanup_cancelled"))),
            "p2_cleanup_task_cancelled_in_grace_period": int(bool(st.get("cleanup_cancelled")) and bb is not None
                                                             and st["cleanup_cancelled"]["t"] < bb["grace_min"]),
            "p2_ceil_rounding": int(bb is not None and bb["grace_end"] > bb["grace_min"] + 1e-9),
            "p2_step_placement_beyond_run_fallback_horizon": int((st.get("trigger") or {}).get("why") == "horizon" and sd.get("step") is not None),
        }
        stt = w.stats()
        kinds_s = "".join(sorted(c["kind"][0] + c["kind"][-1] for c in scn["conns"]))
        res = {"violations": viols, "nontrivial": bool(n_run >= 1 and n_idle >= 1), "sig": stt["sig"], "digest": stt["digest"],
               "steps": stt["steps"], "vtime": stt["vtime"], "faults": stt["faults"],
               "probes": {k: v for k, v in probes.items() if v},
               "shape": f"P2-{entry}-{scn.get('scene')}-T{T}-{scn['on_shutdown'].split(':')[0]}-{kinds_s}",
               "base_info": base_info}
        if log:
            res["event_log"] = loop.event_log
            res["debug"] = {"recs": recs, "ctx": ctxd, "late": late,
                            "close_t": {ci: m["obs"]["close_t"] for ci, m in conns.items() if m}}
        return res
