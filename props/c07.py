"""C07 - connection pool: limits hold, nothing leaks, no waiter is forgotten.

World C: a real ClientSession/TCPConnector against trivial scripted raw servers.
The harness counts, at the instant it happens, every Connection handed out and
not yet released/closed (through a Connection subclass rebound into
aiohttp.connector) and every connection attempt in progress (through the
documented extension point _create_connection).  DESIGN.md section 9, C07.

Some runs send their requests through a scripted HTTP proxy (plain forwarding and CONNECT tunnels followed by a
pass-through TLS upgrade); the rules are the same: nothing the connector opened may stay open outside pool and in-use set
once the attempt that opened it has ended, and close() closes all of it.
"""
from __future__ import annotations

import asyncio

from sim.net import SimResolver
from sim.peers import RawServerConn, parse_simple_request
from sim.world import World

PROP = "C07"
LEVEL = "exploration"
DESIGN_REF = "9/C07"
BUDGET = {"quick": 60, "thorough": 900}
BATCH = 150
TECHNIQUE = ("deterministic simulation: N client tasks against scripted servers on a virtual-time loop; seeded connect/DNS "
             "outcomes, task cancellation and connector.close() before arbitrary steps; harness-side pool accounting "
             "checked after every loop step and at quiescence")
LEVEL_TEXT = (
    "Seeded exploration of interleavings of N<=8 tasks (1-3 requests each) to H<=3 hosts under (limit, limit_per_host) in {0..3}x{0..2}, "
    "where each connection attempt may succeed, fail, stall or be delayed, tasks are cancelled and the connector is "
    "closed before seeded loop steps. After every step: connections handed out + attempts in progress <= limit (and per "
    "host); at quiescence: no task waits for a slot while capacity is free, nothing stays counted after all tasks ended, "
    "close() closes every transport and fails every request queued for a slot at that instant (none of them goes on to "
    "connect on the closed connector or stays blocked). Sampling, not proof."
)
LEVEL_NOTE = (
    "Trusted: the harness' own counters (Connection subclass + _create_connection wrapper), SimNet. The connector's own "
    "sets (_acquired, _acquired_per_host, _waiters) are consulted only as a white-box cross-check and reported as such. "
    "FIFO order of call_soon callbacks is kept (documented asyncio behaviour); the waiter queue shuffle is seeded."
)
RULE = (
    "Run = N in 1..8 tasks x H in 1..3 hosts x limit in {0,1,2,3} x limit_per_host in {0,1,2} x force_close / keep-alive; "
    "each task: start delay, host, server behaviour (fast / slow body / never answers / closes / Connection: close), hold "
    "time, then read/release/close, optional per-request total timeout; faults: connect outcome per attempt (ok, refuse, "
    "OSError, stall, delay), DNS failure/stall, cancel(task) before step k, connector.close() before step k. "
    "12 % of runs route requests through an HTTP proxy: http:// targets in absolute form, https:// targets through a CONNECT "
    "tunnel the proxy opens, opens late, refuses (403/407/502, with or without closing), drops or never answers, followed by "
    "a TLS upgrade that succeeds, fails or stalls. "
    "12 % of runs aim the close at a state: d ms after at least k requests are queued for a slot; a scheduled close goes through "
    "connector.close() or (30 %) through close() of the session owning the connector, and in 35 % of the runs with a close every "
    "connection attempt / name lookup that starts after it gets its own outcome (ok, refused, stalls for ever). "
    "15 % of runs have worker loops: a task goes on to 1-2 further requests in the very loop step in which it let go of its "
    "previous connection (half of them let go of a response that is still arriving, so the connection cannot be pooled) and "
    "may, just before or after letting go, cancel one or all of the requests queued for a slot at that moment - release, waiter "
    "cancellation and a new arrival for the same endpoint inside one loop step. "
    "Non-trivial: at least one task had to wait for a slot. Distinct = interleaving signature."
)
COMPONENTS = {
    "real": ["connector.BaseConnector/TCPConnector (pool, waiters, limits)", "client.ClientSession", "client_reqrep", "client_proto",
             "helpers timeouts"],
    "stub": ["network (SimNet)", "DNS (SimResolver)", "happy-eyeballs (single attempt)", "servers and proxy (scripted raw)",
             "TLS (loop.start_tls replaced by a pass-through that hands the transport to the new protocol, or fails/stalls "
             "and then closes the transport as asyncio's start_tls does)"],
}
ASSUMPTIONS = [
    "'in use' = a Connection object handed out and not yet released or closed; 'being established' = inside _create_connection",
    "liveness is judged only after faults stop and only in runs without client timeouts for the waiting task",
    "'waiter' for the close clause = a request whose future is queued (not completed) in the connector at the instant close() "
    "runs; 'failed' = its task ended with an exception or cancellation within 5 virtual seconds without having started a "
    "connection attempt or been handed a connection after the close. Requests inside the waiting routine whose wake-up was "
    "issued before the close are not waiters (counted, not identified: in-routine minus queued of them may go on)",
    "'endpoint' for limit_per_host = host, port, scheme and route (direct or via the proxy), i.e. what the pool is keyed by; "
    "a tunnel being set up through the proxy counts as a connection being established to the https endpoint",
]

HOSTS = [("h0.test", "10.0.1.1"), ("h1.test", "10.0.1.2"), ("h2.test", "10.0.1.3")]
PROXY = ("p.test", "10.0.1.9", 3128)
PROXY_URL = f"http://{PROXY[0]}:{PROXY[2]}"


def endpoint(host, port, is_ssl, proxied):
    """The endpoint limit_per_host is counted for: host, port, scheme and route (direct or through the proxy) - what
    the connector keys its pool by.  A direct plain-http endpoint keeps the bare host name."""
    if port in (80, None) and not is_ssl and not proxied:
        return host
    return f"{host}:{port}{'+tls' if is_ssl else ''}{'@proxy' if proxied else ''}"


def endpoint_of_key(key):
    return endpoint(key.host, key.port, key.is_ssl, key.proxy is not None)


def endpoint_of_task(spec):
    via = spec.get("via")
    host = HOSTS[spec["host"]][0]
    if via == "https":
        return endpoint(host, 443, True, True)
    return endpoint(host, 80, False, via == "http")


def gen(rng, tier, index):
    n = rng.randint(1, 8)
    nh = rng.randint(1, 3)
    tasks = []
    for i in range(n):
        beh = rng.choice(["fast", "fast", "slow:5", "slow:40", "never", "close", "connclose", "slow:5"])
        tasks.append({
            "delay": rng.choice([0, 0, 0, 1, 2, 5, 10]), "host": rng.randrange(nh), "beh": beh,
            "hold": rng.choice([0, 0, 1, 5, 20]), "after": rng.choice(["read", "read", "release", "close"]),
            "total": rng.choice([None, None, None, 0.03, 0.2]) if beh != "never" else rng.choice([None, 0.03, 0.2]),
        })
    ncancel = rng.choice([0, 0, 1, 2, 3])
    cancels = [[rng.randrange(n), rng.randint(2, 120)] for _ in range(ncancel)]
    connect = []
    for _ in range(rng.choice([0, 0, 2, 6])):
        connect.append([rng.choice(["ok", "ok", "refuse", "oserror", "stall", "ok"]), rng.choice([0, 1, 3, 10])])
    dns = rng.choice([None, None, None, "fail_once", "stall_once", "slow"])
    scn = {
        "tasks": tasks, "nh": nh, "limit": rng.choice([0, 1, 1, 2, 3]), "lph": rng.choice([0, 0, 1, 2]),
        "force_close": rng.random() < 0.2, "cancels": cancels, "connect": connect, "dns": dns,
        "close_at": rng.choice([None, None, None, rng.randint(5, 150)]), "lat": rng.choice([0, 1, 2]),
        "keepalive": rng.choice([15.0, 0.01]),
        # tracing hooks that yield: the connector awaits them in the middle of its bookkeeping
        "trace": (None if rng.random() < 0.7 else
                  {k: rng.choice([0, 0, 1, 3]) for k in rng.sample(["reuseconn", "create_start", "create_end", "queued_start", "queued_end"],
                                                                   rng.randint(1, 3))}),
    }
    # Requests routed through an HTTP proxy (drawn last so that every other scenario keeps its shape): a plain
    # http:// target is sent to the proxy in absolute form on a connection pooled under the proxied key; an https://
    # target first needs a CONNECT tunnel on a fresh connection to the proxy and then a TLS upgrade of that very
    # transport - two more places where a connection attempt can fail, stall or be cancelled while the connector
    # holds a transport that is in neither of its sets.
    if rng.random() < 0.12:
        for t in tasks:
            t["via"] = rng.choice([None, "http", "https", "https", "https"])
        scn["proxy"] = {
            # what the proxy does with the k-th CONNECT it receives (later ones: 200)
            "connect": [rng.choice(CONNECT_ANSWERS) for _ in range(rng.choice([0, 1, 2, 4]))],
            # outcome of the k-th TLS upgrade (later ones: ok, no delay)
            "tls": [[rng.choice(["ok", "ok", "fail", "stall"]), rng.choice([0, 1, 3])] for _ in range(rng.choice([0, 0, 1, 3]))],
        }
    # close() aimed at a state instead of a blind step number (drawn after everything else): the connector is closed
    # `delay` ms after the moment at least `waiters` requests are queued for a slot - the state the clause "closing the
    # connector fails every waiter" speaks about.  A limit is needed for anybody to queue.
    if rng.random() < 0.12:
        scn["close_when"] = {"waiters": rng.choice([1, 1, 2]), "delay": rng.choice([0, 0, 1, 3])}
        if not scn["limit"] and not scn["lph"]:
            scn["limit"] = rng.choice([1, 1, 2])
    if scn["close_at"] is not None or scn.get("close_when"):
        # the other public way to close a connector: closing the session that owns it
        if rng.random() < 0.3:
            scn["close_via"] = "session"
        # what happens to connection attempts that *start* after the close (an unreachable peer, a slow name server):
        # nothing the close could have cancelled, so whoever is sent on to connect then is on his own
        if rng.random() < 0.35:
            scn["after_close"] = {"connect": [rng.choice(["ok", "stall", "refuse", "stall"]), rng.choice([0, 1, 5])],
                                  "dns": rng.choice(["ok", "ok", "stall"])}
    # Worker loops (drawn after everything else): a task does not end with its first request but goes straight on to
    # its next one - in the very loop step in which it let go of the previous connection - and may, just before or just
    # after letting go, cancel another task (a supervisor giving up a queued request).  Release, cancellation of a
    # waiter and a new arrival for the same endpoint then fall into ONE loop step, before the cancelled / woken waiter
    # has run again: the orders "any interleaving of acquisitions, releases, ... task cancellations" that separate
    # one-request tasks and cancels between steps do not produce.  A limit is needed for anybody to queue.
    if rng.random() < 0.15:
        for i, t in enumerate(tasks):
            if rng.random() < 0.6:
                t["then"] = [{"host": t["host"] if rng.random() < 0.75 else rng.randrange(nh),
                              "beh": rng.choice(["fast", "fast", "slow:5", "connclose", "never"]),
                              "hold": rng.choice([0, 0, 1, 5]), "after": rng.choice(["read", "release", "close"]),
                              "total": rng.choice([None, None, 0.2])} for _ in range(rng.choice([1, 1, 2]))]
                if rng.random() < 0.5:
                    # it lets go of a connection whose response is still arriving, which cannot go back to the pool:
                    # the freed slot is one for a new connection
                    t.update(beh=rng.choice(["slow:5", "slow:40", "slow:40"]), after=rng.choice(["release", "close"]),
                             hold=rng.choice([0, 1, 5]))
                if n > 1 and rng.random() < 0.5:
                    # whom it gives up: the k-th of the requests queued for a slot at that moment ("one") or all of
                    # them; task k if nobody is queued
                    t["kill"] = [rng.randrange(8), rng.choice(["before", "before", "after"]), rng.choice(["one", "one", "all"])]
        if not scn["limit"] and not scn["lph"]:
            scn["limit"] = rng.choice([1, 1, 2])
    return scn


def requests_of(spec):
    """The requests a task makes, in order: its own and the follow-ups of a worker loop (same route as the first)."""
    return [spec] + [dict(f, via=spec.get("via")) for f in spec.get("then") or []]


# CONNECT answers of the scripted proxy: "<status>" answers and keeps the connection open, "<status>close" answers and
# closes, "<status>body" answers with a body and keeps open, "close" closes without answering, "never" says nothing,
# "slow200:<ms>" opens the tunnel late.
CONNECT_ANSWERS = ["200", "200", "403", "407", "502", "403body", "403close", "close", "never", "slow200:3", "slow200:30"]


def shrink(scn):
    if scn.get("proxy"):
        ts = scn["tasks"]
        yield dict(scn, proxy=None, tasks=[{k: v for k, v in t.items() if k != "via"} for t in ts])
        for i, t in enumerate(ts):
            if t.get("via"):
                yield dict(scn, tasks=ts[:i] + [dict(t, via=None)] + ts[i + 1:])
        px = scn["proxy"]
        for f in ("connect", "tls"):
            for i in range(len(px[f])):
                yield dict(scn, proxy=dict(px, **{f: px[f][:i] + px[f][i + 1:]}))
        for i, a in enumerate(px["connect"]):
            if a.startswith("slow200"):
                yield dict(scn, proxy=dict(px, connect=px["connect"][:i] + ["200"] + px["connect"][i + 1:]))
        for i, (o, d) in enumerate(px["tls"]):
            if d:
                yield dict(scn, proxy=dict(px, tls=px["tls"][:i] + [[o, 0]] + px["tls"][i + 1:]))
    if scn.get("after_close"):
        ac = scn["after_close"]
        yield {k: v for k, v in scn.items() if k != "after_close"}
        if ac["dns"] != "ok":
            yield dict(scn, after_close=dict(ac, dns="ok"))
        if ac["connect"] != ["ok", 0]:
            yield dict(scn, after_close=dict(ac, connect=["ok", 0]))
            if ac["connect"][1] and ac["connect"][0] != "ok":
                yield dict(scn, after_close=dict(ac, connect=[ac["connect"][0], 0]))
    if scn.get("close_via"):
        yield {k: v for k, v in scn.items() if k != "close_via"}
    if scn.get("close_when"):
        cw = scn["close_when"]
        yield {k: v for k, v in scn.items() if k != "close_when"}
        if cw["delay"]:
            yield dict(scn, close_when=dict(cw, delay=0))
        if cw["waiters"] > 1:
            yield dict(scn, close_when=dict(cw, waiters=1))
    if scn["close_at"] is not None:
        yield dict(scn, close_at=None)
    if scn["cancels"]:
        for i in range(len(scn["cancels"])):
            yield dict(scn, cancels=scn["cancels"][:i] + scn["cancels"][i + 1:])
    if scn["connect"]:
        yield dict(scn, connect=[])
    if scn["dns"]:
        yield dict(scn, dns=None)
    ts = scn["tasks"]
    for i, t in enumerate(ts):
        if t.get("kill"):
            yield dict(scn, tasks=ts[:i] + [{k: v for k, v in t.items() if k != "kill"}] + ts[i + 1:])
            if t["kill"][2] == "all":
                yield dict(scn, tasks=ts[:i] + [dict(t, kill=t["kill"][:2] + ["one"])] + ts[i + 1:])
            if t["kill"][0]:
                yield dict(scn, tasks=ts[:i] + [dict(t, kill=[0] + t["kill"][1:])] + ts[i + 1:])
        if t.get("then"):
            th = t["then"]
            yield dict(scn, tasks=ts[:i] + [{k: v for k, v in t.items() if k != "then"}] + ts[i + 1:])
            if len(th) > 1:
                for j in range(len(th)):
                    yield dict(scn, tasks=ts[:i] + [dict(t, then=th[:j] + th[j + 1:])] + ts[i + 1:])
            for j, f in enumerate(th):
                for k, v in (("hold", 0), ("total", None), ("beh", "fast"), ("after", "read"), ("host", t["host"])):
                    if f[k] != v:
                        yield dict(scn, tasks=ts[:i] + [dict(t, then=th[:j] + [dict(f, **{k: v})] + th[j + 1:])] + ts[i + 1:])
    if len(ts) > 1:
        for i in range(len(ts)):
            keep = ts[:i] + ts[i + 1:]
            canc = [[t if t < i else t - 1, k] for t, k in scn["cancels"] if t != i]
            yield dict(scn, tasks=keep, cancels=canc)
    for i, t in enumerate(ts):
        for k, v in (("delay", 0), ("hold", 0), ("total", None), ("beh", "fast"), ("after", "read")):
            if t[k] != v:
                yield dict(scn, tasks=ts[:i] + [dict(t, **{k: v})] + ts[i + 1:])
    if scn["lat"]:
        yield dict(scn, lat=0)
    if scn.get("trace"):
        yield dict(scn, trace=None)
        for k in scn["trace"]:
            yield dict(scn, trace={k2: v for k2, v in scn["trace"].items() if k2 != k} or None)
    if scn["force_close"]:
        yield dict(scn, force_close=False)


class Harness:
    def __init__(self):
        self.out = {}  # id(Connection) -> key (host) while handed out
        self.est = 0
        self.est_host = {}
        self.max_seen = 0
        self.handouts = 0
        self.waited = False
        self.got_conn = set()
        self.protos = set()
        self.keep = []
        self.last_reuse = False
        self.reused = {}
        self.cancelled_while_requesting = False
        self.establishing = set()
        self.tls_ok = 0
        self.tr_by_task = {}  # task name -> client transports it opened (in order)
        self.tr_end = {}      # transport name -> (exception type that ended the attempt which opened it, connector closed then)
        self.in_queue = {}    # task name -> depth inside the connector's wait-for-a-slot routine
        self.snap = None      # taken at the instant close() runs: who was waiting for a slot then
        self.post_close_attempts = 0
        self.followups = 0
        self.cancelled_in_queue_by_task = 0


def run(scn, ch, log=False):
    import aiohttp
    import aiohttp.connector as connector_mod

    viols = []

    def violate(inv, key, msg):
        if not any(v["invariant"] == inv for v in viols):
            viols.append({"invariant": inv, "key": key, "message": msg})

    H = Harness()
    BaseConn = connector_mod.Connection
    if getattr(BaseConn, "_c07_sub", False):
        BaseConn = BaseConn.__mro__[1]

    class TConn(BaseConn):
        __slots__ = ()
        _c07_sub = True

        def __init__(self, connector, key, protocol, loop):
            super().__init__(connector, key, protocol, loop)
            H.handouts += 1
            H.last_reuse = id(protocol) in H.protos
            H.out[id(self)] = endpoint_of_key(key)
            H.reused[id(self)] = H.last_reuse
            H.protos.add(id(protocol))
            H.keep.append(protocol)  # keep ids unique for the run
            t = asyncio.current_task()
            if t is not None:
                H.got_conn.add(t.get_name())
                if H.snap is not None and t.get_name() in H.snap["tasks"]:
                    H.snap["went_on"].setdefault(t.get_name(), "was handed a connection")

        def close(self):
            if self._protocol is not None:
                H.out.pop(id(self), None)
            super().close()

        def release(self):
            if self._protocol is not None:
                H.out.pop(id(self), None)
            super().release()

        def __del__(self):
            if self._protocol is not None:
                H.out.pop(id(self), None)
            super().__del__()

    class TConnector(aiohttp.TCPConnector):
        async def _create_connection(self, req, traces, timeout):
            host = endpoint_of_key(req.connection_key)
            H.est += 1
            H.est_host[host] = H.est_host.get(host, 0) + 1
            t = asyncio.current_task()
            name = t.get_name() if t is not None else "?"
            H.establishing.add(name)
            if H.snap is not None:
                H.post_close_attempts += 1
                if name in H.snap["tasks"]:
                    H.snap["went_on"].setdefault(name, "started a connection attempt")
            mine = H.tr_by_task.setdefault(name, [])
            n0 = len(mine)
            try:
                return await super()._create_connection(req, traces, timeout)
            except BaseException as e:
                for tr in mine[n0:]:
                    H.tr_end[tr.name] = (type(e).__name__, bool(self._closed))
                raise
            finally:
                H.est -= 1
                H.est_host[host] -= 1
                H.establishing.discard(name)

    if hasattr(aiohttp.TCPConnector, "_wait_for_available_connection"):
        # who is waiting for a slot: counted around the connector's own routine (delegates, changes nothing)
        async def _wait_for_available_connection(self, *a, **kw):
            t = asyncio.current_task()
            name = t.get_name() if t is not None else "?"
            H.in_queue[name] = H.in_queue.get(name, 0) + 1
            try:
                return await aiohttp.TCPConnector._wait_for_available_connection(self, *a, **kw)
            finally:
                H.in_queue[name] -= 1
                if not H.in_queue[name]:
                    del H.in_queue[name]

        TConnector._wait_for_available_connection = _wait_for_available_connection

    connector_mod.Connection = TConn
    try:
        with World(ch, 0, log_events=log) as w:
            loop, net = w.loop, w.net
            net.max_latency_ticks = scn["lat"]
            nh = scn["nh"]
            for name, ip in HOSTS[:nh]:
                net.dns[name] = [ip]

            class Srv:
                def __init__(self):
                    self.loop = loop
                    self.conns = []

                def on_connect(self, c):
                    pass

                def on_data(self, c):
                    while True:
                        r = parse_simple_request(c.buf)
                        if r is None:
                            return
                        req, used = r
                        del c.buf[:used]
                        c.requests.append(req)
                        path = req["target"].decode("latin-1")
                        if req["method"] == b"CONNECT":
                            self.connect(c)
                            continue
                        if path.startswith("http://"):  # absolute form, as sent to a proxy
                            path = "/" + path.split("/", 3)[3]
                        beh = path.split("/")[1]
                        if beh == "fast":
                            c.send(b"HTTP/1.1 200 OK\r\nContent-Length: 2\r\n\r\nok")
                        elif beh == "connclose":
                            c.send(b"HTTP/1.1 200 OK\r\nContent-Length: 2\r\nConnection: close\r\n\r\nok")
                            c.transport.close()
                        elif beh.startswith("slow"):
                            k = int(path.split("/")[2])
                            c.send(b"HTTP/1.1 200 OK\r\nContent-Length: 4\r\n\r\nsl")
                            loop.sim_call_later(k * 0.001, c.send, b"ow")
                        elif beh == "close":
                            c.transport.close()
                        # "never": say nothing

                def connect(self, c):
                    # the proxy's side of a tunnel request; once it said 200 it relays, i.e. the same connection is
                    # served as the origin (TLS is a pass-through here)
                    self.connects += 1
                    answers = px["connect"] if px else []
                    a = answers[self.connects - 1] if self.connects <= len(answers) else "200"
                    loop.note("proxy_connect", a)
                    ok = b"HTTP/1.1 200 Connection established\r\n\r\n"
                    if a == "200":
                        c.send(ok)
                    elif a.startswith("slow200"):
                        loop.sim_call_later(int(a.split(":")[1]) * 0.001, c.send, ok)
                    elif a == "close":
                        c.transport.close()
                    elif a != "never":
                        loop.faults["connect_refused_by_proxy"] += 1
                        reason = {"403": b"Forbidden", "407": b"Proxy Authentication Required", "502": b"Bad Gateway"}[a[:3]]
                        body = b"denied" if a.endswith("body") else b""
                        c.send(b"HTTP/1.1 " + a[:3].encode() + b" " + reason + b"\r\nContent-Length: " + str(len(body)).encode()
                               + b"\r\n\r\n" + body)
                        if a.endswith("close"):
                            c.transport.close()

                def on_eof(self, c):
                    pass

                def on_lost(self, c):
                    pass

            px = scn.get("proxy")
            srv = Srv()
            srv.connects = 0
            for name, ip in HOSTS[:nh]:
                net.listen(lambda: RawServerConn(srv), ip, 80)
            if px:
                net.dns[PROXY[0]] = [PROXY[1]]
                net.listen(lambda: RawServerConn(srv), PROXY[1], PROXY[2])
                tls_script = [list(x) for x in px["tls"]]
                tls_state = {"n": 0}

                async def start_tls(transport, protocol, sslcontext, *, server_hostname=None, **kw):
                    # TLS upgrade of an established transport (SimLoop has none): the handshake may take time, fail or
                    # never finish; like asyncio's own start_tls it closes the transport when it does not succeed
                    # (failure or cancellation) and otherwise hands the transport over to the new protocol.
                    tls_state["n"] += 1
                    n = tls_state["n"]
                    outcome, d = tls_script[n - 1] if n <= len(tls_script) else ("ok", 0)
                    loop.note("start_tls", f"{transport.name}:{outcome}")
                    try:
                        if outcome == "stall":
                            loop.faults["tls_stall"] += 1
                            await loop.create_future()
                        if d:
                            fut = loop.create_future()
                            loop.sim_call_later(d * 0.001, lambda: fut.done() or fut.set_result(None))
                            await fut
                        if outcome == "fail":
                            loop.faults["tls_fail"] += 1
                            raise ConnectionResetError(104, "Connection reset by peer during TLS handshake")
                        if transport.is_closing():
                            raise ConnectionAbortedError(103, "SSL handshake is taking place on a closed transport")
                    except BaseException:
                        transport.close()
                        raise
                    H.tls_ok += 1
                    transport.set_protocol(protocol)
                    return transport

                loop.start_tls = start_tls
            script = [list(x) for x in scn["connect"]]

            after_close = scn.get("after_close")

            def connect_script(addr, n):
                if after_close and H.snap is not None:
                    loop.faults["connect_after_close_" + after_close["connect"][0]] += 1
                    return after_close["connect"][0], after_close["connect"][1] * 0.001
                if n <= len(script):
                    outcome, d = script[n - 1]
                    return outcome, d * 0.001
                return "ok", net.latency()

            net.connect_script = connect_script

            def on_connect(ctr, str_):
                t = asyncio.current_task()
                H.tr_by_task.setdefault(t.get_name() if t is not None else "?", []).append(ctr)

            net.on_connect = on_connect
            dns_state = {"n": 0}

            def dns_script(host, n):
                dns_state["n"] += 1
                if after_close and H.snap is not None and after_close["dns"] == "stall":
                    loop.faults["dns_after_close_stall"] += 1
                    return "stall", 0
                m = scn["dns"]
                if m == "fail_once" and dns_state["n"] == 1:
                    return "fail", 0.001
                if m == "stall_once" and dns_state["n"] == 1:
                    return "stall", 0
                if m == "slow":
                    return "ok", 0.005
                return "ok", 0.0

            resolver = SimResolver(net, script=dns_script)
            limit, lph = scn["limit"], scn["lph"]
            phase = {}
            tasks = {}
            state = {"closed": False, "connector": None, "session": None}

            cur = {}  # task index -> the request it is making now

            def give_up(i, kill):
                # a task cancels other ones (worker loops): same bookkeeping as a cancel injected between steps
                k, _when, scope = kill
                queued = sorted(int(n_[1:]) for n_ in H.in_queue if n_ != f"w{i}" and n_[1:].isdigit())
                if not queued:
                    targets = [k % len(tasks)]
                elif scope == "all":
                    targets = queued
                else:
                    targets = [queued[k % len(queued)]]
                for ti in targets:
                    t = tasks.get(ti)
                    if ti != i and t is not None and not t.done():
                        if phase.get(ti) == "requesting" and f"w{ti}" not in H.got_conn:
                            H.cancelled_while_requesting = True
                            if f"w{ti}" in H.in_queue:
                                H.cancelled_in_queue_by_task += 1
                        loop.faults["cancel_by_task"] += 1
                        loop.note("cancel_by_task", f"w{i}->w{ti}")
                        t.cancel()

            async def worker(i, first):
                if first["delay"]:
                    await asyncio.sleep(first["delay"] * 0.001)
                kill = first.get("kill")
                for nreq, spec in enumerate(requests_of(first)):
                    host = HOSTS[spec["host"]][0]
                    beh = spec["beh"]
                    path = "/" + (beh.replace(":", "/")) + f"/t{i}"
                    if nreq:
                        # the next request of a worker loop starts in the step that ended the previous one
                        H.got_conn.discard(f"w{i}")
                        H.followups += 1
                    cur[i] = spec
                    phase[i] = "requesting"
                    try:
                        to = aiohttp.ClientTimeout(total=spec["total"])
                        via = spec.get("via")
                        if via:
                            resp = await state["session"].get(f"{via}://{host}{path}", timeout=to, proxy=PROXY_URL)
                        else:
                            resp = await state["session"].get(f"http://{host}{path}", timeout=to)
                        phase[i] = "holding"
                        if spec["hold"]:
                            await asyncio.sleep(spec["hold"] * 0.001)
                        if kill and not nreq and kill[1] == "before":
                            give_up(i, kill)
                        if spec["after"] == "read":
                            await resp.read()
                        elif spec["after"] == "release":
                            resp.release()
                        else:
                            resp.close()
                        if kill and not nreq and kill[1] == "after":
                            give_up(i, kill)
                        phase[i] = "done"
                    except asyncio.CancelledError:
                        phase[i] = "cancelled"
                        raise
                    except Exception as e:
                        phase[i] = "failed:" + type(e).__name__

            async def setup():
                conn = TConnector(resolver=resolver, limit=limit, limit_per_host=lph, force_close=scn["force_close"],
                                  keepalive_timeout=(None if scn["force_close"] else scn["keepalive"]))
                state["connector"] = conn
                tcs = []
                if scn.get("trace"):
                    tc = aiohttp.TraceConfig()

                    def hook(d):
                        async def h(session, ctx, params):
                            loop.faults["trace_hook_yield"] += 1
                            await asyncio.sleep(d * 0.001)
                        return h
                    for k, d in sorted(scn["trace"].items()):
                        getattr(tc, "on_connection_" + k).append(hook(d))
                    tcs.append(tc)
                state["session"] = aiohttp.ClientSession(connector=conn, trace_configs=tcs)

            def route_class(trs):
                # key suffix: the left-over connection is one to the proxy (tunnel or forwarded request); and, if that is
                # so for every left-over one, that the attempt which opened it was cancelled (caller cancel / timeout)
                # when the connector had already been closed
                if not any(t.addr[0] == PROXY[1] for t in trs):
                    return ""
                if all(H.tr_end.get(t.name) == ("CancelledError", True) for t in trs):
                    return ":connection_to_proxy:attempt_cancelled_after_connector_close"
                return ":connection_to_proxy"

            loop.run_sim(setup(), vt_cap=1)
            conn = state["connector"]

            def queued_now():
                return sum(1 for q in conn._waiters.values() for f in q if not f.done())

            async def closer():
                # the snapshot and the close happen in one step: close() reaches its synchronous part without yielding
                H.snap = {"tasks": sorted(H.in_queue) if hasattr(conn, "_wait_for_available_connection") else
                          sorted(f"w{i}" for i, t in tasks.items() if not t.done() and phase.get(i) == "requesting"
                                 and f"w{i}" not in H.got_conn and f"w{i}" not in H.establishing),
                          "queued": queued_now(), "went_on": {}}
                loop.note("close_runs", f"{len(H.snap['tasks'])}:{H.snap['queued']}")
                if scn.get("close_via") == "session":
                    await state["session"].close()
                else:
                    await conn.close()

            def do_close():
                if not state["closed"]:
                    state["closed"] = True
                    loop.faults["connector_close"] += 1
                    loop.note("connector_close", scn.get("close_via") or "")
                    state["close_task"] = loop.create_task(closer(), name="close")

            close_when = scn.get("close_when")
            armed = [False]

            def inv():
                if close_when and not armed[0] and not state["closed"] and conn._waiters and queued_now() >= close_when["waiters"]:
                    armed[0] = True
                    loop.faults["close_aimed_at_waiters"] += 1
                    loop.sim_call_later(close_when["delay"] * 0.001, do_close)
                if state["closed"]:
                    return  # after close() every new connection is closed at once; limits are moot
                tot = len(H.out) + H.est
                if tot > H.max_seen:
                    H.max_seen = tot
                if limit and tot > limit:
                    violate("limit", "total_over_limit:" + ("pooled_connection_reused" if any(H.reused.get(c) for c in H.out) else "new_connection"),
                            f"{len(H.out)} handed out + {H.est} being established > limit {limit} "
                            f"(connector._acquired has {len(conn._acquired)})")
                if lph:
                    per = {}
                    for h in H.out.values():
                        per[h] = per.get(h, 0) + 1
                    for h, k in H.est_host.items():
                        per[h] = per.get(h, 0) + k
                    for h in sorted(per):
                        if per[h] > lph:
                            violate("limit_per_host", "host_over_limit:" + ("pooled_connection_reused" if any(H.reused.get(c) for c in H.out) else "new_connection"),
                                    f"host {h}: {per[h]} in use/being established > limit_per_host {lph}")
                if not H.waited and conn._waiters:
                    H.waited = True

            loop.step_hooks.append(inv)
            for i, spec in enumerate(scn["tasks"]):
                tasks[i] = loop.create_task(worker(i, spec), name=f"w{i}")
            base = loop.steps
            for ti, k in scn["cancels"]:
                def c(ti=ti):
                    t = tasks.get(ti)
                    if t is not None and not t.done():
                        if phase.get(ti) == "requesting" and f"w{ti}" not in H.got_conn:
                            H.cancelled_while_requesting = True
                        loop.faults["cancel"] += 1
                        loop.note("cancel", f"w{ti}")
                        t.cancel()
                loop.at_step.setdefault(base + k, []).append(c)
            if scn["close_at"] is not None:
                loop.at_step.setdefault(base + scn["close_at"], []).append(do_close)

            loop.run_sim(None, vt_cap=loop.time() + 5.0, step_cap=200_000)
            # ---------------- quiescence judgement (faults have stopped) ----------------
            pending = sorted(i for i, t in tasks.items() if not t.done())
            any_timeout_pending = False
            if not state["closed"]:
                per = {}
                for h in H.out.values():
                    per[h] = per.get(h, 0) + 1
                for h, k in H.est_host.items():
                    per[h] = per.get(h, 0) + k
                tot = len(H.out) + H.est
                all_reqs = [r for t_ in scn["tasks"] for r in requests_of(t_)]
                for i in pending:
                    spec = cur.get(i) or scn["tasks"][i]
                    if phase.get(i) != "requesting" or f"w{i}" in H.got_conn or f"w{i}" in H.establishing:
                        continue  # it has its connection (waiting for the peer) or is resolving/connecting
                    host = endpoint_of_task(spec)
                    free_total = (not limit) or tot < limit
                    free_host = (not lph) or per.get(host, 0) < lph
                    # is the task past the pool (resolving / connecting)?  then est counts it
                    if free_total and free_host:
                        waiting = [len(v) for v in conn._waiters.values()]
                        violate("no_lost_wakeup", "waiter_blocked_with_free_capacity:" + ("several_host_queues" if (lph and len({endpoint_of_task(t_) for t_ in all_reqs}) > 1)
                                                                                    else ("after_waiter_cancelled_or_timed_out" if (H.cancelled_while_requesting or any(t_["total"] for t_ in all_reqs)) else "no_cancel:one_queue")),
                                f"task {i} (host {host}) still waits for a connection at quiescence although capacity is free: "
                                f"in use={len(H.out)} establishing={H.est} limit={limit} per_host={lph}; "
                                f"connector waiters={waiting} acquired={len(conn._acquired)}")
                        break
            elif H.snap is not None:
                # "closing the connector fails every waiter": whoever was queued for a slot at the instant close() ran
                # must have ended with a failure by now - not gone on to open a connection on the closed connector, not
                # been handed one, not still be sitting in the queue.  A caller in the waiting routine whose wake-up had
                # already been issued before the close (its future completed, not queued any more) is no waiter and may
                # go on; `in routine - queued` of them are allowed for.
                snap = H.snap
                byname = {f"w{i}": i for i in tasks}
                still = [n_ for n_ in snap["tasks"] if n_ not in snap["went_on"] and n_ in byname and not tasks[byname[n_]].done()]
                not_failed = sorted(set(snap["went_on"]) | set(still))
                allowed = len(snap["tasks"]) - snap["queued"]
                if len(not_failed) > allowed:
                    hung = [n_ for n_ in snap["went_on"] if n_ in byname and not tasks[byname[n_]].done()]
                    kind = ("connects_after_close" + (":never_fails" if hung else "")) if snap["went_on"] else "still_queued"
                    violate("close", "waiter_not_failed_by_close:" + kind,
                            f"{snap['queued']} request(s) were queued for a slot when close() ran (in the waiting routine: "
                            f"{snap['tasks']}); afterwards {dict(sorted(snap['went_on'].items()))}, still blocked without either: {still}, "
                            f"still pending 5 s later: {sorted(hung + still)}; at most {allowed} (already woken before the close) "
                            f"may go on; phases={phase}")
            # everything still running is released by cancelling the remaining tasks
            for i in pending:
                tasks[i].cancel()
            loop.run_sim(None, vt_cap=loop.time() + 2.0, step_cap=loop.steps + 50_000)
            import gc
            gc.collect()
            loop.run_sim(None, vt_cap=loop.time() + 0.1, step_cap=loop.steps + 10_000)
            if not state["closed"]:
                if H.out or H.est:
                    violate("no_leak", "counted_after_all_tasks_ended",
                            f"after every task finished or was cancelled: {len(H.out)} connections still handed out, "
                            f"{H.est} attempts in progress; phases={phase}")
                elif conn._acquired or any(conn._acquired_per_host.values()):
                    violate("no_leak", "connector_sets_not_empty",
                            f"(white-box) connector._acquired={len(conn._acquired)} acquired_per_host="
                            f"{ {str(k.host): len(v) for k, v in conn._acquired_per_host.items()} } after all tasks ended")
                else:
                    pooled = set()
                    for lst in conn._conns.values():
                        for proto, _t in lst:
                            if proto.transport is not None:
                                pooled.add(proto.transport)
                    stray = [t for t in net.all_transports if t.name.startswith("c") and not t._closed and not t._closing
                             and t not in pooled]
                    if stray:
                        violate("no_leak", "open_transport_outside_pool" + route_class(stray),
                                f"{len(stray)} client transport(s) open but neither pooled nor in use after all tasks ended: "
                                f"{[(t.name, t.addr) for t in stray]}")
            # close(): every transport the connector created is closed, every waiter failed
            tclose = loop.run_sim(state["session"].close(), vt_cap=loop.time() + 5.0)
            if not tclose.done():
                violate("close", "close_blocked", "session.close()/connector.close() did not return")
            loop.run_sim(None, vt_cap=loop.time() + 0.5, step_cap=loop.steps + 20_000)
            still = [t for t in net.all_transports if t.name.startswith("c") and not t._closed and not t._closing]
            if still:
                violate("close", "transport_open_after_close" + route_class(still),
                        f"client transports still open after close(): {[t.name for t in still]}")
            if any(not t.done() for t in tasks.values()):
                violate("close", "waiter_pending_after_close", "a task is still pending after connector.close()")
            if loop.exc_contexts:
                c0 = loop.exc_contexts[0]
                violate("loop_exception", f"{c0['exc_type']}@{c0.get('frame')}:{c0['message'][:40]}",
                        f"exception reached the loop: {c0['message']} {c0['exc']}")
            st = w.stats()
            res = {
                "violations": viols, "nontrivial": bool(H.waited), "sig": st["sig"], "digest": st["digest"],
                "steps": st["steps"], "vtime": st["vtime"], "faults": st["faults"],
                "probes": {"waited": int(H.waited), "handouts": H.handouts, "max_in_use": H.max_seen,
                           "closed_midway": int(state["closed"]), "closed_with_waiters_queued": int(bool(H.snap and H.snap["queued"])),
                           "attempts_after_close": H.post_close_attempts, "closed_via_session": int(bool(H.snap) and scn.get("close_via") == "session"),
                           "cancel_fired": st["faults"].get("cancel", 0),
                           "followup_requests": H.followups, "cancel_by_task": st["faults"].get("cancel_by_task", 0),
                           "waiter_cancelled_by_task": H.cancelled_in_queue_by_task,
                           "proxy_connects": srv.connects, "tunnels_refused": st["faults"].get("connect_refused_by_proxy", 0),
                           "tls_upgrades": H.tls_ok,
                           "phases_" + "_".join(sorted({p.split(":")[0] for p in phase.values()})): 1},
                "shape": f"n{len(scn['tasks'])}-h{nh}-L{limit}-P{lph}-c{len(scn['cancels'])}-x{int(scn['close_at'] is not None)}",
            }
            if log:
                res["event_log"] = loop.event_log
            return res
    finally:
        connector_mod.Connection = BaseConn
