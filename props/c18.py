"""C18 - timeouts and cancellation are bounded and leave no residue.

World C: a real ClientSession + TCPConnector(resolver=SimResolver) on SimLoop /
SimNet against a scripted raw server.  One "victim" call (HTTP request + body
read, or ws_connect + echo + close) and 0-2 bystander requests share the pool
and, in some runs, one in-flight DNS look-up.  See DESIGN.md section 9, C18.

One run() executes the scenario *without* its cancel first (the "baseline":
stall and timeout are in force; it counts the victim task's steps and is judged
itself), then once more per cancel point on the same choice tape with the victim
cancelled before its k-th step.
"""
from __future__ import annotations

import asyncio
import base64
import collections
import hashlib
import math

from sim.net import SimResolver
from sim.peers import RawServerConn, parse_simple_request
from sim.world import World

PROP = "C18"
LEVEL = "fault_enumeration"
DESIGN_REF = "9/C18"
BUDGET = {"quick": 60, "thorough": 600}
BATCH = 40
ENUM_BATCH = 12
ENUM_SHARE = 0.7
ENUM_IS_EXHAUSTIVE = False
TECHNIQUE = ("deterministic simulation: real client session/connector on a virtual-time loop and in-memory network, "
             "scripted raw server that goes silent at an enumerated protocol phase, enumerated timeout kind/value and "
             "cancellation before every step of the calling task; time bound and residue judged at quiescence")
LEVEL_TEXT = (
    "Complete enumeration of a grid: stall point (11 phases + none, and the TLS handshake of an https target) x timeout kind (total / connect / sock_connect / "
    "sock_read / ws_close / none, below and above the ceil threshold) x bystander layout, and for every stall point x "
    "covering timeout x layout x trace hooks x body kind the cancellation of the calling task before every one of its "
    "steps (the steps are counted by an un-cancelled execution of the same scenario on the same choice tape) and a "
    "total timeout placed on every instant at which the calling task runs; plus a seeded batch over finite stalls, "
    "segmentation, latency, limits, thresholds and slow consumers. Each case runs the real client against a scripted "
    "peer in virtual time. The grid is enumerated completely; schedules inside a case are sampled. Not a proof."
)
LEVEL_NOTE = (
    "Trusted: the small reference table of which timeout covers which phase and from which instant it counts "
    "(covers()/deadline()/silence()/max_silence(), self-tested), SimNet's TCP model, the scripted server. Bounds: one "
    "victim, <=3 bystanders, bodies <=256 KiB, pool limit <=3, one connector. A DNS stall is modelled as a 30 s answer "
    "(a resolver that never answers would also block every later request for that host, which is the resolver's "
    "fault). A transport whose close() was called counts as closed even if unsent bytes to a non-reading peer keep it "
    "from finishing (asyncio semantics). Only the upper bound of a time-out is judged, plus 'not before any covered "
    "silence of that length existed'. When the time-out's own timer had already cancelled the task and the caller's "
    "cancel arrives in the same loop iteration, TimeoutError and CancelledError are both accepted. "
    "connector._acquired/_acquired_per_host/_waiters are read as a white-box cross-check and reported as such; task "
    "parentage is observed through a Task subclass, pool hand-outs through a Connection subclass."
)
RULE = (
    "Run = scenario (op http|ws, request body none/bytes/streamed, response framing (Content-Length / chunked / until EOF)/size/pieces, victim read mode "
    "incl. slow consumer with small read buffer, stall point and duration, http or https target (scripted TLS handshake: delay / stall / reset), timeout kind and value, ceil threshold, pool "
    "limit / per-host limit, bystanders with host/start offset/server delay, DNS delay, 1-2 addresses, trace hooks, "
    "segmentation, latency, early follow-up or not) executed un-cancelled, then once per requested cancel point (before "
    "the k-th step of the calling task, all k or one) or per total-timeout instant. Non-trivial: the stall point was "
    "reached, or a timeout fired, or a cancel fired while the victim was pending. Distinct = interleaving signature "
    "of all executions of the run."
)
ENUM_RULE = (
    "(1) stall point in {none,pool,dns,connect,send_body,status,header,hdr_body,body,chunk_size,final_chunk,ws_close} "
    "(and ws_close_send: the peer stops reading and the close frame itself waits for a write-paused transport; no timeout covers it) "
    "x timeout in {none, total/connect/sock_connect/sock_read/ws_close x {1.5 s, 7.25 s} (thorough: also 0.3 s and "
    "5.0 s, ceil threshold 1 and 5)} x bystander layout; (2) stall point x {none, every covering timeout kind} x 7 "
    "bystander layouts x trace hooks on/off x body kind: cancel before every step k < K of the calling task; (2b) "
    "WebSocket connect/send/receive/close without stall: every step; (3) fault-free exchange x body kind x layout x "
    "trace hooks: total timeout on every instant at which the calling task runs; (4) slow consumer with paused "
    "transport under sock_read with/without a body stall; (5) https target with a scripted TLS handshake after the "
    "TCP connect: handshake stalled x {none, total/connect/sock_connect/sock_read x values} x layout x 1-2 addresses, "
    "and cancel before every step with the handshake stalled / slow / reset by the peer; (6) response body delimited "
    "by EOF (no Content-Length, not chunked; Connection: close / no header / HTTP/1.0): stall point in {none,status,"
    "header,hdr_body,body,every byte sent but connection left open} x {none, total/sock_read/connect x values} x "
    "layout x read()/read(n), and cancel before every step"
)
COMPONENTS = {
    "real": ["aiohttp.ClientSession", "TCPConnector / BaseConnector / Connection", "client_proto.ResponseHandler",
             "client_reqrep.ClientRequest / ClientResponse", "helpers.TimeoutHandle / TimerContext / ceil_timeout",
             "streams.StreamReader", "http_parser / http_writer (Python)", "client_ws.ClientWebSocketResponse",
             "asyncio tasks, timers, shield"],
    "stub": ["network (SimNet)", "resolver (SimResolver)", "aiohappyeyeballs (connect through SimNet)",
             "server peer (scripted raw HTTP/WebSocket server)",
             "TLS (https targets: loop.create_connection(ssl=, sock=) runs a scripted handshake phase - delay, stall, "
             "reset - before the plain in-memory connection is handed over; no records, no certificates)"],
}
ASSUMPTIONS = [
    "TCP stream semantics of SimNet; a stall is the absence of events",
    "call_soon callbacks run in FIFO order",
    "the victim is recognised by its own marker (path /victim, host name, task name), never by a global switch",
    "a resolver that is slow answers eventually (30 s); a connect attempt made by the victim may stall for ever",
    "timeouts >= ceil_threshold may fire up to the next whole second of loop time later (documented rounding)",
]

T0 = 1.0  # virtual instant at which the victim starts
V_HOST, B_HOST = "v.test", "b.test"
V_IPS = ["10.0.0.1", "10.0.0.3"]
B_IP = "10.0.0.2"
HOLD_DELAY = 20.0  # a bystander that occupies a pool slot is answered after this long
DNS_SLOW = 30.0
HORIZON = 48.0
EPS = 1e-6

STALL_POINTS = ["pool", "dns", "connect", "send_body", "status", "header", "hdr_body", "body", "chunk_size",
                "final_chunk", "ws_close"]
RESP_POINTS = ("status", "header", "hdr_body", "body", "chunk_size", "final_chunk")
# An https target: the TCP connect succeeds and the peer then stalls the TLS handshake (never answers the
# ClientHello).  Kept out of STALL_POINTS so that the seeded generator's first draw keeps its meaning; gen()
# samples it last.
TLS_POINT = "tls"
ALL_POINTS = STALL_POINTS + [TLS_POINT]
# A WebSocket close whose close frame cannot be SENT: the peer has stopped reading, the client transport is
# write-paused, and so much was sent before that the frame writer waits for the transport to drain with the
# close frame (the first await of ws.close(); "ws_close" is the second one, the wait for the peer's close
# frame).  No timeout kind of the statement covers it (ws_close is documented as the wait for the closing
# handshake and is judged at "ws_close" only): only cancellation and its residue are judged here.  Kept out
# of STALL_POINTS / ALL_POINTS so that the seeded generator's first draw and `total` keep their meaning.
WS_SEND_POINT = "ws_close_send"
TIMEOUT_KINDS = ["total", "connect", "sock_connect", "sock_read", "ws_close"]

# ------------------------------------------------------------------ reference model
# Written from docs/client_quickstart.rst ("Timeouts") and docs/client_reference.rst
# (ClientTimeout, ClientWSTimeout, exception hierarchy), not from the code.
COVERS = {
    "total": frozenset(ALL_POINTS) - {"ws_close"},     # "the whole request": connection, sending, response, body
    "connect": frozenset({"pool", "dns", "connect", TLS_POINT}),  # acquiring a connection: queueing + establishing
    # connecting to a peer for a new connection (per attempt); for an https target the connection is
    # established when the TLS handshake is done, not when the TCP connect returns
    "sock_connect": frozenset({"connect", TLS_POINT}),
    "sock_read": frozenset(RESP_POINTS),               # period between reading portions of data from the peer
    "ws_close": frozenset({"ws_close"}),               # the websocket to close
}
EXPECT_CLASS = {"connect": "ConnectionTimeoutError", "sock_connect": "ConnectionTimeoutError",
                "sock_read": "SocketTimeoutError"}


def covers(kind, point):
    return kind in COVERS and point in COVERS[kind]


def deadline(value, thr, ref):
    """Latest instant at which a timeout of `value` seconds counted from `ref` may
    have fired: exact below the ceil threshold, otherwise the next whole second."""
    when = ref + value
    if value >= thr:
        return math.floor(when + 1e-9) + 1.0
    return when


def oracle_selftest():
    assert deadline(1.5, 5, 1.0) == 2.5
    assert deadline(7.25, 5, 1.0) == 9.0
    assert deadline(5, 5, 1.0) == 7.0  # at the threshold: "equal or greater" is rounded
    assert deadline(4.99, 5, 1.25) == 1.25 + 4.99
    assert deadline(7.25, 10, 1.0) == 8.25  # custom threshold
    assert deadline(6.0, 5, 1.5) == 8.0
    assert covers("total", "send_body") and not covers("sock_read", "send_body")
    assert covers("connect", "pool") and covers("connect", "dns") and not covers("sock_connect", "dns")
    assert not covers("sock_connect", "pool") and covers("sock_connect", "connect")
    assert covers("sock_read", "final_chunk") and not covers("connect", "status")
    assert covers("ws_close", "ws_close") and not covers("total", "ws_close") and not covers("none", "status")
    assert covers("sock_connect", "tls") and covers("connect", "tls") and covers("total", "tls")
    assert not covers("sock_read", "tls") and not covers("ws_close", "tls") and "tls" not in STALL_POINTS
    full, cuts = build_response({"framing": "chunked", "size": 600, "nchunks": 3})
    assert full.endswith(b"0\r\n\r\n") and full[cuts["final_chunk"]:] == b"0\r\n\r\n"
    assert full[:cuts["hdr_body"]].endswith(b"\r\n\r\n") and cuts["status"] == 0
    assert full[cuts["chunk_size"] - 3:cuts["chunk_size"] - 1] == b"\r\n" and full[cuts["chunk_size"]:][:1].isalnum()
    assert b"\r\n" not in full[cuts["header"] - 3:cuts["header"] + 1]
    full, cuts = build_response({"framing": "cl", "size": 100, "nchunks": 1})
    assert len(full) - cuts["hdr_body"] == 100 and cuts["hdr_body"] < cuts["body"] < len(full)
    full, cuts = build_response({"framing": "eof", "size": 100, "eof_hdr": "bare"})
    assert b"ength" not in full and b"ncoding" not in full and b"Connection" not in full
    assert cuts["final_chunk"] == len(full) and len(full) - cuts["hdr_body"] == 100 and full[:cuts["hdr_body"]].endswith(b"\r\n\r\n")
    assert build_response({"framing": "eof", "size": 10, "eof_hdr": "http10"})[0].startswith(b"HTTP/1.0 200")
    assert b"\r\nConnection: close\r\n" in build_response({"framing": "eof", "size": 10})[0]
    assert expected_victim_body({"framing": "eof", "size": 77, "eof_hdr": "close"}) == victim_body(77)
    ev = [(1.0, "write"), (1.2, "rx"), (1.2, "pause"), (3.0, "resume"), (3.1, "rx")]
    assert abs(max_silence(ev, 3.2) - 0.2) < 1e-9 and abs(max_silence(ev, 2.9) - 0.2) < 1e-9
    assert abs(max_silence(ev, 4.0) - 0.9) < 1e-9
    assert silence(ev, 2.9)[0] == 1.2 and silence(ev, 3.05)[:2] == (3.0, "reader resumed the transport")
    assert abs(silence(ev + [(3.1, "sent")], 4.0)[2] - 0.9) < 1e-9
    fr = ws_frame(1, b"abc")
    assert fr == b"\x81\x03abc"
    msgs, used = ws_parse(bytearray(b"\x81\x83\x01\x02\x03\x04" + bytes([0x61 ^ 1, 0x62 ^ 2, 0x63 ^ 3])))
    assert msgs == [(1, b"abc")] and used == 9
    assert not any(covers(k, WS_SEND_POINT) for k in TIMEOUT_KINDS) and WS_SEND_POINT not in ALL_POINTS
    big = bytes([0x82, 0xFE, 0x01, 0x00, 1, 2, 3, 4]) + b"z" * 256
    assert ws_parse(bytearray(big + b"\x88\x80\x00\x00\x00\x00")) == ([(2, b""), (8, b"")], len(big) + 6)


# ------------------------------------------------------------------ scripted server
def victim_body(size):
    pat = b"victim-body-0123456789abcdef-"
    return (pat * (size // len(pat) + 1))[:size]


def build_response(resp):
    """Full response bytes for the victim and the cut offset of every stall point."""
    size = resp["size"]
    body = victim_body(size)
    status = b"HTTP/1.1 200 OK\r\n"
    if resp["framing"] == "cl":
        head = status + b"Content-Type: text/plain\r\nContent-Length: " + str(size).encode() + b"\r\n\r\n"
        full = head + body
        cuts = {"status": 0, "header": len(status) + 9, "hdr_body": len(head), "body": len(head) + max(1, size // 2)}
    elif resp["framing"] == "eof":
        # body delimited by the close of the connection: neither Content-Length nor Transfer-Encoding;
        # announced with "Connection: close", not at all, or implied by an HTTP/1.0 status line.  The
        # peer closes after the last byte; "final_chunk" here is the instant before that close.
        hdr = resp.get("eof_hdr", "close")
        if hdr == "http10":
            status = b"HTTP/1.0 200 OK\r\n"
        head = status + b"Content-Type: text/plain\r\n" + (b"Connection: close\r\n" if hdr == "close" else b"") + b"\r\n"
        full = head + body
        cuts = {"status": 0, "header": len(status) + 9, "hdr_body": len(head), "body": len(head) + max(1, size // 2),
                "final_chunk": len(full)}
    else:
        head = status + b"Content-Type: text/plain\r\nTransfer-Encoding: chunked\r\n\r\n"
        n = max(2, resp["nchunks"])
        per = max(16, size // n)
        out = bytearray(head)
        pos = 0
        cuts = {"status": 0, "header": len(status) + 9, "hdr_body": len(head)}
        for i in range(n):
            chunk = body[pos:pos + per] if i < n - 1 else body[pos:]
            if len(chunk) < 16:
                chunk = (chunk + b"x" * 16)[:16]
            pos += per
            line = b"%x\r\n" % len(chunk)
            if i == 0:
                cuts["body"] = len(out) + len(line) + len(chunk) // 2
            if i == 1:
                cuts["chunk_size"] = len(out) + 1
            out += line + chunk + b"\r\n"
        cuts["final_chunk"] = len(out)
        out += b"0\r\n\r\n"
        full = bytes(out)
    return full, cuts


def expected_victim_body(resp):
    full, cuts = build_response(resp)
    if resp["framing"] in ("cl", "eof"):
        return full[cuts["hdr_body"]:]
    # decode our own chunking
    out = bytearray()
    p = cuts["hdr_body"]
    while True:
        j = full.index(b"\r\n", p)
        n = int(full[p:j], 16)
        if n == 0:
            break
        out += full[j + 2:j + 2 + n]
        p = j + 2 + n + 2
    return bytes(out)


WS_GUID = b"258EAFA5-E914-47DA-95CA-C5AB0DC85B11"


def ws_frame(opcode, payload):
    n = len(payload)
    assert n < 126
    return bytes([0x80 | opcode, n]) + payload


def ws_parse(buf):
    """Client frames (masked, short) -> [(opcode, payload)], consumed."""
    out = []
    p = 0
    while len(buf) - p >= 2:
        op = buf[p] & 0x0F
        masked = buf[p + 1] & 0x80
        n = buf[p + 1] & 0x7F
        q = p + 2
        if n == 126:
            if len(buf) - q < 2:
                break
            n = int.from_bytes(buf[q:q + 2], "big")
            q += 2
        elif n == 127:
            if len(buf) - q < 8:
                break
            n = int.from_bytes(buf[q:q + 8], "big")
            q += 8
        mask = b""
        if masked:
            if len(buf) - q < 4:
                break
            mask = bytes(buf[q:q + 4])
            q += 4
        if len(buf) - q < n:
            break
        data = bytes(buf[q:q + n]) if op != 2 else b""  # (binary frames are ballast: dropped unread)
        if masked and op != 2:
            data = bytes(b ^ mask[i & 3] for i, b in enumerate(data))
        out.append((op, data))
        p = q + n
    return out, p


class Server:
    """Scripted raw HTTP/WebSocket server.  Behaviour is chosen per request from
    the request's own path; only /victim requests are ever stalled."""

    def __init__(self, loop, net, scn):
        self.loop = loop
        self.net = net
        self.scn = scn
        self.conns = []
        self.stall = scn.get("stall")
        self.point = self.stall["point"] if self.stall else None
        self.victim_conn = None
        self.victim_req_done = False  # the victim's request was received completely
        self.victim_resp_done = False  # the victim's response was handed to the transport completely
        self.victim_resp_end = None  # offset in the server->client stream at which the victim's response ends
        self.stall_reached = False
        self.stall_t = None
        self.ws_close_seen = False

    def factory(self):
        return RawServerConn(self)

    def on_connect(self, conn):
        conn.stalled = False
        conn.held = False
        conn.ws = False
        conn.after_victim = 0  # requests that arrived on this connection after the victim's
        conn.saw_victim = False

    def on_eof(self, conn):
        pass

    def on_lost(self, conn):
        pass

    def _mark_victim(self, conn):
        if not conn.saw_victim:
            conn.saw_victim = True
            self.victim_conn = conn

    def on_data(self, conn):
        loop = self.loop
        ev = getattr(conn.transport.peer, "c18_ev", None)
        if ev is not None:
            ev.append((loop.time(), "sent"))  # request bytes reached the peer
        if conn.ws:
            self._ws_data(conn)
            return
        if not conn.saw_victim and b"/victim" in conn.buf[:64]:
            self._mark_victim(conn)
            if self.point == "send_body" and not conn.held:
                # the peer stops reading once it has seen whose request this is
                conn.held = True
                self.stall_reached, self.stall_t = True, self.loop.time()
                loop.faults["stall_send_body"] += 1
                self.net.hold(conn.transport.inp)
                if self.stall.get("dur"):
                    loop.sim_call_later(self.stall["dur"], self.net.release, conn.transport.inp)
        while True:
            r = parse_simple_request(conn.buf)
            if r is None:
                return
            req, used = r
            del conn.buf[:used]
            conn.requests.append(req)
            path = req["target"]
            if conn.stalled or (conn.saw_victim and self.victim_req_done and not path.startswith(b"/victim")):
                if conn.saw_victim:
                    conn.after_victim += 1
            if conn.stalled:
                continue  # in-order protocol: nothing is answered behind a stalled response
            if path.startswith(b"/victim"):
                self.victim_req_done = True
                low = {a.lower(): b for a, b in req["headers"]}
                if low.get(b"upgrade", b"").lower() == b"websocket":
                    key = low.get(b"sec-websocket-key", b"")
                    acc = base64.b64encode(hashlib.sha1(key + WS_GUID).digest())
                    conn.ws = True
                    conn.send(b"HTTP/1.1 101 Switching Protocols\r\nUpgrade: websocket\r\nConnection: upgrade\r\n"
                              b"Sec-WebSocket-Accept: " + acc + b"\r\n\r\n")
                    if conn.buf:
                        self._ws_data(conn)
                    return
                self._answer_victim(conn)
            else:
                delay = 0.0
                if b"d=" in path:
                    delay = int(path.split(b"d=")[1].split(b"&")[0]) / 1000.0
                body = b"ok-" + path
                data = b"HTTP/1.1 200 OK\r\nContent-Length: %d\r\n\r\n" % len(body) + body
                if delay > 0:
                    loop.sim_call_later(delay, conn.send, data)
                else:
                    conn.send(data)

    def _answer_victim(self, conn):
        loop = self.loop
        resp = self.scn["resp"]
        full, cuts = build_response(resp)
        cut = len(full)
        if self.point in RESP_POINTS:
            cut = cuts.get(self.point, len(full))
        pieces = max(1, resp.get("pieces", 1))
        gap = resp.get("gap", 0.0)
        bounds = sorted({cut * (i + 1) // pieces for i in range(pieces)} - {0})
        # a body delimited by EOF ends with the peer's close: the peer can also go silent with every
        # byte sent and the connection still open
        eof = resp["framing"] == "eof"
        stalls = cut < len(full) or (eof and self.point == "final_chunk")
        if stalls:
            conn.stalled = True

        def end_of_response():
            self.victim_resp_done = True
            self.victim_resp_end = conn.transport.out.written
            if eof and not conn.transport.is_closing():
                loop.note("server_close", "victim response delimited by EOF")
                conn.transport.close()

        def finish():
            if stalls:
                self.stall_reached, self.stall_t = True, self.loop.time()
                loop.faults["stall_" + self.point] += 1
                if self.stall.get("dur"):
                    def resume():
                        conn.stalled = False
                        if cut < len(full):
                            conn.send(full[cut:])
                        end_of_response()
                    loop.sim_call_later(self.stall["dur"], resume)
            else:
                end_of_response()

        def piece(i, prev):
            # pieces are chained so that they cannot overtake each other
            conn.send(full[prev:bounds[i]])
            if i + 1 < len(bounds):
                loop.sim_call_later(gap, piece, i + 1, bounds[i])
            else:
                finish()
        if bounds:
            loop.sim_call_later(resp.get("delay", 0.0), piece, 0, 0)
        else:
            loop.sim_call_later(resp.get("delay", 0.0), finish)

    def _ws_data(self, conn):
        msgs, used = ws_parse(conn.buf)
        del conn.buf[:used]
        for op, data in msgs:
            if op == 1:
                conn.send(ws_frame(1, b"echo:" + data))
                if self.point == WS_SEND_POINT and not conn.held:
                    # the peer answers the first message and then stops reading
                    conn.held = True
                    self.stall_reached, self.stall_t = True, self.loop.time()
                    self.loop.faults["stall_" + WS_SEND_POINT] += 1
                    self.net.hold(conn.transport.inp)
                    if self.stall.get("dur"):
                        self.loop.sim_call_later(self.stall["dur"], self.net.release, conn.transport.inp)
            elif op == 9:
                conn.send(ws_frame(10, data))
            elif op == 8:
                self.ws_close_seen = True
                if self.point == "ws_close":
                    self.stall_reached, self.stall_t = True, self.loop.time()
                    self.loop.faults["stall_ws_close"] += 1
                    conn.stalled = True
                    if self.stall.get("dur"):
                        self.loop.sim_call_later(self.stall["dur"], conn.send, ws_frame(8, data[:2]))
                else:
                    conn.send(ws_frame(8, data[:2]))
                    self.victim_resp_done = True


# ------------------------------------------------------------------ harness pieces
class StepCounter:
    """Coroutine wrapper: records the loop step of every step of the wrapped task."""

    __qualname__ = "victim"
    __name__ = "victim"

    def __init__(self, coro, loop, steps, times):
        self._coro = coro
        self._loop = loop
        self._steps = steps
        self._times = times
        self.woken_at = "not_started"  # innermost aiohttp frame the task was suspended in before its latest step

    def _note(self):
        self._steps.append(self._loop.steps)
        self._times.append(self._loop.time())
        if len(self._steps) > 1:
            self.woken_at = suspended_at(self._coro)

    def send(self, value):
        self._note()
        return self._coro.send(value)

    def throw(self, *args):
        self._note()
        return self._coro.throw(*args)

    def close(self):
        return self._coro.close()

    def __await__(self):
        return self

    def __iter__(self):
        return self

    def __next__(self):
        return self.send(None)


class _TimedLog(list):
    """SimTransport.recv_log replacement: notes *when* each delivery happened."""

    def __init__(self, loop, tr):
        super().__init__()
        self._loop = loop
        self._tr = tr

    def append(self, item):
        tr = self._tr
        tr.c18_ev.append((self._loop.time(), "rx"))
        tr.c18_rxcum += len(item[1])
        if len(item[1]) > tr.c18_rxmax:
            tr.c18_rxmax = len(item[1])
        tr.c18_rxlog.append((self._loop.time(), tr.c18_rxcum))


def silence(events, t_end):
    """(reference instant, reason, unpaused silence) of a client transport at t_end.
    The read timeout counts from the last byte received (or the request having been
    sent, or the reader resuming a paused transport) and does not run while the
    reader has paused the transport.  The reference instant (for the upper bound)
    takes the latest candidate, including the moment the request bytes reached the
    peer ("sent"); the silence (for the "not earlier than" check) is counted from the
    last byte received or handed to the transport ("write")."""
    ref, why, base, paused_since, paused = None, "nothing", None, None, 0.0
    names = {"rx": "last byte received", "write": "last request byte written",
             "sent": "last request byte delivered to the peer", "resume": "reader resumed the transport"}
    for t, k in events:
        if t > t_end:
            break
        if k == "rx" or k == "write":
            base, paused = t, 0.0
            if paused_since is not None:
                paused_since = t
        elif k == "pause":
            paused_since = t
        elif k == "resume":
            if paused_since is not None and base is not None:
                paused += t - max(paused_since, base)
            paused_since = None
        if k in names:
            ref, why = t, names[k]
    if base is None:
        return ref, why, 0.0
    if paused_since is not None:
        paused += t_end - max(paused_since, base)
    return ref, why, (t_end - base) - paused


def max_silence(events, t_end):
    """Longest period up to t_end during which the client transport was willing to read
    (not paused by the reader) and neither received a byte nor wrote one."""
    best, base, paused_since, paused = 0.0, None, None, 0.0
    for t, k in events:
        if t > t_end:
            break
        if k == "rx" or k == "write":
            if base is not None:
                p_ = paused + ((t - max(paused_since, base)) if paused_since is not None else 0.0)
                best = max(best, (t - base) - p_)
            base, paused = t, 0.0
            if paused_since is not None:
                paused_since = t
        elif k == "pause":
            if paused_since is None:
                paused_since = t
        elif k == "resume":
            if paused_since is not None and base is not None:
                paused += t - max(paused_since, base)
            paused_since = None
    if base is not None:
        p_ = paused + ((t_end - max(paused_since, base)) if paused_since is not None else 0.0)
        best = max(best, (t_end - base) - p_)
    return best


def suspended_at(coro):
    """Innermost aiohttp frame in which a coroutine is currently suspended."""
    import os

    last = None
    c = coro
    for _ in range(80):
        if c is None:
            break
        if type(c).__name__ == "coroutine_wrapper":  # `await ctx_manager`: coro.__await__()
            import gc
            inner = [x for x in gc.get_referents(c) if hasattr(x, "cr_frame")]
            c = inner[0] if inner else None
            continue
        fr = getattr(c, "cr_frame", None) or getattr(c, "gi_frame", None) or getattr(c, "ag_frame", None)
        if fr is not None and "/aiohttp/" in fr.f_code.co_filename:
            last = f"{os.path.basename(fr.f_code.co_filename)}:{fr.f_code.co_name}"
        c = getattr(c, "cr_await", None) or getattr(c, "gi_yieldfrom", None) or getattr(c, "ag_await", None)
    return last or "outside_aiohttp"


def _task_tracking(loop, registry):
    """Task subclass that records which task created it (eager tasks included)."""
    from sim import loop as simloop

    class TrackTask(simloop.SimTask):
        def __init__(self, coro, *, loop=None, name=None, context=None, eager_start=False):
            try:
                parent = asyncio.tasks.current_task(loop)
            except RuntimeError:
                parent = None
            self.c18_parent = parent
            q = getattr(coro, "__qualname__", None) or type(coro).__name__
            self.c18_kind = q
            registry.append(self)
            super().__init__(coro, loop=loop, name=name, context=context, eager_start=eager_start)

    return TrackTask


def make_timeout(aiohttp, scn, override_total=None):
    to = scn.get("timeout")
    kw = {"total": None, "connect": None, "sock_connect": None, "sock_read": None,
          "ceil_threshold": scn.get("ceil_threshold", 5)}
    if override_total is not None:
        kw["total"] = override_total
    elif to and to["kind"] in ("total", "connect", "sock_connect", "sock_read") and to.get("value"):
        kw[to["kind"]] = to["value"]
    return aiohttp.ClientTimeout(**kw)


class Exec:
    """One execution (one World) of a scenario."""

    def __init__(self, scn, ch, log, cancel=None, total_at=None):
        self.scn = scn
        self.ch = ch
        self.log = log
        self.cancel = cancel      # None | ("step", abs_step) | ("time", abs_time)
        self.total_at = total_at  # None | total timeout value placed on a step instant
        self.viols = []
        self.probes = collections.Counter()
        self.steps = []   # absolute loop steps at which the victim task ran
        self.times = []
        self.rec = {}

    def violate(self, inv, key, msg):
        if not any(v["invariant"] == inv and v["key"] == key for v in self.viols):
            self.viols.append({"invariant": inv, "key": key, "message": msg})

    # -------------------------------------------------------------- the workload
    async def _setup(self, net):
        import aiohttp

        scn = self.scn
        dns = scn.get("dns", {})

        def dns_script(host, n):
            self.rec.setdefault("dns_calls", []).append((self.loop.time(), host))
            d = dns.get("delay", 0.0)
            if host == V_HOST and self.point == "dns":
                self.loop.faults["stall_dns"] += 1
                self.server.stall_reached, self.server.stall_t = True, self.loop.time()
                self.rec["dns_stall_t"] = self.loop.time()
                return ("ok", self.scn["stall"].get("dur") or DNS_SLOW)
            return ("ok", d)

        self.resolver = SimResolver(net, script=dns_script)
        tcs = []
        if scn.get("traces"):
            tc = aiohttp.TraceConfig()

            async def hook(session, ctx, params):
                await asyncio.sleep(0)
            for name in ("on_request_start", "on_connection_queued_start", "on_connection_queued_end",
                         "on_connection_create_start", "on_connection_create_end", "on_connection_reuseconn",
                         "on_dns_resolvehost_start", "on_dns_resolvehost_end", "on_dns_cache_hit", "on_dns_cache_miss",
                         "on_request_headers_sent", "on_request_chunk_sent", "on_response_chunk_received",
                         "on_request_end", "on_request_exception"):
                getattr(tc, name).append(hook)
            tcs.append(tc)
        self.connector = aiohttp.TCPConnector(
            resolver=self.resolver, limit=scn.get("limit", 2), limit_per_host=scn.get("limit_per_host", 0),
            use_dns_cache=True, ttl_dns_cache=scn.get("ttl_dns", 100))
        self.session = aiohttp.ClientSession(connector=self.connector, timeout=aiohttp.ClientTimeout(total=None),
                                             trace_configs=tcs)
        self.aiohttp = aiohttp

    def _body(self):
        b = self.scn.get("body") or {"kind": "none"}
        if b["kind"] == "none":
            return None
        if b["kind"] == "bytes":
            return b"u" * b["size"]
        n, per, gap = b.get("nchunks", 4), b["size"] // max(1, b.get("nchunks", 4)), b.get("gap", 0.0)

        async def gen():
            for i in range(n):
                if gap:
                    await asyncio.sleep(gap)
                yield b"s" * max(1, per)
        return gen()

    async def _victim_http(self):
        scn, rec, loop = self.scn, self.rec, self.loop
        to = make_timeout(self.aiohttp, scn, self.total_at)
        rd = scn.get("read") or {"mode": "read"}
        kw = {}
        if rd.get("bufsize"):
            kw["read_bufsize"] = rd["bufsize"]
        method = "POST" if (scn.get("body") or {"kind": "none"})["kind"] != "none" else "GET"
        rec["t_call"] = loop.time()
        async with self.session.request(method, f"{self.v_scheme}://{V_HOST}/victim", data=self._body(), timeout=to,
                                        **kw) as resp:
            rec["t_headers"] = loop.time()
            if rd["mode"] == "read":
                body = await resp.read()
            else:
                parts = []
                while True:
                    chunk = await resp.content.read(rd.get("n", 512))
                    if not chunk:
                        break
                    parts.append(chunk)
                    rec["in_sleep"] = True
                    await asyncio.sleep(rd.get("gap", 0.0))
                    rec["in_sleep"] = False
                body = b"".join(parts)
        return ("http", resp.status, body)

    async def _victim_ws(self):
        scn, rec, loop = self.scn, self.rec, self.loop
        to = scn.get("timeout")
        wsc = to["value"] if to and to["kind"] == "ws_close" else None
        rec["t_call"] = loop.time()
        async with self.session.ws_connect(f"{self.v_scheme}://{V_HOST}/victim-ws",
                                           timeout=self.aiohttp.ClientWSTimeout(ws_close=wsc)) as ws:
            rec["t_headers"] = loop.time()
            try:
                await ws.send_str("m0")
                msg = await ws.receive()
                rec["ws_echo"] = (msg.type.name, msg.data)
                if scn.get("ws_fill"):
                    await self._ws_fill(ws, scn["ws_fill"])
            finally:
                rec["t_close"] = loop.time()
                if scn.get("ws_fill"):
                    closed = await ws.close(message=b"r" * scn["ws_fill"]["reason"])
                else:
                    closed = await ws.close()
                rec["t_closed"] = loop.time()
        exc = ws.exception()
        return ("ws", closed, ws.close_code, type(exc).__name__ if exc is not None else None)

    async def _ws_fill(self, ws, fill):
        """Outbound ballast before the close: binary frames (the peer has stopped reading, so the transport
        pauses writing) up to `off` bytes below the point at which the frame writer next waits for the
        transport to drain, so that the close frame (2 + 4 + 2 + reason bytes) is the write that has to wait.
        The writer's own counter and limit are read (white box): the workload must hit a window of a hundred
        bytes in 256 KiB.  No send here waits itself: the counter stays at or below the limit."""
        wr, rec = ws._writer, self.rec
        limit, S = getattr(wr, "_limit", None), fill["chunk"]
        if limit is None or not hasattr(wr, "_output_size"):
            self.probes["ws_fill_writer_has_no_counter"] += 1
            return
        target = limit - fill["off"]
        for _ in range(400):
            r = target - wr._output_size
            if r < 134:
                break
            await ws.send_bytes(b"f" * (S if r > 60000 else r - 8))
            if r <= 60000:
                break
        rec["ws_fill_left"] = target - wr._output_size
        rec["ws_fill_paused"] = bool(getattr(wr.protocol, "_paused", False))

    async def _simple(self, host, path):
        scheme = self.v_scheme if host == V_HOST else "http"
        async with self.session.get(f"{scheme}://{host}{path}") as resp:
            body = await resp.read()
        return (resp.status, body)

    async def _handshake(self, addr):
        """Scripted TLS handshake of a client connection whose TCP connect has succeeded (SimNet has no
        TLS): it takes `delay`, stalls when the victim's handshake is the stall point (for ever: the peer never
        answers the ClientHello, or for `dur`), or fails once for the victim with a connection reset."""
        loop, tls, rec = self.loop, self.scn["tls"], self.rec
        t = asyncio.current_task()
        name = t.get_name() if t is not None else "?"
        first = not any(n == name for _, n, _ in self.handshakes)
        self.handshakes.append((loop.time(), name, addr))
        if name == "victim" and self.point == TLS_POINT:
            loop.faults["stall_tls"] += 1
            loop.note("tls_handshake", f"{addr}:stall")
            self.server.stall_reached, self.server.stall_t = True, loop.time()
            fut = loop.create_future()
            if self.scn["stall"].get("dur"):
                loop.sim_call_later(self.scn["stall"]["dur"], lambda: fut.done() or fut.set_result(None))
            await fut  # cancellable; never completes without `dur`
            return
        fail = bool(name == "victim" and tls.get("fail") and first)
        loop.note("tls_handshake", f"{addr}:{'fail' if fail else 'ok'}")
        if tls.get("delay"):
            fut = loop.create_future()
            loop.sim_call_later(tls["delay"], lambda: fut.done() or fut.set_result(None))
            await fut
        if fail:
            loop.faults["tls_fail"] += 1
            rec["tls_failed"] = True
            raise ConnectionResetError(104, "Connection reset by peer during the TLS handshake")

    # -------------------------------------------------------------- the run
    def run(self):
        scn = self.scn
        stall = scn.get("stall")
        self.point = stall["point"] if stall else None
        self.v_scheme = "https" if scn.get("tls") else "http"
        self.handshakes = []
        with World(self.ch, 0, log_events=self.log) as w:
            self.w = w
            self.loop = loop = w.loop
            net = w.net
            try:
                return self._run_in_world(w, loop, net)
            finally:
                self._restore()

    def _restore(self):
        for obj, name, old in reversed(getattr(self, "_patched", [])):
            setattr(obj, name, old)
        self._patched = []

    def _patch(self, obj, name, new):
        self._patched.append((obj, name, getattr(obj, name)))
        setattr(obj, name, new)

    def _run_in_world(self, w, loop, net):
        import aiohttp.connector as connector_mod

        scn = self.scn
        self._patched = []
        net.max_latency_ticks = scn.get("lat", 0)
        net.dns[V_HOST] = V_IPS[:scn.get("ips", 1)]
        net.dns[B_HOST] = [B_IP]
        self.server = server = Server(loop, net, scn)
        for ip in V_IPS + [B_IP]:
            net.listen(server.factory, ip, 80)
        if scn.get("tls"):
            # every request for the victim's host goes to https://: the connector hands the connected socket
            # and an SSL context to loop.create_connection(), which is where the handshake takes place
            for ip in V_IPS:
                net.listen(server.factory, ip, 443)
            plain_create_connection = loop.create_connection

            async def create_connection(factory, host=None, port=None, *, ssl=None, sock=None, **kw):
                if ssl is not None and sock is not None:
                    await self._handshake(sock.sim_addr)
                return await plain_create_connection(factory, host, port, ssl=ssl, sock=sock, **kw)
            loop.create_connection = create_connection
        pol_c2s, pol_s2c = scn.get("seg_c2s", "mss"), scn.get("seg_s2c", "whole")
        self.ctrs = []

        def on_connect(ctr, str_):
            ctr.out.policy = pol_c2s
            str_.out.policy = pol_s2c
            ctr.c18_ev = []
            ctr.c18_rxcum = 0
            ctr.c18_rxmax = 0
            ctr.c18_rxlog = []
            ctr.c18_paused = 0
            ctr.recv_log = _TimedLog(loop, ctr)
            w_, r_, p_ = ctr.write, ctr.resume_reading, ctr.pause_reading

            def write(data):
                if data:
                    ctr.c18_ev.append((loop.time(), "write"))
                return w_(data)

            def resume_reading():
                if ctr._read_paused and not ctr._closing:
                    ctr.c18_ev.append((loop.time(), "resume"))
                return r_()

            def pause_reading():
                if not ctr._read_paused and not ctr._closing:
                    ctr.c18_paused += 1
                    ctr.c18_ev.append((loop.time(), "pause"))
                return p_()
            ctr.write, ctr.resume_reading, ctr.pause_reading = write, resume_reading, pause_reading
            self.ctrs.append(ctr)
        net.on_connect = on_connect

        self.connects = []

        def connect_script(addr, n):
            t = asyncio.current_task()
            name = t.get_name() if t is not None else "?"
            self.connects.append((loop.time(), name, addr))
            if name == "victim" and self.point == "connect":
                loop.faults["stall_connect"] += 1
                server.stall_reached, server.stall_t = True, loop.time()
                return ("stall", 0.0)
            return ("ok", net.latency())
        net.connect_script = connect_script

        # harness-side pool count: every Connection handed out; kept alive so that a leaked
        # one cannot clean up after itself through __del__
        handed = []

        class CountingConnection(connector_mod.Connection):
            __slots__ = ()

            def __init__(self, *a, **kw):
                super().__init__(*a, **kw)
                handed.append(self)
        CountingConnection.__name__ = CountingConnection.__qualname__ = "Connection"
        self._patch(connector_mod, "Connection", CountingConnection)
        registry = []
        TrackTask = _task_tracking(loop, registry)
        self._patch(asyncio, "Task", TrackTask)
        self._patch(asyncio.tasks, "Task", TrackTask)
        loop.set_task_factory(lambda lp, coro, **kw: TrackTask(coro, loop=lp, **kw))

        t = loop.run_sim(self._setup(net), vt_cap=0.5)
        t.result()
        connector = self.connector
        rec = self.rec

        # ---- schedule the actors
        tasks = {}

        def start(name, coro_fn):
            tasks[name] = loop.create_task(coro_fn(), name=name)

        bys = scn.get("bystanders") or []
        for i, b in enumerate(bys):
            host = V_HOST if b["host"] == "v" else B_HOST
            path = f"/by{i}?d={int(b['delay'] * 1000)}"
            loop.call_at(T0 + b["start"], start, f"by{i}", lambda host=host, path=path: self._simple(host, path))

        vic = {}

        def do_cancel():
            vt_ = vic["task"]
            if not vt_.done():
                loop.faults["cancel_fired"] += 1
                rec["cancel_t"] = loop.time()
                rec["cancel_step"] = loop.steps
                rec["cancelled"] = True
                rec["cancel_phase"] = self._phase()
                rec["cancel_at"] = suspended_at(vic.get("coro"))
                # a cancel request (from the total / connect timer) is already pending
                rec["timer_fired_before_cancel"] = vt_.cancelling() > 0
                loop.note("cancel", "victim")
                vt_.cancel()

        def start_victim():
            coro = self._victim_ws() if scn.get("op") == "ws" else self._victim_http()
            sc = StepCounter(coro, loop, self.steps, self.times)
            vt_ = loop.create_task(sc, name="victim")
            vic["task"] = vt_
            vic["coro"] = coro
            tasks["victim"] = vt_

            def done(fut):
                rec["t_done"] = loop.time()
                rec["step_done"] = loop.steps
                vc_ = server.victim_conn
                ctr_ = vc_.transport.peer if vc_ is not None and vc_.transport is not None else None
                rec["exch_complete"] = bool(
                    server.victim_req_done and server.victim_resp_done and ctr_ is not None
                    and server.victim_resp_end is not None and ctr_.inp.delivered >= server.victim_resp_end)
                rec["end_phase"] = self._phase()
                rec["end_at"] = sc.woken_at
            vt_.add_done_callback(done)
            if self.cancel is not None:
                loop.at_step.setdefault(self.cancel[1], []).append(do_cancel)

        loop.call_at(T0, start_victim)

        def probe_wait():
            if not vic["task"].done():
                if sum(len(v) for v in connector._waiters.values()):
                    rec["waiters_seen"] = True
                    if self.point == "pool" and not server.stall_reached and \
                            not any(n == "victim" for _, n, _ in self.connects):
                        # (reach only) every slot is taken and the victim has not got as far as connecting
                        server.stall_reached, server.stall_t = True, T0
                        loop.faults["stall_pool"] += 1
                if any(len(v) for v in connector._throttle_dns_futures.values()):
                    rec["dns_shared"] = True
        for dt in (0.001, 0.05):
            loop.call_at(T0 + dt, probe_wait)
        loop.run_sim(None, vt_cap=T0)  # bystanders that start earlier; the victim's first steps
        if "task" not in vic:
            raise RuntimeError("victim did not start")
        vt = vic["task"]

        # ---- let the victim run to its end (or to the horizon)
        horizon = T0 + HORIZON
        loop.run_sim(vt, vt_cap=horizon, step_cap=400_000)
        step_capped = loop.capped == "steps"
        pending_at_horizon = not vt.done()
        if pending_at_horizon and not step_capped and loop.idle and loop.capped is None:
            # nothing at all is left to happen (no timer, no network event): the victim is blocked for ever,
            # whatever the clock says now
            rec["blocked_for_ever"] = True
        if pending_at_horizon and not step_capped:
            # still blocked: the bounds are judged below; cancel it here so that residue can be
            # judged as well ("cancel while stalled")
            loop.faults["cancel_stalled"] += 1
            rec["cancelled"] = True
            rec["cancel_t"] = loop.time()
            rec["stalled_cancel"] = True
            rec["cancel_phase"] = self._phase()
            rec["cancel_at"] = suspended_at(vic.get("coro"))
            loop.note("cancel", "victim-stalled")
            vt.cancel()
            loop.run_sim(vt, vt_cap=loop.time() + 5.0, step_cap=loop.steps + 50_000)
        # settle the current instant: everything already runnable runs, time does not advance
        loop.run_sim(None, vt_cap=loop.time(), step_cap=loop.steps + 50_000)
        self._judge_victim(vt, pending_at_horizon, registry, step_capped)

        # ---- a follow-up request on the same session right away, while bystanders run out
        # (not in every run: later traffic on the connector can rescue a waiter whose wake-up was lost)
        f1 = None
        if scn.get("follow_early", True):
            f1 = loop.create_task(self._simple(V_HOST, "/follow1"), name="followup1")
        # long enough for a bystander that only now gets a pool slot, resolves (<= DNS_SLOW) and is
        # answered (<= HOLD_DELAY); the loop goes idle earlier when nothing is left
        loop.run_sim(None, vt_cap=max(horizon, loop.time() + DNS_SLOW + HOLD_DELAY + 10.0), step_cap=loop.steps + 200_000)
        failed = rec.get("outcome") in ("timeout", "cancelled", "error")
        for i, b in enumerate(bys):
            self._judge_simple(f"bystander{i}", tasks.get(f"by{i}"), b"ok-/by%d?d=%d" % (i, int(b["delay"] * 1000)),
                               "bystander")
        if f1 is not None:
            self._judge_simple("follow-up request started when the victim ended", f1, b"ok-/follow1", "followup")
        # a bystander / follow-up that is blocked has been reported; take it out so that it cannot be
        # counted a second time as a connection in use
        stuck = [t_ for n_, t_ in sorted(tasks.items()) if n_ != "victim" and not t_.done()] + \
                ([f1] if f1 is not None and not f1.done() else [])
        for t_ in stuck:
            t_.cancel()
        if stuck:
            loop.run_sim(None, vt_cap=loop.time() + 0.5, step_cap=loop.steps + 50_000)
        f2 = loop.run_sim(loop.create_task(self._simple(V_HOST, "/follow2"), name="followup2"),
                          vt_cap=loop.time() + DNS_SLOW + 10.0, step_cap=loop.steps + 100_000)
        self._judge_simple("follow-up request after everything ended", f2, b"ok-/follow2", "followup")
        for ft in (f1, f2):
            if ft is not None and not ft.done():
                ft.cancel()
        loop.run_sim(None, vt_cap=loop.time() + 0.5, step_cap=loop.steps + 50_000)

        # ---- residue at quiescence
        vc = server.victim_conn
        phase = self._where()
        if vc is not None and ((failed and not rec.get("exch_complete")) or (scn.get("op") == "ws" and vt.done())):
            ctr = vc.transport.peer
            if vc.after_victim:
                self.violate("closed_not_reused", f"reused_after_{rec['outcome']}:{phase}",
                             f"the connection that carried the victim's unfinished exchange received "
                             f"{vc.after_victim} more request(s) after the victim ended with {rec['outcome']} "
                             f"({rec.get('exc')}) in phase {phase}: {[r['target'] for r in vc.requests[1:]]}")
            if not (ctr._closed or ctr._closing):
                self.violate("closed_not_reused", f"open_after_{rec['outcome']}:{phase}",
                             f"victim ended with {rec['outcome']} ({rec.get('exc')}) in the middle of its exchange "
                             f"(phase {phase}) but its transport {ctr.name} is still open at quiescence")
        outstanding = [c for c in handed if c._protocol is not None]
        if outstanding:
            self.violate("pool_counts_zero", f"connection_outstanding:{rec.get('outcome')}:{phase}",
                         f"{len(outstanding)} Connection object(s) handed out by the connector were neither released "
                         f"nor closed at quiescence (victim outcome {rec.get('outcome')}, phase {phase})")
        acq = len(connector._acquired)
        acq_h = sum(len(v) for v in connector._acquired_per_host.values())
        wq = sum(len(v) for v in connector._waiters.values())
        if acq or acq_h or wq:
            self.violate("pool_counts_zero", f"whitebox_counts_nonzero:{rec.get('outcome')}:{phase}",
                         f"white-box cross-check: connector._acquired={acq} _acquired_per_host={acq_h} waiters={wq} at "
                         f"quiescence with no request in flight (victim outcome {rec.get('outcome')}, phase {phase})")
        for t_ in registry:
            if not t_.done() and t_ is not f1 and t_ is not f2 and not any(t_ is x for x in tasks.values()):
                self.violate("no_task_alive", f"task_alive_at_end:{t_.c18_kind}",
                             f"task {t_.get_name()} ({t_.c18_kind}) still alive after every request finished "
                             f"(victim outcome {rec.get('outcome')}, phase {phase})")
        # ---- close the session: nothing may stay open
        ct = loop.run_sim(loop.create_task(self.session.close(), name="close"), vt_cap=loop.time() + 5.0,
                          step_cap=loop.steps + 50_000)
        if not ct.done():
            self.violate("session_close", "close_blocked", "session.close() did not return within 5 virtual seconds")
        loop.run_sim(None, vt_cap=loop.time() + 0.5, step_cap=loop.steps + 50_000)
        still = sorted(tr.name for tr in self.ctrs if not (tr._closed or tr._closing))
        if still:
            self.violate("session_close", f"transport_leaked:{rec.get('outcome')}:{phase}",
                         f"client transports {still} are still open after session.close(): the connector lost track of "
                         f"them (victim ended with {rec.get('outcome')} {rec.get('exc')} in phase {phase}; "
                         f"cancelled in phase {rec.get('cancel_phase')} before loop step {rec.get('cancel_step')})")
        import gc
        gc.collect()
        for c in loop.exc_contexts:
            self.violate("loop_exception", f"{c['exc_type']}@{c.get('frame')}:{c['message'][:40]}",
                         f"reached the event loop's exception handler: {c['message']} {c['exc']} "
                         f"(victim outcome {rec.get('outcome')}, phase {phase})")
        st = w.stats()
        pr = self.probes
        if server.stall_reached:
            pr["stall_reached_" + str(self.point)] += 1
        if self.handshakes:
            pr["tls_handshakes"] += len(self.handshakes)
        if rec.get("waiters_seen"):
            pr["request_queued_for_pool_slot"] += 1
        if "ws_fill_left" in rec:
            pr["ws_fill_on_target_and_write_paused" if rec["ws_fill_left"] == 0 and rec.get("ws_fill_paused")
               else "ws_fill_missed"] += 1
        if (rec.get("cancel_at") or "").startswith(("writer.py:", "base_protocol.py:")) and self.point == WS_SEND_POINT:
            pr["cancel_while_close_frame_waits_for_drain"] += 1
        if rec.get("dns_shared"):
            pr["dns_waiter_joined_inflight_lookup"] += 1
        if any(getattr(c, "c18_paused", 0) for c in self.ctrs):
            pr["client_transport_paused"] += 1
        if st["faults"].get("pause_writing"):
            pr["writer_back_pressure"] += 1
        if any(len(c.requests) > 1 for c in server.conns):
            pr["keepalive_reuse"] += 1
        pr["outcome_" + str(rec.get("outcome"))] += 1
        if rec.get("exc"):
            pr["exc_" + rec["exc"]] += 1
        if rec.get("cancelled") and not rec.get("stalled_cancel"):
            pr["cancel_in_phase_" + str(rec.get("cancel_phase"))] += 1
        handed.clear()
        registry.clear()
        return {"viols": self.viols, "stats": st, "probes": pr, "steps": list(self.steps), "times": list(self.times),
                "pending": pending_at_horizon, "rec": rec, "stall_reached": server.stall_reached,
                "event_log": loop.event_log if self.log else None}

    def _where(self):
        """Class of the place at which the victim was hit: for a cancellation the innermost
        aiohttp frame it was suspended in, for a time-out the protocol phase."""
        rec = self.rec
        if rec.get("cancelled"):
            return "cancel@" + str(rec.get("cancel_at"))
        return f"{rec.get('end_phase', '?')}@{rec.get('end_at')}"

    def _phase(self):
        """Where the victim is (from the outside: what has happened so far)."""
        srv = self.server
        if self.point is not None and srv.stall_reached and not (self.scn["stall"].get("dur") and srv.victim_resp_done):
            return self.point
        if srv.victim_conn is None:
            if not any(n == "victim" for _, n, _ in self.connects):
                return "before_connect"
            return "connecting_or_sending"
        if not srv.victim_req_done:
            return "sending"
        if not srv.victim_resp_done:
            return "awaiting_response"
        if self.scn.get("op") == "ws":
            return "ws_open" if not srv.ws_close_seen else "ws_closing"
        ctr = srv.victim_conn.transport.peer
        if srv.victim_resp_end is not None and ctr.inp.delivered >= srv.victim_resp_end:
            return "response_received"
        return "response_in_flight"

    def _judge_simple(self, who, task, expect_body, kind):
        if task is None:
            raise RuntimeError(f"{who} was never started")
        rec = self.rec
        phase = self._where()
        ctx = f"victim ended with {rec.get('outcome')} ({rec.get('exc')}) in phase {phase}"
        if not task.done():
            self.violate(kind + "_ok", f"{kind}_blocked:{rec.get('outcome')}:{phase}",
                         f"{who} is still blocked at quiescence although its own peer answers; {ctx}")
            return
        if task.cancelled():
            self.violate(kind + "_ok", f"{kind}_cancelled:{rec.get('outcome')}:{phase}", f"{who} was cancelled; {ctx}")
            return
        exc = task.exception()
        if exc is not None:
            self.violate(kind + "_ok", f"{kind}_failed:{type(exc).__name__}:{rec.get('outcome')}:{phase}",
                         f"{who} failed with {exc!r}; {ctx}")
            return
        status, body = task.result()
        if status != 200 or body != expect_body:
            self.violate(kind + "_ok", f"{kind}_wrong_response:{rec.get('outcome')}:{phase}",
                         f"{who} got status {status} body {body[:60]!r}, expected 200 {expect_body!r}; {ctx}")

    def _judge_victim(self, vt, pending_at_horizon, registry, step_capped):
        scn, rec, loop = self.scn, self.rec, self.loop
        stall = scn.get("stall")
        to = scn.get("timeout")
        if self.total_at is not None:
            to = {"kind": "total", "value": self.total_at}
        server = self.server
        if step_capped:
            rec["outcome"] = "step_cap"
            self.probes["step_capped"] += 1
            return
        # ---- outcome
        if not vt.done():
            rec["outcome"] = "stuck"
            self.violate("cancel_propagates", f"victim_ignores_cancel:{self._phase()}",
                         f"victim blocked in phase {self._phase()} is still pending 5 virtual seconds after task.cancel()")
            return
        exc = None
        if vt.cancelled():
            rec["outcome"] = "cancelled"
        else:
            exc = vt.exception()
            if exc is None:
                rec["outcome"] = "ok"
                rec["result"] = vt.result()
            elif isinstance(exc, asyncio.TimeoutError):
                rec["outcome"] = "timeout"
            else:
                rec["outcome"] = "error"
            if exc is not None:
                rec["exc"] = type(exc).__name__
        phase = self._where()
        t_done = rec.get("t_done", loop.time())
        cancelled_by_us = bool(rec.get("cancelled"))
        point = self.point
        kind = to["kind"] if to else "none"
        value = to.get("value") if to else None
        thr = scn.get("ceil_threshold", 5)
        rd = scn.get("read") or {}
        slack = rd.get("gap", 0.0) if rd.get("mode") == "slow" else 0.0  # the caller's own sleep between reads
        ws_exc = None
        if rec["outcome"] == "ok" and rec["result"][0] == "ws":
            ws_exc = rec["result"][3]  # ws.close() reports its time-out through ws.exception()

        # ---- a cancelled task ends cancelled
        if cancelled_by_us and rec["outcome"] == "timeout" and rec.get("timer_fired_before_cancel"):
            # The timeout had already fired (its timer had called task.cancel()) when the caller's cancel
            # arrived in the same loop iteration: the statement does not say which of the two wins, so a
            # timeout error is accepted as well; residue is judged all the same.
            self.probes["cancel_after_timer_fired_ended_as_timeout"] += 1
        elif cancelled_by_us and rec["outcome"] != "cancelled":
            self.violate("cancel_propagates", f"cancel_swallowed:{rec['outcome']}:{rec.get('exc')}:{rec.get('cancel_at')}",
                         f"task.cancel() was called on the pending victim before loop step {rec.get('cancel_step')} (phase "
                         f"{rec.get('cancel_phase')}, suspended in {rec.get('cancel_at')}) but it ended with {rec['outcome']} {rec.get('exc')}, not CancelledError")

        # ---- the time bound (upper bound only)
        if stall is not None and server.stall_reached and value is not None and covers(kind, point):
            dur = stall.get("dur") or (DNS_SLOW if point == "dns" else HOLD_DELAY - 0.2 if point == "pool" else None)
            ref, why = self._reference_instant(kind, point)
            if ref is None:
                self.probes["bound_not_judged_reader_paused"] += 1
                dur, ref = 0.0, t_done  # (not judged)
            dl = deadline(value, thr, ref)
            limit = dl + slack + EPS
            rec["deadline"] = dl
            stall_t = server.stall_t if server.stall_t is not None else T0
            if point == "pool":
                stall_t = T0 - 0.2
            if dur is None or (dur > 0 and stall_t + dur > limit + 0.5):  # the peer is still silent when the deadline passes
                if kind == "ws_close":
                    tc = rec.get("t_closed")
                    if tc is not None and tc > limit:
                        self.violate("timeout_bound", f"late:{kind}:{point}",
                                     f"ws.close() was called at {ref:.6f} with ws_close={value} and the peer never "
                                     f"answered the close frame: it must return by {dl:.6f} but returned at {tc:.6f}")
                    elif tc is None and rec.get("cancel_t", 0.0) > limit and "t_close" in rec:
                        self.violate("timeout_bound", f"missing:{kind}:{point}",
                                     f"ws.close() was called at {ref:.6f} with ws_close={value}: it must return by "
                                     f"{dl:.6f} but was still blocked at {rec['cancel_t']:.6f}")
                elif cancelled_by_us:
                    if (rec.get("cancel_t", 0.0) > limit or rec.get("blocked_for_ever")) and not rec.get("in_sleep"):
                        self.violate("timeout_bound", f"missing:{kind}:{point}",
                                     f"{kind}={value} (ceil_threshold {thr}), peer silent at '{point}': counted from "
                                     f"{ref:.6f} ({why}) the call must fail with a timeout error by {dl + slack:.6f} but it "
                                     f"was still blocked at {rec['cancel_t']:.6f}"
                                     + (" with no timer or network event left that could ever end it"
                                        if rec.get("blocked_for_ever") else ""))
                elif rec["outcome"] != "timeout":
                    self.violate("timeout_bound", f"wrong_outcome:{rec['outcome']}:{rec.get('exc')}:{kind}:{point}",
                                 f"{kind}={value}, peer silent at '{point}': the call must fail with a timeout error by "
                                 f"{dl + slack:.6f} but it ended with {rec['outcome']} {vt.exception()!r} at {t_done:.6f}")
                elif t_done > limit:
                    self.violate("timeout_bound", f"late:{kind}:{point}",
                                 f"{kind}={value} (ceil_threshold {thr}), peer silent at '{point}': counted from {ref:.6f} "
                                 f"({why}) the call must fail by {dl + slack:.6f} but {rec.get('exc')} was raised at {t_done:.6f}")
                elif kind in EXPECT_CLASS and rec.get("exc") != EXPECT_CLASS[kind]:
                    self.violate("timeout_error_class", f"{kind}:{point}:{rec.get('exc')}",
                                 f"{kind} timeout at '{point}' raised {rec.get('exc')}; documented: {EXPECT_CLASS[kind]}")

        # ---- no spurious failure
        if not cancelled_by_us and rec["outcome"] == "error" and rec.get("tls_failed") and \
                isinstance(exc, self.aiohttp.ClientConnectorError):
            # the peer reset the connection during the (scripted) TLS handshake and no other address was left
            self.probes["tls_handshake_failure_reported"] += 1
        elif not cancelled_by_us and rec["outcome"] == "error":
            self.violate("no_spurious_failure", f"error:{rec.get('exc')}:{phase}",
                         f"the peer never disconnects or misbehaves, yet the victim failed with {vt.exception()!r} in "
                         f"phase {phase} (stall={stall}, timeout={to})")
        timed_out = rec["outcome"] == "timeout" or ws_exc in ("TimeoutError", "SocketTimeoutError", "ServerTimeoutError")
        if not cancelled_by_us and timed_out:
            why_bad = None
            if value is None:
                why_bad = "no timeout is configured"
            elif kind in ("total", "connect") and t_done < rec.get("t_call", T0) + value - EPS:
                why_bad = f"{kind}={value} counted from the start of the call at {rec.get('t_call', T0):.6f} cannot be due yet"
            elif kind == "sock_connect":
                ts = [t for t, n, _ in self.connects if n == "victim"]
                if not ts or t_done < ts[-1] + value - EPS:
                    why_bad = f"sock_connect={value}: the victim's last connection attempt began at {ts[-1] if ts else None}"
            elif kind == "sock_read":
                vc = server.victim_conn
                ctr = vc.transport.peer if vc is not None else None
                if ctr is None:
                    why_bad = "sock_read is configured but nothing was sent yet"
                else:
                    t_end = t_done
                    if server.victim_resp_end is not None and scn["resp"].get("framing") != "eof":
                        # (a body delimited by EOF is not complete before the peer closes)
                        # once the whole response has been received there is nothing left to wait for
                        t_end = min([t_done] + [t for t, cum in ctr.c18_rxlog if cum >= server.victim_resp_end][:1])
                    quiet = max_silence(ctr.c18_ev, t_end)
                    if quiet < value - EPS:
                        pz = [k for t, k in ctr.c18_ev if k in ("pause", "resume") and t <= t_done]
                        # a single delivery larger than the reader's high-water mark (2 x read_bufsize) is
                        # only partly parsed before the reader pauses: the parser holds the rest
                        held = ctr.c18_rxmax > 2 * (rd.get("bufsize") or 65536)
                        rec["early_state"] = (
                            ("reader_had_paused_transport" + ("+parser_held_data" if held else ""))
                            if pz and pz[-1] == "pause" else "response_complete" if t_end < t_done else "reading")
                        why_bad = (f"sock_read={value} but the longest silence of the peer while the client was willing "
                                   f"to read was only {quiet:.6f} s (events {ctr.c18_ev[-6:]})")
            elif kind == "ws_close":
                if "t_close" not in rec or rec.get("t_closed", t_done) < rec["t_close"] + value - EPS:
                    why_bad = f"ws_close={value} but close() began at {rec.get('t_close')}"
            if why_bad:
                self.violate("no_spurious_failure",
                             f"early_timeout:{kind}:{rec.get('exc') or ws_exc}:{rec.get('early_state', '-')}:{phase}",
                             f"victim failed with {rec.get('exc') or ws_exc} at {t_done:.6f} in phase {phase}: {why_bad}")
        if rec["outcome"] == "ok" and not cancelled_by_us:
            res = rec["result"]
            if res[0] == "http":
                exp = expected_victim_body(scn["resp"])
                if res[1] != 200 or res[2] != exp:
                    self.violate("no_spurious_failure", "wrong_body",
                                 f"victim got status {res[1]} and {len(res[2])} body bytes, expected 200 and {len(exp)}")
            else:
                if rec.get("ws_echo") != ("TEXT", "echo:m0"):
                    self.violate("no_spurious_failure", "ws_echo", f"ws echo was {rec.get('ws_echo')}")
                if not (stall is not None and server.stall_reached) and (res[2] != 1000 or res[3] is not None):
                    self.violate("no_spurious_failure", f"ws_close:{res[3]}",
                                 f"peer answered the close frame but ws.close() reports code {res[2]} exception {res[3]}")
        # ---- no task created for the victim is alive once the call has ended
        for t_ in registry:
            if t_.done() or t_ is vt:
                continue
            p, depth = t_.c18_parent, 0
            while p is not None and p is not vt and depth < 10:
                p, depth = getattr(p, "c18_parent", None), depth + 1
            if p is vt:
                if "_resolve_host_with_throttle" in t_.c18_kind:
                    self.probes["shared_lookup_outlives_victim"] += 1
                    continue
                self.violate("no_task_alive", f"victim_task_alive:{t_.c18_kind}:{rec['outcome']}:{phase}",
                             f"a task running {t_.c18_kind} was created for the victim and is still alive after the "
                             f"victim ended with {rec['outcome']} ({rec.get('exc')}) in phase {phase}")

    def _reference_instant(self, kind, point):
        rec = self.rec
        if kind in ("total", "connect"):
            return rec.get("t_call", T0), "start of the call"
        if kind == "sock_connect":
            ts = [t for t, n, _ in self.connects if n == "victim"]
            return (ts[-1] if ts else T0), "start of the victim's last connection attempt"
        if kind == "ws_close":
            return rec.get("t_close", T0), "ws.close() called"
        vc = self.server.victim_conn
        ctr = vc.transport.peer
        t_end = rec.get("cancel_t") if rec.get("cancelled") else rec.get("t_done", self.loop.time())
        pz = [k for t, k in ctr.c18_ev if k in ("pause", "resume") and t <= t_end]
        if pz and pz[-1] == "pause":
            # the reader itself has the transport paused: the read timeout is suspended, no deadline
            return None, "reader has paused the transport"
        t, w_, _ = silence(ctr.c18_ev, t_end)
        return (t if t is not None else T0), w_


# ------------------------------------------------------------------ run()
class _Rec:
    """Records the values the baseline drew."""

    def __init__(self, parent):
        self.parent = parent
        self.values = []

    def draw(self, label, lo, hi):
        v = self.parent.draw(label, lo, hi)
        self.values.append(v)
        return v

    def chance(self, label, num, den):
        return self.draw(label, 0, den - 1) >= den - num

    def pick(self, label, seq):
        return seq[self.draw(label, 0, len(seq) - 1)]


class _Fork:
    """Replays the baseline's draws, then continues on the run's own tape."""

    def __init__(self, parent, prefix):
        self.parent = parent
        self.prefix = prefix
        self.pos = 0

    def draw(self, label, lo, hi):
        if self.pos < len(self.prefix):
            v = self.prefix[self.pos]
            self.pos += 1
            return lo if v < lo else hi if v > hi else v
        return self.parent.draw(label, lo, hi)

    def chance(self, label, num, den):
        return self.draw(label, 0, den - 1) >= den - num

    def pick(self, label, seq):
        return seq[self.draw(label, 0, len(seq) - 1)]


def run(scn, ch, log=False):
    viols = []

    def merge(vs, tag):
        for v in vs:
            if not any(x["invariant"] == v["invariant"] and x["key"] == v["key"] for x in viols):
                viols.append({"invariant": v["invariant"], "key": v["key"], "message": f"[{tag}] " + v["message"]})

    digest = hashlib.blake2b(digest_size=16)
    sig = hashlib.blake2b(digest_size=8)
    faults = collections.Counter()
    probes = collections.Counter()
    tot = {"steps": 0, "vtime": 0.0}
    logs = []

    def account(out, tag):
        st = out["stats"]
        digest.update(st["digest"].encode())
        sig.update(st["sig"].encode())
        faults.update(st["faults"])
        probes.update(out["probes"])
        tot["steps"] += st["steps"]
        tot["vtime"] += st["vtime"]
        if log:
            logs.append(f"==== {tag}")
            logs.extend(out["event_log"] or [])

    rec_ch = _Rec(ch)
    base_scn = dict(scn, cancel=None)
    to = scn.get("timeout")
    total_sweep = bool(to and to.get("at_step") is not None)
    if total_sweep:
        base_scn["timeout"] = None
    base = Exec(base_scn, rec_ch, log).run()
    account(base, "baseline")
    merge(base["viols"], "no cancel")
    K = len(base["steps"])
    probes["victim_steps_K"] += K
    nontrivial = bool(base["stall_reached"] or base["rec"].get("outcome") == "timeout")
    cancel = scn.get("cancel")
    execs = 1
    if cancel is not None:
        ks = range(K) if cancel["k"] == "all" else [cancel["k"]]
        for k in ks:
            if k >= K:
                probes["cancel_point_beyond_K"] += 1
                continue
            out = Exec(base_scn, _Fork(ch, rec_ch.values), log, cancel=("step", base["steps"][k])).run()
            execs += 1
            account(out, f"cancel before step {k}")
            merge(out["viols"], f"cancel before victim step {k} of {K}")
            if out["rec"].get("cancelled") and not out["rec"].get("stalled_cancel"):
                probes["cancel_points_fired"] += 1
                nontrivial = True
            if out["steps"][:k] != base["steps"][:k]:
                raise RuntimeError(f"replay of the baseline diverged before the cancel point {k}: "
                                   f"{out['steps'][:k]} vs {base['steps'][:k]}")
    if total_sweep:
        t0 = base["rec"].get("t_call", T0)
        instants = sorted({round(t - t0, 9) for t in base["times"] if t - t0 > 0})
        sel = instants if to["at_step"] == "all" else instants[to["at_step"]:to["at_step"] + 1]
        for v in sel:
            out = Exec(base_scn, _Fork(ch, rec_ch.values), log, total_at=v).run()
            execs += 1
            account(out, f"total={v}")
            merge(out["viols"], f"total timeout {v} placed on a step instant")
            probes["total_on_step_instant"] += 1
            if out["rec"].get("outcome") == "timeout":
                nontrivial = True
                probes["total_on_step_fired"] += 1
    probes["executions"] += execs
    stall = scn.get("stall")
    shape = (f"{scn.get('op', 'http')}-{stall['point'] if stall else 'nostall'}-{to['kind'] if to else 'none'}-"
             f"{(scn.get('body') or {}).get('kind', 'none')}-b{len(scn.get('bystanders') or [])}-"
             f"{'c' + str(cancel['k']) if cancel else 'nc'}{'+tls' if scn.get('tls') else ''}")
    res = {"violations": viols, "nontrivial": nontrivial, "sig": sig.hexdigest(), "digest": digest.hexdigest(),
           "steps": tot["steps"], "vtime": tot["vtime"], "faults": dict(faults),
           "probes": {k: v for k, v in sorted(probes.items()) if v}, "shape": shape}
    if log:
        res["event_log"] = logs
        res["debug"] = {"baseline": {k: (v if not isinstance(v, (bytes, tuple)) else repr(v)[:200])
                                     for k, v in base["rec"].items()}, "K": K}
    return res


# ------------------------------------------------------------------ scenarios
def _base_scn():
    return {"op": "http", "body": {"kind": "none"}, "resp": {"framing": "cl", "size": 300, "nchunks": 1, "pieces": 1,
                                                            "gap": 0.0, "delay": 0.0},
            "read": {"mode": "read"}, "stall": None, "timeout": None, "ceil_threshold": 5, "cancel": None,
            "limit": 2, "limit_per_host": 0, "bystanders": [], "dns": {"delay": 0.0}, "ips": 1, "traces": False,
            "lat": 0, "seg_c2s": "mss", "seg_s2c": "whole", "follow_early": True}


def _for_stall(scn, point, dur=None):
    """Make the scenario one in which the stall point can be reached."""
    scn["stall"] = {"point": point, "dur": dur} if point else None
    if point in ("chunk_size", "final_chunk"):
        scn["resp"] = dict(scn["resp"], framing="chunked", nchunks=3, size=max(scn["resp"]["size"], 600))
    if point == "send_body":
        if scn["body"]["kind"] == "none":
            scn["body"] = {"kind": "bytes", "size": 200_000}
        else:
            scn["body"] = dict(scn["body"], size=max(scn["body"]["size"], 200_000))
        scn["seg_c2s"] = "mss"
    if point in ("ws_close", WS_SEND_POINT):
        scn["op"] = "ws"
        scn["body"] = {"kind": "none"}
    if point == WS_SEND_POINT and not scn.get("ws_fill"):
        scn["ws_fill"] = {"chunk": 50_000, "off": 0, "reason": 100}
    if point == "pool":
        # every slot is held by a bystander whose (slow, not stalled) peer answers after HOLD_DELAY;
        # bystanders that start later queue up behind the victim
        n = 2 if scn["limit"] >= 3 else 1
        hold = [{"host": "v", "start": -0.2, "delay": HOLD_DELAY} for _ in range(n)]
        scn["limit"] = n
        scn["limit_per_host"] = 0
        scn["bystanders"] = hold + [b for b in scn["bystanders"] if b["start"] >= 0][:1]
    if point == TLS_POINT and not scn.get("tls"):
        scn["tls"] = {"delay": 0.0, "fail": False}
    if point in ("dns", "connect", TLS_POINT):
        # no idle connection / cached answer for the victim's host may exist beforehand
        scn["bystanders"] = [b for b in scn["bystanders"] if not (b["host"] == "v" and b["start"] < 0)]
    return scn


EOF_HDRS = ["close", "bare", "http10"]


def _eof(scn, hdr="close"):
    """The victim's response body is delimited by the close of the connection (applied after _for_stall)."""
    scn["resp"] = dict(scn["resp"], framing="eof", eof_hdr=hdr)
    return scn


def _timeouts(tier):
    out = [None]
    values = (1.5, 7.25) if tier == "quick" else (0.3, 1.5, 5.0, 7.25)
    for kind in TIMEOUT_KINDS:
        for value in values:
            out.append({"kind": kind, "value": value})
    return out


# name -> (bystanders, DNS answer delay).  A DNS delay > 0 with a same-host bystander starting within
# it makes both requests share one in-flight look-up.
BY_LAYOUTS = {
    "none": ([], 0.0),
    "other_host": ([{"host": "b", "start": 0.0, "delay": 0.3}], 0.0),
    "same_host_first": ([{"host": "v", "start": 0.0, "delay": 0.4}], 0.2),         # bystander starts the look-up
    "same_host_second": ([{"host": "v", "start": 0.0005, "delay": 0.4}], 0.2),     # victim starts the look-up
    "same_host_before": ([{"host": "v", "start": -0.5, "delay": 0.05}], 0.0),      # leaves an idle connection
    "two": ([{"host": "v", "start": 0.0005, "delay": 0.6}, {"host": "b", "start": -0.1, "delay": 2.5}], 0.2),
    "two_same_host": ([{"host": "v", "start": 0.0005, "delay": 0.6}, {"host": "v", "start": 0.001, "delay": 0.05}], 0.2),
}


def _layout(scn, name):
    bys, dns = BY_LAYOUTS[name]
    scn["bystanders"] = [dict(b) for b in bys]
    scn["dns"] = {"delay": dns}
    scn["limit"] = 3 if len(bys) >= 2 else 2
    return scn


def enumerate_cases(tier, seed):
    quick = tier == "quick"
    points = [None] + STALL_POINTS
    # 1. stall point x timeout kind/value x bystander layout, no cancel: the time bound and the residue
    for point in points:
        for to in _timeouts(tier):
            if to and to["kind"] == "ws_close" and point not in ("ws_close", None):
                continue
            if point == "ws_close" and to and to["kind"] != "ws_close":
                continue
            for lay in (["none", "same_host_second", "same_host_first", "same_host_before"] if quick else list(BY_LAYOUTS)):
                for thr in ((5,) if quick else (5, 1)):
                    scn = _layout(_base_scn(), lay)
                    scn["timeout"] = dict(to) if to else None
                    scn["ceil_threshold"] = thr
                    if (to and to["kind"] == "ws_close") or point == "ws_close":
                        scn["op"] = "ws"
                    yield _for_stall(scn, point)
    # (6a: cheap cases without a cancel sweep, run together with the grid above)
    yield from _eof_cases(tier, "bound")
    yield from _ws_send_cases(tier, "bound")
    # 2. per stall point x {no timeout, each covering timeout kind}: cancel before every step of the
    #    calling task (the un-cancelled execution of the same scenario gives the steps)
    for point in points:
        kinds = [None]
        for k in TIMEOUT_KINDS:
            if point and covers(k, point):
                kinds.append({"kind": k, "value": 1.5})
                if not quick:
                    kinds.append({"kind": k, "value": 7.25})
        for to in kinds:
            for lay in BY_LAYOUTS:
                for traces in (False, True):
                    bodies = ["none", "stream", "bytes"] if point in (None, "send_body", "status") else ["none"]
                    if point == "ws_close":
                        bodies = ["none"]
                    for body in bodies:
                        for lat in ((1,) if quick else (0, 1, 3)):
                            # without the early follow-up nothing else touches the connector after the
                            # victim ended: a waiter whose wake-up was lost stays blocked
                            for early in ((True, False) if point == "pool" else (True,)):
                                scn = _layout(_base_scn(), lay)
                                scn["timeout"] = dict(to) if to else None
                                scn["traces"] = traces
                                scn["follow_early"] = early
                                if body == "stream":
                                    scn["body"] = {"kind": "stream", "size": 4000, "nchunks": 4, "gap": 0.01}
                                elif body == "bytes":
                                    scn["body"] = {"kind": "bytes", "size": 70_000}
                                scn = _for_stall(scn, point)
                                scn["cancel"] = {"k": "all"}
                                scn["lat"] = lat
                                yield scn
    # 2b. WebSocket session without a stall: cancel before every step of connect / send / receive / close
    for lay in BY_LAYOUTS:
        for traces in (False, True):
            scn = _layout(_base_scn(), lay)
            scn["op"] = "ws"
            scn["traces"] = traces
            scn["lat"] = 1
            scn["cancel"] = {"k": "all"}
            yield scn
    yield from _ws_send_cases(tier, "cancel")
    # 3. fault-free exchange, total timeout placed on every instant at which the calling task runs
    for body in ("none", "bytes", "stream"):
        for lay in ("none", "same_host_second", "same_host_before"):
            for traces in (False, True):
                scn = _layout(_base_scn(), lay)
                scn["lat"] = 2
                scn["traces"] = traces
                scn["resp"] = dict(scn["resp"], framing="chunked", nchunks=3, size=900, pieces=3, gap=0.01)
                if body == "bytes":
                    scn["body"] = {"kind": "bytes", "size": 150_000}
                elif body == "stream":
                    scn["body"] = {"kind": "stream", "size": 4000, "nchunks": 4, "gap": 0.01}
                scn["timeout"] = {"kind": "total", "at_step": "all"}
                yield scn
    # 4. slow consumer with a small read buffer (the reader pauses the transport) under sock_read,
    #    with and without a stall inside the body
    for gap in (0.5, 2.0):
        for point in (None, "body", "final_chunk"):
            for seg in ("whole", "mss"):
                scn = _base_scn()
                scn["resp"] = dict(scn["resp"], size=40_000)
                scn["read"] = {"mode": "slow", "n": 8192, "gap": gap, "bufsize": 1024}
                scn["timeout"] = {"kind": "sock_read", "value": 1.5}
                scn["seg_s2c"] = seg
                yield _for_stall(scn, point)
    yield from _tls_cases(tier)
    yield from _eof_cases(tier, "cancel")


def _ws_send_cases(tier, part):
    """2c. WebSocket close whose close frame has to wait for a write-paused transport (peer stopped reading):
    blocked until the horizon (where it is cancelled) with and without ws_close, or released after a while
    ("bound", cheap); cancel before every step of the calling task ("cancel")."""
    quick = tier == "quick"
    if part == "bound":
        for to in (None, {"kind": "ws_close", "value": 1.5}):
            for fill in ({"chunk": 50_000, "off": 0, "reason": 100}, {"chunk": 8_000, "off": 7, "reason": 0},
                         {"chunk": 30_000, "off": 130, "reason": 123}):
                for dur in (None, 4.0):
                    scn = _layout(_base_scn(), "none")
                    scn["timeout"] = dict(to) if to else None
                    scn["limit"] = 1
                    scn["ws_fill"] = dict(fill)
                    yield _for_stall(scn, WS_SEND_POINT, dur)
        return
    for lay in (["none", "same_host_before", "two"] if quick else list(BY_LAYOUTS)):
        for traces in (False, True):
            for to in (None, {"kind": "ws_close", "value": 1.5}):
                for fill in ({"chunk": 50_000, "off": 0, "reason": 100}, {"chunk": 8_000, "off": 7, "reason": 0},
                             {"chunk": 30_000, "off": 130, "reason": 123}):
                    if quick and (traces or to) and fill["off"] != 0:
                        continue
                    scn = _layout(_base_scn(), lay)
                    scn["timeout"] = dict(to) if to else None
                    scn["traces"] = traces
                    scn["lat"] = 1
                    scn["limit"] = 1 if lay == "none" else scn["limit"]
                    scn["ws_fill"] = dict(fill)
                    scn = _for_stall(scn, WS_SEND_POINT)
                    scn["cancel"] = {"k": "all"}
                    yield scn


def _eof_cases(tier, part=None):
    """6. response body delimited by EOF (no Content-Length, not chunked; the peer closes after the last byte)."""
    quick = tier == "quick"
    values = (1.5, 7.25) if quick else (0.3, 1.5, 5.0, 7.25)
    n = 0
    # 6a. stall point (final_chunk = every byte sent, connection left open) x timeout kind/value x layout
    for point in (None, "status", "header", "hdr_body", "body", "final_chunk"):
        for to in [None] + [{"kind": k, "value": v} for k in ("total", "sock_read", "connect") for v in values]:
            for lay in (["none", "same_host_before"] if quick else list(BY_LAYOUTS)):
                for mode in ("read", "slow"):
                    scn = _layout(_base_scn(), lay)
                    scn["timeout"] = dict(to) if to else None
                    if mode == "slow":
                        scn["read"] = {"mode": "slow", "n": 64, "gap": 0.0, "bufsize": None}
                    n += 1
                    if part in (None, "bound"):
                        yield _eof(_for_stall(scn, point), EOF_HDRS[n % 3])
    # 6b. cancel before every step of the calling task
    for point in (None, "hdr_body", "body", "final_chunk"):
        for to in (None, {"kind": "total", "value": 1.5}, {"kind": "sock_read", "value": 1.5}):
            if to and point is None:
                continue
            for lay in ("none", "same_host_second", "same_host_before"):
                for traces in ((False,) if quick else (False, True)):
                    scn = _layout(_base_scn(), lay)
                    scn["timeout"] = dict(to) if to else None
                    scn["traces"] = traces
                    scn["lat"] = 1
                    n += 1
                    scn = _eof(_for_stall(scn, point), EOF_HDRS[n % 3])
                    scn["cancel"] = {"k": "all"}
                    if part in (None, "cancel"):
                        yield scn


def _tls_cases(tier):
    """5. https target (scripted TLS handshake after the TCP connect)."""
    quick = tier == "quick"
    values = (1.5, 7.25) if quick else (0.3, 1.5, 5.0, 7.25)
    # 5a. the handshake never finishes x timeout kind/value x layout: the time bound and the residue
    for to in [None] + [{"kind": k, "value": v} for k in ("total", "connect", "sock_connect", "sock_read") for v in values]:
        for lay in (["none", "same_host_second", "same_host_first", "two"] if quick else list(BY_LAYOUTS)):
            for thr in ((5,) if quick else (5, 1)):
                for ips in (1, 2):
                    scn = _layout(_base_scn(), lay)
                    scn["timeout"] = dict(to) if to else None
                    scn["ceil_threshold"] = thr
                    scn["ips"] = ips
                    scn["tls"] = {"delay": 0.05, "fail": False}
                    yield _for_stall(scn, TLS_POINT)
    # 5b. cancel before every step of the calling task: handshake stalled (no / each covering timeout),
    #     handshake slow but fine, handshake reset by the peer (one address: error; two: the next one is tried)
    variants = [(TLS_POINT, None, False, 1)]
    variants += [(TLS_POINT, {"kind": k, "value": 1.5}, False, 1) for k in TIMEOUT_KINDS if covers(k, TLS_POINT)]
    variants += [(None, None, False, 1), (None, None, True, 1), (None, None, True, 2),
                 (None, {"kind": "sock_connect", "value": 1.5}, True, 2)]
    for point, to, fail, ips in variants:
        for lay in BY_LAYOUTS:
            for traces in (False, True):
                scn = _layout(_base_scn(), lay)
                scn["timeout"] = dict(to) if to else None
                scn["traces"] = traces
                scn["ips"] = ips
                scn["tls"] = {"delay": 0.3, "fail": fail}
                scn = _for_stall(scn, point)
                scn["cancel"] = {"k": "all"}
                scn["lat"] = 1
                yield scn


def gen(rng, tier, index):
    scn = _base_scn()
    point = rng.choice([None, None] + STALL_POINTS)
    scn["op"] = "ws" if point == "ws_close" or (point is None and rng.random() < 0.2) else "http"
    if scn["op"] == "http":
        bk = rng.choice(["none", "none", "bytes", "stream"])
        if bk == "bytes":
            scn["body"] = {"kind": "bytes", "size": rng.choice([10, 3000, 70_000, 200_000])}
        elif bk == "stream":
            scn["body"] = {"kind": "stream", "size": rng.choice([400, 4000, 160_000]), "nchunks": rng.choice([1, 4, 8]),
                           "gap": rng.choice([0.0, 0.01, 0.3])}
        fr = rng.choice(["cl", "chunked"])
        scn["resp"] = {"framing": fr, "size": rng.choice([20, 300, 5000, 40_000]), "nchunks": rng.choice([2, 3, 5]),
                       "pieces": rng.choice([1, 2, 3]), "gap": rng.choice([0.0, 0.01, 0.4, 0.9]),
                       "delay": rng.choice([0.0, 0.0, 0.2])}
        if rng.random() < 0.3:
            # at most a dozen reads, so that the consumer itself finishes well inside the horizon
            scn["read"] = {"mode": "slow", "n": max(16, scn["resp"]["size"] // rng.choice([2, 5, 12])),
                           "gap": rng.choice([0.0, 0.3, 2.0]),
                           "bufsize": rng.choice([None, 512, 4096])}
    scn["limit"] = rng.choice([1, 2, 2, 3])
    scn["limit_per_host"] = rng.choice([0, 0, 1, 2])
    nby = rng.choice([0, 1, 1, 2, 2])
    scn["bystanders"] = [{"host": rng.choice(["v", "v", "b"]),
                          "start": rng.choice([-0.5, -0.1, -0.001, 0.0, 0.0005, 0.002, 0.3, 2.0]),
                          "delay": rng.choice([0.0, 0.05, 0.4, 2.5, 9.0])} for _ in range(nby)]
    scn["dns"] = {"delay": rng.choice([0.0, 0.002, 0.2])}
    scn["ips"] = rng.choice([1, 1, 2])
    scn["traces"] = rng.random() < 0.3
    scn["lat"] = rng.choice([0, 1, 3])
    scn["seg_c2s"] = rng.choice(["mss", "small", "mixed"])
    scn["seg_s2c"] = rng.choice(["whole", "whole", "byte", "small", "mixed", "mss", "after_cr"])
    scn["ceil_threshold"] = rng.choice([5, 5, 5, 1, 10])
    scn["follow_early"] = rng.random() < 0.7
    dur = None
    r = rng.random()
    kinds = ["ws_close"] if scn["op"] == "ws" else ["total", "connect", "sock_connect", "sock_read"]
    if r < 0.8:
        kind = rng.choice(kinds)
        value = rng.choice([0.3, 1.5, 2.0, 4.99, 5.0, 5.5, 7.25, 12.0])
        scn["timeout"] = {"kind": kind, "value": value}
        if point is not None and rng.random() < 0.25:
            # a finite stall, clearly shorter or clearly longer than the timeout
            dur = rng.choice([value * 0.4, value + 3.0])
    elif point is not None and rng.random() < 0.3:
        dur = rng.choice([0.5, 6.0])
    scn = _for_stall(scn, point, dur)
    if point in ("pool",):
        scn["limit_per_host"] = 0
    if scn["seg_s2c"] in ("byte", "small", "mixed", "after_cr"):
        # fine-grained delivery: keep the response small (cost, not coverage: the parser is C03's subject)
        scn["resp"] = dict(scn["resp"], size=min(scn["resp"]["size"], 5000))
        if scn["read"].get("mode") == "slow":
            scn["read"] = dict(scn["read"], n=max(16, scn["resp"]["size"] // 5))
    if rng.random() < 0.5:
        scn["cancel"] = {"k": rng.randrange(0, 30)}
    elif rng.random() < 0.15:
        scn["cancel"] = {"k": "all"}
        scn["seg_s2c"] = rng.choice(["whole", "mss"])
        scn["seg_c2s"] = "mss"
        if scn["body"]["kind"] != "none" and point != "send_body":
            scn["body"] = dict(scn["body"], size=min(scn["body"]["size"], 70_000))
    elif scn["op"] == "http" and point is None and rng.random() < 0.2:
        scn["timeout"] = {"kind": "total", "at_step": rng.randrange(0, 12)}
    # https target (drawn last: every other scenario keeps its shape).  All requests for the victim's host
    # go through a scripted TLS handshake; in half of these the victim's handshake is the stall point.
    if rng.random() < 0.12:
        scn["tls"] = {"delay": rng.choice([0.0, 0.0, 0.002, 0.05, 0.4]), "fail": False}
        r = rng.random()
        if r < 0.5:
            to = scn.get("timeout")
            if scn["op"] == "ws":
                to = None  # (ws_connect takes the session's time-outs; only ws_close is set per call here)
            elif not to or to.get("at_step") is not None or rng.random() < 0.6:
                to = None
                if rng.random() < 0.85:
                    to = {"kind": rng.choice(["total", "connect", "sock_connect", "sock_connect", "sock_read"]),
                          "value": rng.choice([0.3, 1.5, 2.0, 4.99, 5.0, 5.5, 7.25, 12.0])}
            dur = None
            if rng.random() < 0.25:
                dur = rng.choice([to["value"] * 0.4, to["value"] + 3.0]) if to else rng.choice([0.5, 6.0])
            scn["timeout"] = to
            scn = _for_stall(scn, TLS_POINT, dur)
        elif r < 0.65:
            scn["tls"]["fail"] = True
    # response body delimited by EOF (drawn last).  Every response stall point keeps its meaning except the
    # chunk-size line; "final_chunk" becomes "every byte sent, connection not closed".
    r, hdr = rng.random(), rng.choice(EOF_HDRS)
    if r < 0.12 and scn["op"] == "http" and (scn.get("stall") or {}).get("point") != "chunk_size":
        scn = _eof(scn, hdr)
    # WebSocket close whose close frame has to wait for the transport to drain (drawn last): the peer stops
    # reading after the first echo, the caller sends ballast up to `off` bytes below the writer's drain point
    r = rng.random()
    reason = rng.choice([0, 0, 20, 100, 123])
    fill = {"chunk": rng.choice([8_000, 30_000, 50_000]), "off": rng.randrange(0, 8 + reason), "reason": reason}
    value, r2, r3 = rng.choice([0.3, 1.5, 5.0, 7.25]), rng.random(), rng.random()
    if r < 0.07 and (scn.get("stall") or {}).get("point") != TLS_POINT:
        scn["resp"] = dict(scn["resp"], framing="cl") if scn["resp"].get("framing") == "eof" else scn["resp"]
        scn["resp"].pop("eof_hdr", None)
        scn["read"] = {"mode": "read"}
        scn["timeout"] = {"kind": "ws_close", "value": value} if r2 < 0.4 else None
        scn["ws_fill"] = fill
        scn = _for_stall(scn, WS_SEND_POINT, rng.choice([0.6, value + 3.0]) if r3 < 0.25 else None)
    return scn


def shrink(scn):
    c = scn.get("cancel")
    if c and c["k"] == "all":
        for k in range(40):
            yield dict(scn, cancel={"k": k})
    to = scn.get("timeout")
    if to and to.get("at_step") == "all":
        for k in range(30):
            yield dict(scn, timeout={"kind": "total", "at_step": k})
    if c:
        yield dict(scn, cancel=None)
    bys = scn.get("bystanders") or []
    for i in range(len(bys)):
        yield dict(scn, bystanders=bys[:i] + bys[i + 1:])
    tls = scn.get("tls")
    if tls:
        if not (scn.get("stall") or {}).get("point") == TLS_POINT:
            yield dict(scn, tls=None)
        if tls.get("fail"):
            yield dict(scn, tls=dict(tls, fail=False))
        if tls.get("delay"):
            yield dict(scn, tls=dict(tls, delay=0.0))
    if scn.get("traces"):
        yield dict(scn, traces=False)
    if not scn.get("follow_early", True):
        yield dict(scn, follow_early=True)
    if scn.get("lat"):
        yield dict(scn, lat=0)
    if scn.get("seg_s2c") != "whole":
        yield dict(scn, seg_s2c="whole")
    if scn.get("ips", 1) != 1:
        yield dict(scn, ips=1)
    if scn.get("limit_per_host"):
        yield dict(scn, limit_per_host=0)
    if (scn.get("dns") or {}).get("delay"):
        yield dict(scn, dns={"delay": 0.0})
    if scn.get("ceil_threshold", 5) != 5:
        yield dict(scn, ceil_threshold=5)
    st = scn.get("stall")
    if st and st.get("dur"):
        yield dict(scn, stall={"point": st["point"], "dur": None})
    wf = scn.get("ws_fill")
    if wf:
        if wf["off"]:
            yield dict(scn, ws_fill=dict(wf, off=0))
        if wf["chunk"] != 50_000:
            yield dict(scn, ws_fill=dict(wf, chunk=50_000))
    if (scn.get("read") or {}).get("mode") == "slow":
        yield dict(scn, read={"mode": "read"})
    b = scn.get("body") or {"kind": "none"}
    if b["kind"] != "none" and not (st and st["point"] == "send_body"):
        yield dict(scn, body={"kind": "none"})
    r = scn.get("resp") or {}
    if r.get("framing") == "eof":
        if r.get("eof_hdr", "close") != "close":
            yield dict(scn, resp=dict(r, eof_hdr="close"))
        yield dict(scn, resp=dict({k: v for k, v in r.items() if k != "eof_hdr"},
                                  framing="chunked" if st and st["point"] == "final_chunk" else "cl"))
    if r.get("pieces", 1) != 1 or r.get("gap") or r.get("delay"):
        yield dict(scn, resp=dict(r, pieces=1, gap=0.0, delay=0.0))
    if r.get("size", 0) > 300 and not (st and st["point"] in ("chunk_size", "final_chunk")):
        yield dict(scn, resp=dict(r, size=300))
    if to and to.get("value") and to["value"] != 1.5:
        yield dict(scn, timeout=dict(to, value=1.5))
