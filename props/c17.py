"""C17 - redirects confine credentials and terminate.

World C: one real aiohttp ClientSession (TCPConnector + SimResolver) and 2-4
scripted raw origin servers behind SimNet.  The origins record every request
they receive and answer from the scenario's per-hop script; the oracle
(ref/redirect.py) states, from the documentation and RFC 9110 15.4, which
requests may exist and what each may carry.  See DESIGN.md section 9, C17.
"""
from __future__ import annotations

import asyncio
import base64
import io
import re

from ref import cookies as RC
from ref import redirect as R
from sim.net import SimResolver
from sim.peers import RawServerConn, parse_simple_request
from sim.world import World

PROP = "C17"
LEVEL = "exploration"
DESIGN_REF = "9/C17"
BUDGET = {"quick": 60, "thorough": 600}
BATCH = 400
ENUM_BATCH = 60
ENUM_SHARE = 0.4
ENUM_RULE = (
    "790 fixed cases run before the seeded search: {301,302,303,307,308} x {GET,HEAD,DELETE; POST,PUT,PATCH x body "
    "none/bytes/form/one-shot generator/file/unseekable file} x redirect target {same origin, other port, other "
    "scheme, subdomain, other host} with every caller secret and a four-cookie jar; other home origins; URL "
    "credentials and credentials in the Location; A->X->A and A->X->X->A for every X and status; chains of "
    "{0,1,m-1,m,m+1} redirects against max_redirects m in {1,2,3,10}; every non-HTTP / invalid / missing Location "
    "spelling; one redirect A->X with URL credentials / Location credentials / session default headers / request "
    "headers followed by later calls on the same session to every origin of the run; for every ordered pair "
    "of origins X != Y the chain X -> X -> Y -> X whose first response sets a host-only, a Domain=, a Secure and a "
    "path-scoped cookie; for every origin X the chain X -> X -> X whose second response sets a cookie of the first "
    "response (or of the preload) again, same value, with Secure added / removed or another lifetime.  Not exhaustive of the property's input space."
)
TECHNIQUE = ("deterministic simulation: real ClientSession on a virtual-time loop against scripted in-memory origin "
             "servers; per-request oracle from an executable statement of the documented redirect rules; seeded "
             "segmentation/latency, origin resets and caller cancellation")
LEVEL_TEXT = (
    "Systematic enumeration of every single-hop case (5 statuses x methods x body kinds x 5 target-origin relations, "
    "all caller secrets set) and of the A->X->A and at-the-limit shapes, then seeded exploration of redirect chains "
    "(0-12 hops over 2-4 origins, Location forms, credentials, cookie jar contents, Set-Cookie along the chain) "
    "and, in a sampled share, later calls on the same session against the real client; every request an origin "
    "receives is judged against ref/redirect.py, against the jar's own selection for that hop and against the "
    "selection an RFC 6265 reference store (ref/cookies.py), fed with the same preload and the same Set-Cookie "
    "lines, makes for that hop's URL.  Sampling beyond the enumerated cases, not proof."
)
LEVEL_NOTE = (
    "Trusted: ref/redirect.py (documented table and credential rule), ref/cookies.py (RFC 6265 5.3/5.4 with "
    "aiohttp's documented deviations; which of the chain's cookies may go to which hop - the cookie grammar, dates "
    "and jar management are C16's), the scripted origins, SimNet's TCP model. CookieJar.filter_cookies at the "
    "instant a request arrives is a second, white-box statement of 'what the jar selects'. TLS is not "
    "simulated: https origins are plaintext listeners on port 443. 'Nothing left acquired' is a white-box cross-check "
    "on TCPConnector._acquired; the black-box counterpart is that chains complete with limit=1. max_redirects is "
    "read as 'at most max_redirects requests' (property statement, test-suite); max_redirects=0 (undocumented: "
    "unlimited) is not exercised.  Proxies, netrc/trust_env and middlewares are out of scope."
)
RULE = (
    "Run = initial request (method x body kind x Authorization / Cookie / Proxy-Authorization headers x cookies= x "
    "URL credentials x params) x chain script (per hop: origin, status, Location form, Set-Cookie, response framing) "
    "x jar preload x connector limits x max_redirects, under seeded segmentation and latency; every third scenario "
    "belongs to the fault batch (an origin resets/closes on a request, or the caller is cancelled before loop step "
    "k).  In 12 % of the scenarios the session is used again afterwards: 1-3 later GETs to origins of the run, "
    "without / with empty / with a headers= argument, optionally with URL credentials and one redirect of their "
    "own (half of these scenarios give the caller's headers as session defaults); every request of a later call "
    "is judged as a chain of its own and against everything supplied for another origin in an earlier call.  "
    "In 10 % one hop sets again, with the same value and other attributes (Secure, Max-Age), a cookie that an "
    "earlier hop at that host set or the jar was preloaded with.  "
    "Non-trivial: at least one redirect was followed, the call carried a caller secret or jar cookie, and an "
    "origin change, a method/body transformation of a body-bearing request, a refusal or the redirect limit "
    "occurred.  Distinct = interleaving signature."
)
COMPONENTS = {
    "real": ["aiohttp.ClientSession._request (redirect loop)", "client_reqrep.ClientRequest/ClientResponse",
             "connector.TCPConnector/Connection", "client_proto.ResponseHandler", "http_parser (Python)",
             "http_writer.StreamWriter", "cookiejar.CookieJar", "payload.*", "helpers.strip_auth_from_url", "yarl.URL"],
    "stub": ["network (SimNet)", "DNS (SimResolver)", "origin servers (scripted raw peers)", "TLS (recorded only)",
             "executor (simulated, for file payloads)"],
}
ASSUMPTIONS = [
    "an origin answers only after it has received the complete request, so a streamed body has been consumed "
    "when its redirect arrives",
    "TLS is transparent: an https URL reaches the plaintext listener registered on port 443 of the host's address",
    "no proxy, trust_env off, no middlewares, default requote_redirect_url",
]

# name -> (scheme, host, port, ip)
ORIGINS = {
    "A": ("http", "a.test", 80, "10.0.0.1"),
    "AP": ("http", "a.test", 8080, "10.0.0.1"),
    "AS": ("https", "a.test", 443, "10.0.0.1"),
    "SUB": ("http", "s.a.test", 80, "10.0.0.3"),
    "B": ("http", "b.test", 80, "10.0.0.2"),
}
STATUSES = [301, 302, 303, 307, 308]
METHODS = ["GET", "GET", "GET", "POST", "POST", "POST", "PUT", "PUT", "DELETE", "HEAD", "PATCH", "OPTIONS"]
BODY_METHODS = ("POST", "PUT", "PATCH", "DELETE")
BODY_KINDS = ["none", "bytes", "bytes", "str", "form", "form", "multipart", "gen", "gen", "file", "file", "fileoff",
              "bufreader", "unseekable"]
ONE_SHOT = ("gen", "unseekable")
NONHTTP = ["ftp://b.test/h99", "mailto:me@b.test", "javascript:void(0)", "file:///h99", "ws://a.test/h99",
           "wss://a.test/h99", "data:text/plain,h99", "gopher://b.test/h99", "unix://a.test/h99", "htt://a.test/h99"]
INVALID = ["http://[::1/h99", "http://a.test:99999/h99", "http://a.test:abc/h99", "http:///h99", "http://",
           "http://:80/h99", "http:/h99", "http://b.test\\@a.test/h99", "https://", "http://a.test:-1/h99"]
FINAL_STATUSES = [200, 200, 200, 200, 204, 404, 500]

T_AUTH = "SECRETAUTH0"
T_HC = ("SECRETHC1", "SECRETHC2")
T_PA = "SECRETPA0"
T_RC = "SECRETRC1"
T_PW = "SECRETPW0"
TOKEN_KIND = {T_AUTH: "authorization", T_HC[0]: "cookie_header", T_HC[1]: "cookie_header", T_PA: "proxy_authorization",
              T_RC: "request_cookies", T_PW: "url_credentials"}
CALLER_COOKIE_NAMES = ("hc1", "hc2", "rc1")
FOLLOWUP_SHARE = 0.12
REISSUE_SHARE = 0.10


def _origin_t(name):
    s, h, p, _ = ORIGINS[name]
    return R.origin(s, h, p)


def _base(name, explicit_port=False):
    s, h, p, _ = ORIGINS[name]
    if p == R.DEFAULT_PORTS[s] and not explicit_port:
        return f"{s}://{h}"
    return f"{s}://{h}:{p}"


def _hostport(name, explicit_port=False):
    s, h, p, _ = ORIGINS[name]
    if p == R.DEFAULT_PORTS[s] and not explicit_port:
        return h
    return f"{h}:{p}"


def _loc_cred(k):
    return f"LOCU{k:02d}", f"LOCPW{k:02d}"


_USERINFO_RE = re.compile(r"^[A-Za-z][A-Za-z0-9+.-]*://([^:@/?#]*)(?::([^@/?#]*))?@")


def _loc_userinfo(loc_str):
    """(user, password or '') spelled in a Location, or None."""
    m = _USERINFO_RE.match(loc_str or "")
    return (m.group(1), m.group(2) or "") if m else None


def _mk_loc(rng, kind, cur, nxt, k):
    """Location value sent by hop k (served at origin `cur`) towards hop k+1 at `nxt`."""
    q = rng.choice(["", "", f"?q={k + 1}", f"?q={k + 1}&r=a"])
    frag = rng.choice(["", "", "", "#frag"])
    path = f"/h{k + 1}"
    if kind == "rel":
        v = rng.choice([path, path, f"h{k + 1}", f"./h{k + 1}", f"../h{k + 1}", f"/x/../h{k + 1}", f"///h{k + 1}"])
        return v + q + frag, path + q
    ep = rng.random() < 0.25
    if kind == "schemerel":
        return f"//{_hostport(nxt, ep)}{path}{q}{frag}", path + q
    s, h, p, _ = ORIGINS[nxt]
    hp = _hostport(nxt, ep)
    if rng.random() < 0.15:
        s, hp = s.upper(), hp.upper()
    if kind == "userinfo":
        u, pw = _loc_cred(k)
        ui = f"{u}@" if rng.random() < 0.2 else f"{u}:{pw}@"
        return f"{s}://{ui}{hp}{path}{q}{frag}", path + q
    return f"{s}://{hp}{path}{q}{frag}", path + q


def _loc_kinds(cur, nxt):
    if cur == nxt:
        return ["rel", "rel", "rel", "abs", "schemerel", "userinfo"]
    if ORIGINS[cur][0] == ORIGINS[nxt][0]:
        return ["abs", "abs", "schemerel", "schemerel", "userinfo"]
    return ["abs", "abs", "abs", "userinfo"]


def _parent(host):
    return host.split(".", 1)[1] if host.count(".") >= 2 else host


def _mk_setc(rng, o, k):
    host = ORIGINS[o][1]
    out = []
    for _ in range(rng.choice([0, 0, 1, 1, 2])):
        v = rng.randrange(9)
        out.append(rng.choice([
            f"s{k}=v{k}{v}; Path=/",
            f"s{k}=v{k}{v}; Path=/",
            f"sd{k}=d{k}{v}; Domain={_parent(host)}; Path=/",
            f"ss{k}=x{k}{v}; Secure; Path=/",
            f"sp{k}=p{k}{v}; Path=/h{k + 2}",
            f"sn{k}=n{k}{v}",
            "jhome=gone; Max-Age=0; Path=/",
            f"jhome=NEW{k}; Path=/",
            f"jdom=ND{k}; Domain=a.test; Path=/",
            f"sx{k}=f{k}{v}; Domain=b.test; Path=/",
        ]))
    return out


def _mk_body(rng, method):
    if method not in BODY_METHODS or (method == "DELETE" and rng.random() < 0.6):
        return {"kind": "none"}
    kind = rng.choice(BODY_KINDS)
    if kind == "none":
        return {"kind": "none"}
    n = rng.choice([1, 5, 5, 40, 200, 200, 3000, 20000 if rng.random() < 0.3 else 700])
    data = "".join(chr(rng.randrange(0x20, 0x7F)) for _ in range(min(n, 64)))
    data = (data * (n // len(data) + 1))[:n]
    b = {"kind": kind, "data": data}
    if kind == "gen":
        nc = rng.choice([1, 2, 3])
        cuts = sorted(rng.randrange(0, n + 1) for _ in range(nc - 1))
        b["cuts"] = cuts
    if kind == "fileoff":
        b["offset"] = rng.randrange(0, n)
    if kind == "form":
        b["fields"] = [[f"f{i}", data[i * 7:(i + 1) * 7] or "v"] for i in range(rng.choice([1, 2, 3]))]
    return b


def _mk_jar(rng, home):
    r = rng.random()
    if r < 0.08:
        return {"kind": "dummy", "pre": []}
    if r < 0.25:
        return {"kind": "default", "pre": []}
    hs, hh, hp, _ = ORIGINS[home]
    cands = [
        {"name": "jhome", "value": "JH", "url": f"{hs}://{hh}/"},
        {"name": "jdom", "value": "JD", "url": "http://a.test/", "domain": "a.test"},
        {"name": "jsec", "value": "JS", "url": "https://a.test/", "secure": True},
        {"name": "jb", "value": "JB", "url": "http://b.test/"},
        {"name": "jsub", "value": "JU", "url": "http://s.a.test/"},
        {"name": "jpath", "value": "JP", "url": f"{hs}://{hh}/", "path": f"/h{rng.choice([0, 1, 2, 3])}"},
        {"name": "jshared", "value": "JX", "url": None},
        {"name": "jbdom", "value": "JBD", "url": "http://b.test/", "domain": "b.test", "path": "/"},
    ]
    pre = [c for c in cands if rng.random() < 0.5]
    return {"kind": "default", "pre": pre}


def _chain(rng, home, others, n_red, terminal):
    """hops[0..n_red]; hops[k] for k < n_red is a followable redirect."""
    names = [home]
    cur = home
    pool = [home] + others
    for _ in range(n_red):
        r = rng.random()
        if r < 0.45:
            nxt = cur
        elif r < 0.65 and cur != home:
            nxt = home  # A -> B -> A
        else:
            nxt = rng.choice(pool)
        names.append(nxt)
        cur = nxt
    hops = []
    target = "/h0"
    for k, o in enumerate(names):
        hop = {"o": o, "target": target, "setc": _mk_setc(rng, o, k),
               "rbody": rng.choice([0, 0, 2, 2, 300, 300, 5000, 70000 if rng.random() < 0.2 else 11]),
               "framing": rng.choice(["cl", "cl", "cl", "chunked", "close"])}
        if k < n_red:
            kind = rng.choice(_loc_kinds(o, names[k + 1]))
            loc, target = _mk_loc(rng, kind, o, names[k + 1], k)
            hop.update(status=rng.choice(STATUSES), loc=kind, loc_str=loc)
        elif terminal == "final":
            hop.update(status=rng.choice(FINAL_STATUSES), loc=None, loc_str=None)
        elif terminal == "missing":
            hop.update(status=rng.choice(STATUSES), loc="missing", loc_str=None)
        elif terminal == "nonhttp":
            hop.update(status=rng.choice(STATUSES), loc="nonhttp", loc_str=rng.choice(NONHTTP))
        else:
            hop.update(status=rng.choice(STATUSES), loc="invalid", loc_str=rng.choice(INVALID))
        hops.append(hop)
    return hops


def gen(rng, tier, index):
    batch = "fault" if index % 3 == 2 else "main"
    home = rng.choice(["A", "A", "A", "A", "A", "AS", "B", "AP", "SUB"])
    rest = [o for o in sorted(ORIGINS) if o != home]
    rng.shuffle(rest)
    others = rest[:rng.choice([1, 2, 2, 3, 3])]
    m = rng.choice([1, 2, 3, 3, 4, 5, 5, 10, 10, 10, 10, 12])
    r = rng.random()
    if r < 0.6:
        n_red = rng.choice([0, 1, 1, 2, 2, 3, 3, 4])
    elif r < 0.85:
        n_red = max(0, min(12, m + rng.choice([-2, -1, -1, 0, 0, 1, 2])))
    else:
        n_red = rng.randint(0, 12)
    terminal = rng.choice(["final"] * 14 + ["missing", "missing", "nonhttp", "nonhttp", "invalid", "invalid"])
    hops = _chain(rng, home, others, n_red, terminal)
    method = rng.choice(METHODS)
    init = {
        "method": method, "body": _mk_body(rng, method),
        "auth_header": rng.random() < 0.5, "cookie_header": rng.random() < 0.5, "proxy_auth": rng.random() < 0.35,
        "req_cookies": rng.random() < 0.5, "url_creds": rng.random() < 0.3, "params": rng.random() < 0.25,
        "max_redirects": None if (m == 10 and rng.random() < 0.5) else m,
        "allow_redirects": rng.random() >= 0.03,
        "explicit_port": rng.random() < 0.1,
        # the caller's headers given as ClientSession(headers=...) defaults instead of per request
        "via_session": rng.random() < 0.2,
    }
    if init["auth_header"] and init["url_creds"] and rng.random() < 0.8:
        init["url_creds"] = False  # the documented ValueError case stays, but rare
    if init["params"]:
        hops[0]["target"] = "/h0?p=1"
    scn = {
        "batch": batch, "home": home, "origins": [home] + others, "init": init, "hops": hops,
        "jar": _mk_jar(rng, home),
        "conn": {"limit": rng.choice([1, 1, 2, 100]), "limit_per_host": rng.choice([0, 0, 1]),
                 "force_close": rng.random() < 0.1},
        "net": {"lat": rng.choice([0, 0, 1, 3]), "policy": rng.choice([None, None, "whole", "small", "mixed"])},
        "faults": [],
    }
    if batch == "fault":
        r = rng.random()
        if r < 0.6:
            scn["faults"].append({"kind": rng.choice(["reset", "reset", "close", "close", "reset_mid"]),
                                  "hop": rng.randrange(0, len(hops))})
        if r >= 0.5:
            scn["faults"].append({"kind": "cancel", "step": rng.choice([rng.randrange(1, 60), rng.randrange(1, 400),
                                                                        rng.randrange(1, 1200)])})
    # drawn last, so that every other part of the scenario is what it was without this feature:
    # the session is used again after the call (a history of calls on one ClientSession)
    if rng.random() < FOLLOWUP_SHARE:
        _mk_followups(rng, scn)
    # ... and after that: a hop issues again, with other attributes, a cookie the jar already holds
    if rng.random() < REISSUE_SHARE:
        _mk_reissue(rng, scn)
    return scn


def _ri_line(secure, max_age):
    return "ri=RV; Path=/" + ("; Secure" if secure else "") + ("" if max_age is None else f"; Max-Age={max_age}")


def _mk_reissue(rng, scn):
    """One hop's response sets a cookie the jar already holds - same name, value, domain and path, put there
    by an earlier hop at the same host or preloaded for that host - with other attributes (Secure added or
    removed, a lifetime added, changed, removed or ended).  RFC 6265 5.3 step 11: the new cookie replaces the
    old one, attributes included, so the following hops are selected for by the new attributes."""
    hops = scn["hops"]
    n = len(hops)
    k = rng.randrange(n) if rng.random() < 0.2 else rng.randrange(max(1, n - 1))
    s, host, _, _ = ORIGINS[hops[k]["o"]]
    earlier = [j for j in range(k) if ORIGINS[hops[j]["o"]][1] == host]
    secure = rng.random() < 0.3
    max_age = rng.choice([None, None, 3600])
    src = rng.choice(earlier + [None]) if earlier else None
    if src is None:
        max_age = None  # a preloaded cookie is a session cookie
    change = rng.choice(["secure", "secure", "secure", "max_age", "both"])
    secure2 = (not secure) if change != "max_age" else secure
    max_age2 = max_age
    if change != "secure":
        max_age2 = rng.choice([3600, 0] if max_age is None else [None, 0, 7200])
    base, again = _ri_line(secure, max_age), _ri_line(secure2, max_age2)
    if src is None:
        scn["jar"]["pre"].append({"name": "ri", "value": "RV", "url": f"{s}://{host}/", "path": "/", "secure": secure})
    else:
        hops[src]["setc"].append(base)
    hops[k]["setc"].append(again)
    scn["reissue"] = {"hop": k, "src": src, "base": base, "again": again}


def _fu_cred(i):
    return f"fu{i:02d}", f"FUPW{i:02d}"


def _fu_loc_cred(i):
    return f"FLU{i:02d}", f"FLPW{i:02d}"


def _fu_loc(fu, i):
    """Location sent by the first response of later call i, or None."""
    red = fu.get("red")
    if not red:
        return None
    if red["loc"] == "rel":
        return f"/g{i}"
    s, _, _, _ = ORIGINS[red["to"]]
    ui = "%s:%s@" % _fu_loc_cred(i) if red["loc"] == "userinfo" else ""
    return f"{s}://{ui}{_hostport(red['to'])}/g{i}"


def _mk_followups(rng, scn):
    """1-3 later calls on the same session: each a GET to one of the run's origins, with or without a
    headers= argument, optionally with credentials in its URL and one redirect of its own."""
    init = scn["init"]
    pool = scn["origins"]
    if rng.random() < 0.5:
        init["via_session"] = True
    # with nothing to put into headers= the argument may also be left out altogether
    init["omit_headers"] = rng.random() < 0.5
    fus = []
    for i in range(rng.choice([1, 1, 2, 2, 3])):
        o = rng.choice(pool)
        fu = {"o": o, "hdr": rng.choice(["none", "none", "none", "none", "none", "empty", "empty", "extra", "extra", "extra"]),
              "url_creds": rng.random() < 0.25 and not (init["via_session"] and init["auth_header"]), "red": None}
        if rng.random() < 0.45:
            to = rng.choice(pool)
            kinds = ["abs", "abs", "userinfo"] + (["rel", "rel"] if to == o else [])
            fu["red"] = {"status": rng.choice(STATUSES), "to": to, "loc": rng.choice(kinds)}
        fus.append(fu)
    scn["followups"] = fus


def _simple(home, target, status, method, body_kind, m=10, loc_kind="abs", secrets=True, jar=True):
    """One enumerated scenario: home -> target (one hop), everything else plain."""
    hops = [{"o": home, "target": "/h0", "setc": ["s0=v00; Path=/"], "rbody": 2, "framing": "cl", "status": status,
             "loc": loc_kind}]
    loc, tgt = _mk_loc(_Fixed(), loc_kind, home, target, 0)
    hops[0]["loc_str"] = loc
    hops.append({"o": target, "target": tgt, "setc": [], "rbody": 2, "framing": "cl", "status": 200, "loc": None,
                 "loc_str": None})
    body = {"kind": body_kind}
    if body_kind != "none":
        body["data"] = "payload-0123456789"
        if body_kind == "gen":
            body["cuts"] = [7]
        if body_kind == "form":
            body["fields"] = [["f0", "v 0"], ["f1", "v&1"]]
        if body_kind == "fileoff":
            body["offset"] = 3
    pre = []
    if jar:
        hs, hh, _, _ = ORIGINS[home]
        pre = [{"name": "jhome", "value": "JH", "url": f"{hs}://{hh}/"},
               {"name": "jdom", "value": "JD", "url": "http://a.test/", "domain": "a.test"},
               {"name": "jsec", "value": "JS", "url": "https://a.test/", "secure": True},
               {"name": "jb", "value": "JB", "url": "http://b.test/"}]
    return {
        "batch": "main", "home": home, "origins": sorted({home, target}, key=lambda x: (x != home, x)),
        "init": {"method": method, "body": body, "auth_header": secrets, "cookie_header": secrets,
                 "proxy_auth": secrets, "req_cookies": secrets, "url_creds": False, "params": False,
                 "max_redirects": m, "allow_redirects": True, "explicit_port": False},
        "hops": hops, "jar": {"kind": "default", "pre": pre},
        "conn": {"limit": 1, "limit_per_host": 0, "force_close": False},
        "net": {"lat": 0, "policy": "whole"}, "faults": [],
    }


class _Fixed:
    """rng stand-in for enumerated cases: always the first (plainest) alternative."""

    def choice(self, seq):
        return seq[0]

    def random(self):
        return 0.99


def enumerate_cases(tier, seed):
    # 1. the table x every origin relation, all caller secrets supplied
    for status in STATUSES:
        for method in ("GET", "HEAD", "DELETE", "POST", "PUT", "PATCH"):
            kinds = ("none",) if method in ("GET", "HEAD", "DELETE") else ("none", "bytes", "form", "gen", "file", "unseekable")
            for bk in kinds:
                for target in ("A", "AP", "AS", "SUB", "B"):
                    yield _simple("A", target, status, method, bk)
    # 2. other homes (https downgrade, subdomain -> parent, b -> a)
    for home, target in (("AS", "A"), ("SUB", "A"), ("B", "A"), ("AP", "A"), ("AS", "AS"), ("B", "B")):
        for status in STATUSES:
            yield _simple(home, target, status, "POST", "bytes")
    # 3. URL credentials instead of the header; credentials in the Location
    for target in ("A", "AP", "AS", "SUB", "B"):
        for status in (302, 307):
            s = _simple("A", target, status, "GET", "none")
            s["init"]["auth_header"] = False
            s["init"]["url_creds"] = True
            yield s
            s = _simple("A", target, status, "GET", "none", loc_kind="userinfo")
            yield s
    # 4. A -> X -> A (and A -> X -> X -> A): nothing dropped comes back
    for x in ("AP", "AS", "SUB", "B"):
        for status in STATUSES:
            for extra in (0, 1):
                s = _simple("A", x, status, "PUT", "bytes")
                hops = s["hops"]
                k = 1
                for _ in range(extra):
                    hops[k].update(status=status, loc="rel", loc_str=f"/h{k + 1}")
                    hops.append(dict(hops[k], target=f"/h{k + 1}", status=200, loc=None, loc_str=None, setc=[]))
                    k += 1
                hops[k].update(status=status, loc="abs", loc_str=f"http://a.test/h{k + 1}")
                hops.append({"o": "A", "target": f"/h{k + 1}", "setc": [], "rbody": 2, "framing": "cl", "status": 200,
                             "loc": None, "loc_str": None})
                yield s
    # 5. the limit: chains of n same-origin redirects against max_redirects m
    for m in (1, 2, 3, 10):
        for n in sorted({0, 1, m - 1, m, m + 1} - {-1}):
            s = _simple("A", "A", 302, "GET", "none", m=m, loc_kind="rel")
            hops = [{"o": "A", "target": f"/h{k}", "setc": [], "rbody": 2, "framing": "cl", "status": 302,
                     "loc": "rel", "loc_str": f"/h{k + 1}"} for k in range(n)]
            hops.append({"o": "A", "target": f"/h{n}", "setc": [], "rbody": 2, "framing": "cl", "status": 200,
                         "loc": None, "loc_str": None})
            s["hops"] = hops
            s["origins"] = ["A"]
            yield s
    # 6. refusals
    for status in (301, 303, 307):
        for bad, kind in [(x, "nonhttp") for x in NONHTTP] + [(x, "invalid") for x in INVALID] + [(None, "missing")]:
            s = _simple("A", "A", status, "POST", "bytes")
            s["hops"] = [dict(s["hops"][0], loc=kind, loc_str=bad)]
            s["origins"] = ["A", "B"]
            yield s
    # 7. the session is used again: one redirect A -> X, then a later call to every origin of the run
    for x in ("A", "AP", "AS", "SUB", "B"):
        for status in (302, 307):
            for mode in ("url_creds", "location_creds", "session_defaults", "request_headers"):
                s = _simple("A", x, status, "GET", "none", loc_kind="userinfo" if mode == "location_creds" else "abs",
                            secrets=mode in ("session_defaults", "request_headers"))
                s["init"]["url_creds"] = mode == "url_creds"
                s["init"]["via_session"] = mode == "session_defaults"
                s["init"]["omit_headers"] = True
                s["origins"] = list(dict.fromkeys(["A", x, "B"]))
                s["followups"] = [{"o": o, "hdr": "none" if j % 2 == 0 else "extra", "url_creds": False, "red": None}
                                  for j, o in enumerate(s["origins"])]
                if mode == "session_defaults":
                    # a later call that itself leaves its origin
                    s["followups"].append({"o": "A", "hdr": "none", "url_creds": False,
                                           "red": {"status": status, "to": "B", "loc": "abs"}})
                    s["followups"].append({"o": "A", "hdr": "none", "url_creds": False, "red": None})
                yield s


    # 8. jar scope along a chain: the first response sets cookies of every scope, the next hop (same origin)
    #    has them selected once, then the chain goes to another origin and comes back
    for x in ("A", "AP", "AS", "SUB", "B"):
        for y in ("A", "AP", "AS", "SUB", "B"):
            if x == y:
                continue
            s = _simple(x, x, 302, "GET", "none", loc_kind="rel", secrets=False, jar=False)
            hops = s["hops"]
            hops[0]["setc"] = ["s0=v00; Path=/", f"sd0=d00; Domain={_parent(ORIGINS[x][1])}; Path=/",
                               "ss0=x00; Secure; Path=/", "sp0=p00; Path=/h2", "sn0=n00"]
            hops[1].update(status=307, loc="abs", loc_str=f"{_base(y)}/h2")
            hops.append({"o": y, "target": "/h2", "setc": ["s2=v20; Path=/"], "rbody": 2, "framing": "cl", "status": 303,
                         "loc": "abs", "loc_str": f"{_base(x)}/h3"})
            hops.append({"o": x, "target": "/h3", "setc": [], "rbody": 2, "framing": "cl", "status": 200, "loc": None,
                         "loc_str": None})
            s["origins"] = [x, y]
            yield s
    # 9. a cookie issued again with other attributes: X -> X -> X, the first response (or the preload) holds the
    #    cookie, the second sets it again with the same value, the third request is selected for by the new ones
    for x in ("A", "AP", "AS", "SUB", "B"):
        for (sec, age), (sec2, age2) in (((False, None), (True, None)), ((True, None), (False, None)),
                                         ((False, None), (False, 0)), ((False, 3600), (True, 7200))):
            for pre in (False, True):
                if pre and age is not None:
                    continue
                s = _simple(x, x, 302, "GET", "none", loc_kind="rel", secrets=False, jar=False)
                hops = s["hops"]
                hops[0]["setc"] = []
                hops[1].update(status=307, loc="rel", loc_str="/h2", setc=[_ri_line(sec2, age2)])
                hops.append({"o": x, "target": "/h2", "setc": [], "rbody": 2, "framing": "cl", "status": 200, "loc": None,
                             "loc_str": None})
                if pre:
                    xs, xh, _, _ = ORIGINS[x]
                    s["jar"]["pre"].append({"name": "ri", "value": "RV", "url": f"{xs}://{xh}/", "path": "/", "secure": sec})
                else:
                    hops[0]["setc"].append(_ri_line(sec, age))
                s["reissue"] = {"hop": 1, "src": None if pre else 0, "base": _ri_line(sec, age), "again": _ri_line(sec2, age2)}
                s["origins"] = [x]
                yield s


def shrink(scn):
    ri = scn.get("reissue")
    if ri:
        # without the feature: neither the first issue nor the second
        lines = (ri["base"], ri["again"])
        yield dict({k: v for k, v in scn.items() if k != "reissue"},
                   hops=[dict(h, setc=[x for x in h["setc"] if x not in lines]) for h in scn["hops"]],
                   jar=dict(scn["jar"], pre=[c for c in scn["jar"]["pre"] if c["name"] != "ri"]))
        # the first issue preloaded instead of set by an earlier hop
        if ri["src"] is not None and ri["hop"] < len(scn["hops"]) and "Max-Age" not in ri["base"]:
            s, host, _, _ = ORIGINS[scn["hops"][ri["hop"]]["o"]]
            nh = [dict(h) for h in scn["hops"]]
            if ri["src"] < len(nh):
                nh[ri["src"]]["setc"] = [x for x in nh[ri["src"]]["setc"] if x != ri["base"]]
            yield dict(scn, hops=nh, reissue=dict(ri, src=None),
                       jar=dict(scn["jar"], pre=scn["jar"]["pre"] + [
                           {"name": "ri", "value": "RV", "url": f"{s}://{host}/", "path": "/", "secure": "Secure" in ri["base"]}]))
    fus = scn.get("followups") or []
    if fus:
        yield {k: v for k, v in scn.items() if k != "followups"}
        if len(fus) > 1:
            for i in range(len(fus)):  # later calls are numbered by position, the rest moves up
                yield dict(scn, followups=fus[:i] + fus[i + 1:])
        for i, fu in enumerate(fus):
            for small in (dict(fu, red=None) if fu.get("red") else None,
                          dict(fu, url_creds=False) if fu.get("url_creds") else None,
                          dict(fu, hdr="none") if fu.get("hdr") != "none" else None,
                          dict(fu, o=scn["home"]) if fu["o"] != scn["home"] else None):
                if small is not None:
                    yield dict(scn, followups=fus[:i] + [small] + fus[i + 1:])
        if scn["init"].get("omit_headers"):
            yield dict(scn, init=dict(scn["init"], omit_headers=False))
    if scn["faults"]:
        for i in range(len(scn["faults"])):
            yield dict(scn, faults=scn["faults"][:i] + scn["faults"][i + 1:])
    init = scn["init"]
    for k in ("via_session", "auth_header", "cookie_header", "proxy_auth", "req_cookies", "url_creds", "params", "explicit_port"):
        if init.get(k):
            yield dict(scn, init=dict(init, **{k: False}))
    if init["body"]["kind"] not in ("none", "bytes"):
        yield dict(scn, init=dict(init, body={"kind": "bytes", "data": init["body"].get("data", "x")}))
    if init["body"]["kind"] != "none":
        yield dict(scn, init=dict(init, body={"kind": "none"}))
        if len(init["body"].get("data", "")) > 4:
            b = dict(init["body"], data=init["body"]["data"][:4])
            b.pop("cuts", None)
            if b["kind"] == "gen":
                b["cuts"] = []
            if b["kind"] == "fileoff":
                b["offset"] = 1
            yield dict(scn, init=dict(init, body=b))
    if scn["jar"]["pre"]:
        pre = scn["jar"]["pre"]
        for i in range(len(pre)):
            yield dict(scn, jar=dict(scn["jar"], pre=pre[:i] + pre[i + 1:]))
    hops = scn["hops"]
    # cut the chain: make hop k the final one
    for k in range(len(hops) - 1):
        nh = [dict(h) for h in hops[:k + 1]]
        nh[k].update(status=200, loc=None, loc_str=None)
        yield dict(scn, hops=nh)
    for k, h in enumerate(hops):
        if h["setc"]:
            nh = [dict(x) for x in hops]
            nh[k]["setc"] = []
            yield dict(scn, hops=nh)
        if h["rbody"] > 2 or h["framing"] != "cl":
            nh = [dict(x) for x in hops]
            nh[k].update(rbody=2, framing="cl")
            yield dict(scn, hops=nh)
    if scn["net"]["lat"] or scn["net"]["policy"] != "whole":
        yield dict(scn, net={"lat": 0, "policy": "whole"})
    if scn["conn"] != {"limit": 100, "limit_per_host": 0, "force_close": False}:
        yield dict(scn, conn={"limit": 100, "limit_per_host": 0, "force_close": False})


# --------------------------------------------------------------------------- independent jar model

_WALL0 = 1_700_000_000.0


class _RfcJar:
    """What RFC 6265 5.3/5.4 (ref/cookies.py, written from the RFC text and aiohttp's documented
    deviations) stores and selects, fed with exactly what the real jar is fed with: the preloaded
    cookies and every Set-Cookie an origin sends.  A response that an origin cut short is applied
    only once it is known that the client saw its head (a later hop was requested); a response
    the client may never have looked at leaves the model `pending` / unknown."""

    def __init__(self, loop, pre):
        self.loop = loop
        self.store = RC.Store(RC.Config(reserved_names_refused=True))
        self.pending = None  # (hop, origin name, target, [Set-Cookie]) of a response cut short
        # tags of session cookies stored by a response that had deleted (Max-Age=0) the same
        # (name, domain, path) in an earlier Set-Cookie line of its own: known finding C17-F2
        self.redone = set()
        for c in pre:
            attrs = []
            if c.get("domain"):
                attrs.append(("domain", c["domain"].lower()))
            if c.get("path"):
                attrs.append(("path", c["path"]))
            if c.get("secure"):
                attrs.append(("secure", True))
            if c["url"] is None:
                self.store.set_cookie(c["name"], c["value"], attrs, None, "/", self.now())
            else:
                m = re.match(r"^[a-z]+://([^/:]+)(?::\d+)?(/[^?#]*)?", c["url"])
                self.store.set_cookie(c["name"], c["value"], attrs, m.group(1), m.group(2) or "/", self.now())

    def now(self):
        return _WALL0 + self.loop.time()

    @staticmethod
    def _path(target):
        return target.split("#", 1)[0].split("?", 1)[0] or "/"

    def probe(self, name, target):
        """{"sel": name -> [values the RFC sends to this URL], "why": (name, value) -> first failing test}"""
        s, h, p, _ = ORIGINS[name]
        path = self._path(target)
        st = self.store
        sel = {}
        redone = set()
        for c in st.select(s, h, p, path, self.now()):
            sel.setdefault(c.name, []).append(c.value)
            if c.tag in self.redone:
                redone.add(c.name)
        sec = st.is_secure_channel(s, h, p)
        why = {}
        for c in st.live():
            wn = st.why_not(c, RC.canonical_host(h), path, sec)
            if wn is not None:
                why.setdefault((c.name, c.value), wn)
        return {"sel": sel, "why": why, "redone": redone}

    def apply(self, name, target, setc):
        host = ORIGINS[name][1]
        deleted = set()
        for i, hdr in enumerate(setc):
            tag = f"{name}{target}#{i}"
            self.redone.discard(tag)
            c = self.store.set_from_header(hdr, host, self._path(target), self.now(), tag=tag)
            if c is not None and c.expiry == -RC.INF:
                deleted.add(c.key())
            elif c is not None and not c.persistent and c.key() in deleted:
                self.redone.add(tag)

    def on_request(self, hop):
        """A request for `hop` arrived: settle a response that was cut short earlier."""
        if self.pending is not None and hop is not None:
            ph, name, target, setc = self.pending
            if hop > ph:
                self.apply(name, target, setc)  # the client followed it, so it had the head
                self.pending = None
            elif hop == ph:
                self.pending = None  # asked again: the head never arrived


def _rfc_judge(got_jar, rfc):
    """(class key or None, missing names, extra names) of a Cookie header against the RFC selection."""
    sel, why = rfc["sel"], rfc["why"]
    extra = sorted(n for n, v in got_jar.items() if v not in sel.get(n, ()))
    missing = sorted(n for n in sel if n not in got_jar)
    if extra:
        n = extra[0]
        cls = "extra:" + (why.get((n, got_jar[n])) or ("stale_value" if n in sel else "not_in_store"))
    elif missing:
        cls = "missing"
        if all(n in rfc["redone"] for n in missing):
            # one response deletes the cookie (Max-Age=0) and then sets it again as a session cookie
            return "missing:set_again_after_max_age_0_in_one_response", missing, extra
    else:
        cls = None
    return cls, missing, extra


# --------------------------------------------------------------------------- origins

_HOP_RE = re.compile(r"^/h(\d+)(\?.*)?$")
_FU_RE = re.compile(r"^/([fg])(\d+)$")


class Origins:
    """All scripted origin servers of a run; one shared, ordered request log."""

    def __init__(self, loop, net, scn, jar_probe, rfc=None):
        self.loop = loop
        self.rfc = rfc
        self.net = net
        self.hops = scn["hops"]
        self.faults = {f["hop"]: f["kind"] for f in scn["faults"] if f["kind"] != "cancel"}
        self.log = []  # request records in arrival order
        self.fus = scn.get("followups") or []
        self.flog = []  # requests of the later calls on the same session, in arrival order
        self.attempts = {}
        self.jar_probe = jar_probe
        self.servers = {}
        for name in scn["origins"]:
            s = _OneOrigin(self, name)
            self.servers[name] = s
            _, _, port, ip = ORIGINS[name]
            net.listen(lambda s=s: RawServerConn(s), ip, port)

    def handle(self, name, conn, req):
        target = req["target"].decode("latin-1")
        mf = _FU_RE.match(target)
        if mf and int(mf.group(2)) < len(self.fus):
            return self.handle_later(name, conn, req, target, int(mf.group(2)), 0 if mf.group(1) == "f" else 1)
        m = _HOP_RE.match(target)
        hop = int(m.group(1)) if m else None
        att = self.attempts.get(hop, 0)
        self.attempts[hop] = att + 1
        rfc = self.rfc
        if rfc is not None:
            rfc.on_request(hop)
        rec = {
            "seq": len(self.log), "origin": name, "conn": conn.conn_id, "method": req["method"].decode("latin-1"),
            "target": target, "headers": [(a.decode("latin-1"), b.decode("latin-1")) for a, b in req["headers"]],
            "body": req["body"], "hop": hop, "attempt": att, "jar": self.jar_probe(name, target),
            "rfc": rfc.probe(name, target) if rfc is not None else None,
        }
        self.log.append(rec)
        self.loop.note("origin_rx", f"{name}:{rec['method']}:{target}")
        if hop is None or hop >= len(self.hops):
            conn.send(b"HTTP/1.1 200 OK\r\nContent-Length: 0\r\nX-Hop: stray\r\n\r\n")
            return
        fault = self.faults.get(hop) if att == 0 else None
        data, close = self.response(hop, rec["method"])
        if fault == "reset":
            self.loop.faults["origin_reset"] += 1
            self.net.kill(conn.transport, "reset")
            return
        if fault == "close":
            self.loop.faults["origin_close"] += 1
            conn.transport.close()
            return
        if fault == "reset_mid":
            self.loop.faults["origin_reset_mid"] += 1
            if rfc is not None:
                rfc.pending = (hop, name, target, list(self.hops[hop]["setc"]))
            conn.send(data[:max(1, len(data) // 2)])
            self.loop.sim_call_later(0.001, self.net.kill, conn.transport, "reset")
            return
        if rfc is not None:
            rfc.apply(name, target, self.hops[hop]["setc"])
        conn.send(data)
        if close:
            conn.transport.close()

    def handle_later(self, name, conn, req, target, i, pos):
        """A request of later call i: /f<i> is its first request, /g<i> the one after its own redirect."""
        fu = self.fus[i]
        self.flog.append({
            "call": i, "pos": pos, "origin": name, "method": req["method"].decode("latin-1"), "target": target,
            "headers": [(a.decode("latin-1"), b.decode("latin-1")) for a, b in req["headers"]],
            "body": req["body"], "jar": self.jar_probe(name, target),
            "rfc": self.rfc.probe(name, target) if self.rfc is not None else None,
        })
        self.loop.note("origin_rx", f"{name}:{req['method'].decode('latin-1')}:{target}")
        loc = _fu_loc(fu, i) if pos == 0 else None
        if loc is not None:
            st = fu["red"]["status"]
            conn.send(f"HTTP/1.1 {st} S{st}\r\nX-Hop: f{i}\r\nLocation: {loc}\r\nContent-Length: 0\r\n\r\n".encode("latin-1"))
        else:
            conn.send(f"HTTP/1.1 200 OK\r\nX-Hop: {'fg'[pos]}{i}\r\nContent-Length: 2\r\n\r\nok".encode("latin-1"))

    def response(self, k, method):
        h = self.hops[k]
        status = h["status"]
        lines = [f"HTTP/1.1 {status} S{status}", f"X-Hop: {k}"]
        if h.get("loc_str") is not None:
            lines.append("Location: " + h["loc_str"])
        for sc in h["setc"]:
            lines.append("Set-Cookie: " + sc)
        n = h["rbody"]
        if status in (204, 304):
            n = 0
        body = (b"%d:" % k) * (n // 2 + 1)
        body = body[:n]
        close = h["framing"] == "close"
        if close:
            lines.append("Connection: close")
        if h["framing"] == "chunked" and status != 204:
            lines.append("Transfer-Encoding: chunked")
            half = n // 2
            parts = [body[:half], body[half:]]
            body = b"".join(b"%x\r\n%s\r\n" % (len(p), p) for p in parts if p) + b"0\r\n\r\n"
        elif status != 204:
            lines.append(f"Content-Length: {n}")
        if method == "HEAD":
            body = b""
        return ("\r\n".join(lines) + "\r\n\r\n").encode("latin-1") + body, close


class _OneOrigin:
    def __init__(self, owner, name):
        self.owner = owner
        self.loop = owner.loop
        self.name = name
        self.conns = []

    def on_connect(self, c):
        pass

    def on_eof(self, c):
        pass

    def on_lost(self, c):
        pass

    def on_data(self, c):
        while c.buf:
            r = parse_simple_request(c.buf)
            if r is None:
                return
            req, n = r
            del c.buf[:n]
            self.owner.handle(self.name, c, req)
            if c.transport.is_closing():
                return


class _OneShotFile(io.RawIOBase):
    """A readable, non-seekable file-like object (a pipe, a socket file)."""

    def __init__(self, data):
        super().__init__()
        self._d = memoryview(data)
        self._p = 0

    def readable(self):
        return True

    def seekable(self):
        return False

    def readinto(self, b):
        n = min(len(b), len(self._d) - self._p)
        b[:n] = self._d[self._p:self._p + n]
        self._p += n
        return n


def _form_expected(fields):
    from urllib.parse import urlencode
    return urlencode([tuple(f) for f in fields]).encode("ascii")


def _make_data(body):
    """(data argument for the call, the exact bytes an origin must receive or None if framing-dependent)."""
    kind = body["kind"]
    if kind == "none":
        return None, b""
    raw = body["data"].encode("latin-1")
    if kind == "bytes":
        return raw, raw
    if kind == "str":
        return body["data"], body["data"].encode("utf-8")
    if kind == "form":
        return {k: v for k, v in body["fields"]}, None
    if kind == "multipart":
        import aiohttp
        fd = aiohttp.FormData()
        fd.add_field("note", "n1")
        fd.add_field("upload", io.BytesIO(raw), filename="u.bin", content_type="application/octet-stream")
        return fd, None
    if kind == "gen":
        cuts = [0] + list(body.get("cuts", [])) + [len(raw)]
        chunks = [raw[cuts[i]:cuts[i + 1]] for i in range(len(cuts) - 1)]

        async def agen():
            for c in chunks:
                if c:
                    yield c
        return agen(), raw
    if kind == "file":
        return io.BytesIO(raw), raw
    if kind == "fileoff":
        f = io.BytesIO(raw)
        f.seek(body["offset"])
        return f, raw[body["offset"]:]
    if kind == "bufreader":
        return io.BufferedReader(io.BytesIO(raw)), raw
    if kind == "unseekable":
        return _OneShotFile(raw), raw
    raise ValueError(kind)


def _cookie_pairs(headers):
    out = {}
    n = 0
    for a, b in headers:
        if a.lower() == "cookie":
            n += 1
            for part in b.split(";"):
                part = part.strip()
                if part:
                    name, _, val = part.partition("=")
                    out[name.strip()] = val.strip()
    return out, n


def _haystack(rec):
    parts = [rec["target"]]
    for a, b in rec["headers"]:
        parts.append(a + ": " + b)
        if b[:6].lower() == "basic ":
            try:
                parts.append(base64.b64decode(b[6:].strip() + "==").decode("latin-1"))
            except Exception:
                pass
    return "\n".join(parts)


def _hget(rec, name):
    return [b for a, b in rec["headers"] if a.lower() == name]


def _classify(exc, resp_seen):
    import aiohttp
    if exc is None:
        return "response" if resp_seen else "none"
    if isinstance(exc, asyncio.CancelledError):
        return "cancelled"
    if isinstance(exc, aiohttp.TooManyRedirects):
        return "too_many_redirects"
    if isinstance(exc, aiohttp.NonHttpUrlRedirectClientError):
        return "non_http"
    if isinstance(exc, aiohttp.InvalidUrlRedirectClientError):
        return "invalid_url"
    if isinstance(exc, aiohttp.ClientPayloadError) and "consumed" in str(exc):
        return "consumed_body"
    if isinstance(exc, ValueError) and not isinstance(exc, aiohttp.ClientError):
        return "value_error"
    if isinstance(exc, (aiohttp.ClientConnectionError, aiohttp.ClientPayloadError)):
        return "connection_error"
    return "other:" + type(exc).__name__


def run(scn, ch, log=False):
    import aiohttp
    from yarl import URL

    viols = []
    probes_extra = {}

    def violate(inv, key, msg):
        if not any(v["invariant"] == inv and v["key"] == key for v in viols):
            viols.append({"invariant": inv, "key": key, "message": msg})

    init = scn["init"]
    hops = scn["hops"]
    home = scn["home"]
    m_eff = 10 if init["max_redirects"] is None else init["max_redirects"]
    replayable = init["body"]["kind"] not in ONE_SHOT
    has_body = init["body"]["kind"] != "none"
    plan = R.plan(
        {"origin": _origin_t(home), "method": init["method"], "has_body": has_body, "replayable": replayable,
         "auth_header": init["auth_header"], "url_creds": init["url_creds"]},
        [{"origin": _origin_t(h["o"]), "status": h["status"], "loc": h["loc"]} for h in hops],
        m_eff, init["allow_redirects"])

    with World(ch, 0, log_events=log) as w:
        loop, net = w.loop, w.net
        net.max_latency_ticks = scn["net"]["lat"]
        net.default_policy = scn["net"]["policy"]
        for name in sorted(ORIGINS):
            net.dns[ORIGINS[name][1]] = [ORIGINS[name][3]]

        # ---- cookie jar
        if scn["jar"]["kind"] == "dummy":
            jar = aiohttp.DummyCookieJar()
        else:
            jar = aiohttp.CookieJar()
            from http.cookies import SimpleCookie
            for c in scn["jar"]["pre"]:
                sc = SimpleCookie()
                sc[c["name"]] = c["value"]
                if c.get("domain"):
                    sc[c["name"]]["domain"] = c["domain"]
                if c.get("path"):
                    sc[c["name"]]["path"] = c["path"]
                if c.get("secure"):
                    sc[c["name"]]["secure"] = True
                if c["url"] is None:
                    jar.update_cookies(sc)
                else:
                    jar.update_cookies(sc, URL(c["url"]))

        def jar_probe(name, target):
            """what the jar itself selects for the URL of the request just received"""
            try:
                sel = jar.filter_cookies(URL(_base(name) + target))
            except Exception as e:  # pragma: no cover - harness problem, surfaces as mismatch text
                return {"!error": repr(e)}
            return {k: sel[k].value for k in sorted(sel)}

        # the independent statement of what a jar fed with the same cookies sends where (RFC 6265)
        rfc = _RfcJar(loop, scn["jar"]["pre"]) if scn["jar"]["kind"] != "dummy" else None
        origins = Origins(loop, net, scn, jar_probe, rfc)

        # ---- the call
        data, exp_body0 = _make_data(init["body"])
        headers = {}
        if init["auth_header"]:
            headers["Authorization"] = "Bearer " + T_AUTH
        if init["cookie_header"]:
            headers["Cookie"] = f"hc1={T_HC[0]}; hc2={T_HC[1]}"
        if init["proxy_auth"]:
            headers["Proxy-Authorization"] = "Basic " + T_PA
        s0, h0, p0, _ = ORIGINS[home]
        hp0 = _hostport(home, init.get("explicit_port", False))
        url = f"{s0}://{'cu:' + T_PW + '@' if init['url_creds'] else ''}{hp0}/h0"
        via_session = bool(init.get("via_session"))
        kw = {"allow_redirects": init["allow_redirects"]}
        if not via_session and (headers or not init.get("omit_headers")):
            kw["headers"] = headers
        if data is not None:
            kw["data"] = data
        if init["req_cookies"]:
            kw["cookies"] = {"rc1": T_RC}
        if init["params"]:
            kw["params"] = {"p": "1"}
        if init["max_redirects"] is not None:
            kw["max_redirects"] = init["max_redirects"]
        st = {"phase": "init", "exc": None, "resp": None, "final": None, "history": None, "conn": None,
              "session": None, "body_len": None, "read_exc": None}

        async def call():
            conn = aiohttp.TCPConnector(resolver=SimResolver(net), limit=scn["conn"]["limit"],
                                        limit_per_host=scn["conn"]["limit_per_host"],
                                        force_close=scn["conn"]["force_close"])
            session = aiohttp.ClientSession(connector=conn, cookie_jar=jar, headers=headers if via_session else None)
            st["conn"], st["session"] = conn, session
            st["phase"] = "request"
            try:
                resp = await session.request(init["method"], url, **kw)
            except BaseException as e:
                st["phase"] = "failed"
                st["exc"] = e
                hist = getattr(e, "history", None)
                if hist is not None:
                    st["history"] = [(h.status, h.headers.get("X-Hop"), h.connection is None) for h in hist]
                return
            st["phase"] = "response"
            st["resp"] = resp
            st["final"] = (resp.status, resp.headers.get("X-Hop"))
            st["history"] = [(h.status, h.headers.get("X-Hop"), h.connection is None) for h in resp.history]
            try:
                st["body_len"] = len(await resp.read())
            except BaseException as e:
                st["read_exc"] = e
            resp.release()
            st["phase"] = "done"

        task = loop.create_task(call(), name="main")
        for f in scn["faults"]:
            if f["kind"] == "cancel":
                def do_cancel():
                    if st["phase"] == "request" and not task.done():
                        loop.faults["cancel_caller"] += 1
                        loop.note("cancel", "caller")
                        task.cancel()
                loop.at_step.setdefault(loop.steps + f["step"], []).append(do_cancel)
        loop.run_sim(task, vt_cap=loop.time() + 120.0, step_cap=loop.steps + 60_000)
        blocked = not task.done()
        capped = loop.capped
        if blocked:
            task.cancel()
        # quiescence: everything already due may happen; keep-alive timers stay
        loop.run_sim(None, vt_cap=loop.time() + 1.0, step_cap=loop.steps + 20_000)
        acquired = len(st["conn"]._acquired) if st["conn"] is not None else 0
        if task.done() and not task.cancelled() and task.exception() is not None:
            raise task.exception()  # harness error

        # ---- later calls on the same session (each a short chain of its own)
        fus = scn.get("followups") or []
        fu_res = []
        if fus and not blocked and not acquired and st["session"] is not None:
            for i, fu in enumerate(fus):
                fs, _, _, _ = ORIGINS[fu["o"]]
                furl = f"{fs}://{'%s:%s@' % _fu_cred(i) if fu['url_creds'] else ''}{_hostport(fu['o'])}/f{i}"
                fkw = {}
                if fu["hdr"] == "empty":
                    fkw["headers"] = {}
                elif fu["hdr"] == "extra":
                    fkw["headers"] = {"X-Fu": str(i)}
                fr = {"exc": None, "final": None, "history": None, "blocked": False}
                fu_res.append(fr)

                async def later(furl=furl, fkw=fkw, fr=fr):
                    try:
                        resp = await st["session"].request("GET", furl, **fkw)
                    except BaseException as e:
                        fr["exc"] = e
                        return
                    fr["final"] = (resp.status, resp.headers.get("X-Hop"))
                    fr["history"] = [(h.status, h.headers.get("X-Hop")) for h in resp.history]
                    try:
                        await resp.read()
                    except BaseException as e:
                        fr["exc"] = e
                    resp.release()

                loop.note("later_call", str(i))
                t1 = loop.create_task(later(), name=f"later{i}")
                loop.run_sim(t1, vt_cap=loop.time() + 60.0, step_cap=loop.steps + 30_000)
                if not t1.done():
                    fr["blocked"] = True
                    t1.cancel()
                loop.run_sim(None, vt_cap=loop.time() + 1.0, step_cap=loop.steps + 20_000)
                if t1.done() and not t1.cancelled() and t1.exception() is not None:
                    raise t1.exception()  # harness error
                if fr["blocked"]:
                    break

        # ------------------------------------------------------------- judge
        fired = {k: v for k, v in loop.faults.items() if k.startswith(("origin_", "cancel_"))}
        faulted = bool(fired)
        outcome = _classify(st["exc"], st["resp"] is not None)
        recs = origins.log
        home_t = _origin_t(home)
        nreq = len(plan["requests"])
        init_desc = (f"{init['method']} {url} body={init['body']['kind']} max_redirects={init['max_redirects']} chain="
                     + " ".join(f"[{h['o']} {h['status']} {h['loc_str'] if h['loc_str'] is not None else '-'}]" for h in hops))

        if blocked:
            violate("terminates", "call_blocked:" + str(capped or "idle"),
                    f"the call did not complete (loop {'idle' if loop.idle else capped}); {len(recs)} requests were "
                    f"received; acquired={acquired}; {init_desc}")

        # Authority as spelled for each hop.  RFC 6454 makes "a.test" and "a.test:80" (and any
        # letter case) one origin; the client compares yarl origins, which keep an explicit
        # default port, so such a respelling is treated as an origin change and credentials are
        # dropped.  That errs on the safe side and the property statement does not forbid it:
        # from the first respelled same-origin transition on, both keeping and dropping are
        # accepted by the resend checks (never by the confinement checks).
        spelled = [hp0.lower()]
        for j in range(len(hops) - 1):
            ls = hops[j].get("loc_str") or ""
            mm = re.match(r"^(?:[A-Za-z][A-Za-z0-9+.-]*:)?//(?:[^@/?#]*@)?([^/?#]*)", ls)
            spelled.append(mm.group(1).lower() if mm and hops[j]["loc"] != "rel" else spelled[-1])
        respelled_upto = []
        flag = False
        for j in range(len(hops)):
            if j and _origin_t(hops[j]["o"]) == _origin_t(hops[j - 1]["o"]) and spelled[j] != spelled[j - 1]:
                flag = True
            respelled_upto.append(flag)

        # sequence of hops as received
        seq = [r["hop"] for r in recs]
        distinct = []
        for r in recs:
            if r["hop"] not in distinct:
                distinct.append(r["hop"])
        dup_ok = {h for h, kind in origins.faults.items()} if faulted else set()
        for i, r in enumerate(recs):
            hop = r["hop"]
            if hop is None or hop >= len(hops):
                # a request nobody scripted: a refused or non-existent target was followed
                prev = recs[i - 1] if i else None
                pk = hops[prev["hop"]]["loc"] if prev and prev["hop"] is not None and prev["hop"] < len(hops) else "?"
                inv = "refuses_non_http" if pk == "nonhttp" else "refuses_invalid" if pk == "invalid" else "target_resolution"
                violate(inv, f"followed:{pk}",
                        f"request {r['method']} {r['target']} reached origin {r['origin']} after Location "
                        f"{hops[prev['hop']]['loc_str'] if prev and prev['hop'] is not None and prev['hop'] < len(hops) else None!r}; {init_desc}")
                continue
            exp_seq_hop = distinct.index(hop)
            if hop != exp_seq_hop:
                violate("target_resolution", "hop_out_of_order", f"hops received in order {seq}; {init_desc}")
            if r["attempt"] > 0:
                if hop not in dup_ok:
                    violate("request_count", "hop_requested_twice_without_fault",
                            f"hop {hop} was requested {r['attempt'] + 1} times: {seq}; {init_desc}")
                elif r["attempt"] > 1:
                    violate("request_count", "hop_retried_more_than_once", f"hops received {seq}; {init_desc}")
                elif r["method"] in ("POST", "PATCH"):
                    violate("request_count", "non_idempotent_request_retried",
                            f"{r['method']} {r['target']} was sent again after the origin dropped the connection; {init_desc}")
            h = hops[hop]
            here = _origin_t(r["origin"])
            # --- where it arrived and what it asked for
            if r["origin"] != h["o"]:
                violate("target_resolution", f"wrong_origin:{hops[hop - 1]['loc'] if hop else 'initial'}",
                        f"hop {hop} expected at {h['o']} arrived at {r['origin']} (Location {hops[hop - 1]['loc_str'] if hop else None!r}); {init_desc}")
            if r["target"] != h["target"]:
                key = "params_resent" if hop > 0 and "p=1" in r["target"] else f"wrong_target:{hops[hop - 1]['loc'] if hop else 'initial'}"
                violate("target_resolution", key,
                        f"hop {hop} request-target {r['target']!r}, expected {h['target']!r} "
                        f"(Location {hops[hop - 1]['loc_str'] if hop else None!r}); {init_desc}")
            host = _hget(r, "host")
            if host != [_hostport(h["o"])] and not (hop == 0 and init.get("explicit_port") and host == [hp0]):
                violate("target_resolution", "host_header", f"hop {hop} Host {host!r} at origin {h['o']}; {init_desc}")
            if hop >= nreq:
                # beyond what the rules allow: name the rule that should have stopped the chain
                outs = plan["outcomes"]
                if "too_many_redirects" in outs:
                    violate("redirect_limit", "more_requests_than_max_redirects",
                            f"request #{hop + 1} was made with max_redirects={m_eff}; received hops {seq}; {init_desc}")
                elif "non_http" in outs:
                    violate("refuses_non_http", "followed:nonhttp", f"hop {hop} requested after a non-HTTP Location; {init_desc}")
                elif "invalid_url" in outs:
                    violate("refuses_invalid", "followed:invalid", f"hop {hop} requested after an invalid Location; {init_desc}")
                elif "consumed_body" in outs:
                    violate("method_body_table", "consumed_body_followed",
                            f"hop {hop} requested although the one-shot body had been consumed: method {r['method']} "
                            f"body {len(r['body'])} bytes; {init_desc}")
                elif "value_error" in outs:
                    violate("credential_sources", "header_and_url_credentials_sent",
                            f"request sent although Authorization header and URL credentials were both given; {init_desc}")
                else:
                    violate("request_count", "request_after_final_response", f"received hops {seq}; {init_desc}")
                exp = None
            else:
                exp = plan["requests"][hop]
            # --- secrets: judged from the chain actually travelled (received origins), not from the plan
            travelled = [_origin_t(hops[j]["o"]) for j in range(hop + 1)]
            confined = all(o == home_t for o in travelled)
            hay = _haystack(r)
            for tok in sorted(TOKEN_KIND):
                if tok in hay and not confined:
                    rel = R.relation(home_t, here)
                    if rel == "same_origin":
                        rel = "back_home_after_leaving"
                    violate("secret_confinement", f"{TOKEN_KIND[tok]}:{rel}",
                            f"caller secret {tok} ({TOKEN_KIND[tok]}) supplied for {home} was sent to {r['origin']} "
                            f"in hop {hop} ({r['method']} {r['target']}); origins travelled: "
                            f"{[hops[j]['o'] for j in range(hop + 1)]}; headers={r['headers']}; {init_desc}")
            for j in range(len(hops)):
                if hops[j]["loc"] == "userinfo":
                    tok = next((t for t in _loc_cred(j) if t in hay), None)
                    if tok is not None:
                        born = j + 1
                        ok = hop >= born and all(travelled[x] == travelled[born] for x in range(born, hop + 1))
                        if not ok:
                            rel = R.relation(_origin_t(hops[born]["o"]), here) if born < len(hops) else "?"
                            if rel == "same_origin":
                                rel = "back_after_leaving"
                            violate("secret_confinement", f"location_credentials:{rel}",
                                    f"credentials from the Location of hop {j} (for {hops[born]['o'] if born < len(hops) else '?'}) "
                                    f"were sent to {r['origin']} in hop {hop}; origins travelled "
                                    f"{[hops[x]['o'] for x in range(hop + 1)]}; {init_desc}")
            # --- jar cookies: exactly the jar's selection for this hop
            got, ncookie_hdrs = _cookie_pairs(r["headers"])
            got_jar = {k: v for k, v in got.items() if k not in CALLER_COOKIE_NAMES}
            want = r["jar"]
            if got_jar != want:
                missing = sorted(set(want) - set(got_jar))
                extra = sorted(set(got_jar) - set(want))
                cls = "missing" if missing else "extra" if extra else "value"
                where = "first_hop" if hop == 0 else ("same_origin_hop" if travelled[hop] == travelled[hop - 1] else "cross_origin_hop")
                violate("jar_reselection", f"{cls}:{where}",
                        f"hop {hop} at {r['origin']} {r['target']}: Cookie header carries {got_jar}, the jar selects "
                        f"{want} for that URL (missing {missing}, extra {extra}); {init_desc}")
            if ncookie_hdrs > 1:
                violate("jar_reselection", "several_cookie_headers", f"hop {hop} has {ncookie_hdrs} Cookie header lines; {init_desc}")
            # --- ... and that selection is the one RFC 6265 makes for this hop's URL from the cookies the
            # jar was given (preload + every Set-Cookie of the chain so far), whatever was selected before
            if r["rfc"] is not None:
                cls, missing, extra = _rfc_judge(got_jar, r["rfc"])
                if cls is not None:
                    where = "first_hop" if hop == 0 else ("same_origin_hop" if travelled[hop] == travelled[hop - 1] else
                                                          "same_host_hop" if ORIGINS[hops[hop]["o"]][1] == ORIGINS[hops[hop - 1]["o"]][1]
                                                          else "cross_host_hop")
                    violate("jar_scope_per_hop", f"{cls}:{where}",
                            f"hop {hop} at {r['origin']} ({_base(r['origin'])}{r['target']}): Cookie header carries "
                            f"{got_jar}; RFC 6265 selects {r['rfc']['sel']} from the cookies the jar holds (missing "
                            f"{missing}, extra {extra}: {[r['rfc']['why'].get((n, got_jar[n]), 'no such cookie stored') for n in extra]}); "
                            f"jar preload {[(c['name'], c.get('url'), c.get('domain'), c.get('path')) for c in scn['jar']['pre']]}; "
                            f"earlier hops at {[hops[j]['o'] for j in range(hop)]}; {init_desc}")
            if exp is None:
                continue
            # --- method and body per the table
            if r["method"] != exp["method"]:
                prev_status = hops[hop - 1]["status"] if hop else 0
                violate("method_body_table", f"method:{prev_status}:{plan['requests'][hop - 1]['method'] if hop else '-'}->{r['method']}",
                        f"hop {hop} has method {r['method']}, the table gives {exp['method']} after "
                        f"{prev_status} to a {plan['requests'][hop - 1]['method'] if hop else '-'}; {init_desc}")
            if exp["body"] == "empty":
                if r["body"]:
                    prev_status = hops[hop - 1]["status"] if hop else 0
                    violate("method_body_table", f"body_kept:{prev_status}",
                            f"hop {hop} ({r['method']}) carries a {len(r['body'])}-byte body that the table drops "
                            f"(after {prev_status}); {init_desc}")
            else:
                first = next((x for x in recs if x["hop"] == 0), None)
                ref_body = exp_body0 if exp_body0 is not None else (first["body"] if first is not None else None)
                if init["body"]["kind"] == "form" and hop == 0 and r["body"] != _form_expected(init["body"]["fields"]):
                    violate("method_body_table", "form_body_encoding", f"form body received as {r['body'][:80]!r}; {init_desc}")
                if ref_body is not None and r["body"] != ref_body:
                    prev_status = hops[hop - 1]["status"] if hop else 0
                    cls = "empty" if not r["body"] else "truncated" if ref_body.startswith(r["body"]) else "different"
                    violate("method_body_table", f"body_{cls}:{prev_status}:{init['body']['kind']}",
                            f"hop {hop} ({r['method']}) body is {len(r['body'])} bytes {r['body'][:40]!r}, expected the "
                            f"original {len(ref_body)} bytes {ref_body[:40]!r}; {init_desc}")
            # --- Authorization: whose credentials
            auth = _hget(r, "authorization")
            cred = exp["auth"]
            if cred is None:
                want_auth = []
            elif cred == "caller_header":
                want_auth = ["Bearer " + T_AUTH]
            elif cred == "url":
                want_auth = ["Basic " + base64.b64encode(f"cu:{T_PW}".encode()).decode()]
            else:
                u, pw = _loc_userinfo(hops[cred[1]]["loc_str"])
                want_auth = ["Basic " + base64.b64encode(f"{u}:{pw}".encode()).decode()]
            if auth != want_auth:
                if auth and not want_auth:
                    violate("secret_confinement", "authorization_present_unexpected",
                            f"hop {hop} at {r['origin']} carries Authorization {auth} but no credentials apply there; {init_desc}")
                elif want_auth and not auth:
                    if respelled_upto[hop]:
                        probes_extra["overdrop_on_respelled_authority"] = 1
                    else:
                        violate("same_origin_resend", "authorization_lost",
                                f"hop {hop} at {r['origin']} lacks the Authorization ({cred}) that applies to it; {init_desc}")
                else:
                    violate("credential_sources", f"authorization_not_superseded:{cred if isinstance(cred, str) else cred[0]}",
                            f"hop {hop} Authorization {auth}, expected {want_auth} ({cred}); {init_desc}")
            # --- the original request is resent on the same origin (RFC 9110 15.4)
            if exp["caller_secrets"]:
                lost = []
                if init["cookie_header"] and not (got.get("hc1") == T_HC[0] and got.get("hc2") == T_HC[1]):
                    lost.append("cookie_header")
                if init["req_cookies"] and got.get("rc1") != T_RC:
                    lost.append("request_cookies")
                if init["proxy_auth"] and _hget(r, "proxy-authorization") != ["Basic " + T_PA]:
                    lost.append("proxy_authorization")
                if lost and respelled_upto[hop]:
                    probes_extra["overdrop_on_respelled_authority"] = 1
                    lost = []
                for what in lost:
                    violate("same_origin_resend", f"{what}_lost",
                            f"hop {hop} at {r['origin']} (same origin as every hop before it) lacks the caller's {what}; "
                            f"headers={r['headers']}; {init_desc}")

        # --- outcome, count, history (strict without faults; with faults a failure is allowed)
        ndist = len([h for h in distinct if h is not None and h < len(hops)])
        if not blocked:
            acceptable = set(plan["outcomes"])
            if faulted:
                acceptable |= {"connection_error", "cancelled", "consumed_body"}
            if outcome not in acceptable:
                if outcome == "too_many_redirects":
                    violate("redirect_limit", "too_many_redirects_early",
                            f"TooManyRedirects after {ndist} requests with max_redirects={m_eff}, expected {sorted(plan['outcomes'])}; {init_desc}")
                elif "too_many_redirects" in plan["outcomes"]:
                    violate("redirect_limit", f"limit_not_enforced:{outcome}",
                            f"outcome {outcome} ({st['exc']!r}, final={st['final']}) with max_redirects={m_eff} and a chain of "
                            f"{len(hops) - 1}+ redirects; {ndist} requests made; {init_desc}")
                elif "non_http" in plan["outcomes"]:
                    violate("refuses_non_http", f"outcome:{outcome}", f"non-HTTP Location gave {outcome} ({st['exc']!r}); {init_desc}")
                elif "invalid_url" in plan["outcomes"]:
                    violate("refuses_invalid", f"outcome:{outcome}", f"invalid Location gave {outcome} ({st['exc']!r}); {init_desc}")
                elif "consumed_body" in plan["outcomes"]:
                    violate("method_body_table", f"consumed_body_outcome:{outcome}",
                            f"one-shot body and a body-preserving redirect gave {outcome} ({st['exc']!r}); {init_desc}")
                else:
                    violate("outcome", f"{'+'.join(sorted(plan['outcomes']))}->{outcome}",
                            f"expected {sorted(plan['outcomes'])}, got {outcome} ({st['exc']!r}); {init_desc}")
            elif not faulted or outcome in plan["outcomes"]:
                if ndist != nreq and not faulted:
                    violate("request_count", "fewer_requests_than_planned" if ndist < nreq else "more_requests_than_planned",
                            f"{ndist} distinct requests received, the rules give {nreq}; {seq}; {init_desc}")
                k = plan["history"]
                if outcome == "response":
                    want_hist = [(hops[j]["status"], str(j)) for j in range(k)]
                    got_hist = [(a, b) for a, b, _ in st["history"]]
                    if got_hist != want_hist:
                        cls = "empty" if not got_hist else "short" if len(got_hist) < len(want_hist) else "order_or_content"
                        if got_hist == want_hist + [(hops[k]["status"], str(k))] and st["final"] == (hops[k]["status"], str(k)):
                            cls = "contains_final_response:" + ("no_location" if hops[k]["loc"] == "missing" else str(hops[k]["loc"]))
                        violate("history", f"history_{cls}", f"resp.history is {got_hist}, expected {want_hist}; {init_desc}")
                    if st["final"] != (hops[k]["status"], str(k)):
                        violate("history", "final_response", f"final response {st['final']}, expected hop {k} ({hops[k]['status']}); {init_desc}")
                    if st["read_exc"] is not None and not faulted:
                        violate("outcome", "final_body_unreadable:" + type(st["read_exc"]).__name__,
                                f"reading the final response failed: {st['read_exc']!r}; {init_desc}")
                elif outcome == "too_many_redirects":
                    want_hist = [(hops[j]["status"], str(j)) for j in range(k + 1)]
                    got_hist = [(a, b) for a, b, _ in (st["history"] or [])]
                    if got_hist != want_hist:
                        violate("history", "too_many_redirects_history", f"TooManyRedirects.history is {got_hist}, expected {want_hist}; {init_desc}")
                if st["history"] and outcome in ("response", "too_many_redirects"):
                    # only the *intermediate* responses: should the final response appear in its own
                    # history (finding C17-F1) it legitimately still holds its connection here
                    unreleased = [b for _, b, rel in st["history"]
                                  if not rel and not (outcome == "response" and st["final"] is not None and b == st["final"][1])]
                    if unreleased:
                        violate("released", "history_response_holds_connection",
                                f"history responses of hops {unreleased} still hold their connection; {init_desc}")
        if acquired:
            violate("released", "connector_acquired_at_quiescence:" + outcome.split(":")[0],
                    f"white-box: TCPConnector._acquired has {acquired} entries at quiescence after outcome {outcome}; "
                    f"{len(recs)} requests; {init_desc}")
        # --- later calls on the same session.  Each is a chain of its own: what the caller supplied for an
        # earlier call (its headers=, cookies=, URL credentials, credentials a Location carried) was supplied
        # for that call's origin and may not reach another origin now; session-level default headers are
        # supplied anew with every call, for the origin that call is addressed to.
        def b64(u, pw):
            return "Basic " + base64.b64encode(f"{u}:{pw}".encode()).decode()

        earlier = {}  # token -> (kind, name of the origin it was supplied for)
        if not via_session:
            for tok in (T_AUTH, T_HC[0], T_HC[1], T_PA):
                earlier[tok] = (TOKEN_KIND[tok], home)
        earlier[T_RC] = (TOKEN_KIND[T_RC], home)
        earlier[T_PW] = (TOKEN_KIND[T_PW], home)
        for j in range(len(hops) - 1):
            if hops[j]["loc"] == "userinfo":
                for tok in _loc_cred(j):
                    earlier[tok] = ("location_credentials", hops[j + 1]["o"])
        defaults = (T_AUTH, T_HC[0], T_HC[1], T_PA) if via_session else ()
        # a response the first call never got to look at (cut short, or the caller was cancelled) may or may
        # not be in the jar: the model is only consulted for later calls when that cannot have happened
        rfc_settled = rfc is not None and rfc.pending is None and not loop.faults.get("cancel_caller")
        for i, fr in enumerate(fu_res):
            fu = fus[i]
            red = fu["red"]
            chain = [fu["o"]] + ([red["to"]] if red else [])
            first_t = _origin_t(fu["o"])
            frecs = [r for r in origins.flog if r["call"] == i]
            fdesc = (f"later call {i} on the same session: GET {fu['o']} /f{i} headers={fu['hdr']} "
                     f"url_credentials={fu['url_creds']} answered {str(red['status']) + ' Location ' + _fu_loc(fu, i) if red else 200}; "
                     f"session default headers={sorted(headers) if via_session else None}; first call: {init_desc}")
            for n, r in enumerate(frecs):
                pos = r["pos"]
                if n != pos or pos >= len(chain):
                    violate("request_count", "later_call_unexpected_request",
                            f"requests received {[(x['origin'], x['target']) for x in frecs]}; {fdesc}")
                    continue
                if r["origin"] != chain[pos]:
                    violate("target_resolution", "wrong_origin:later_call",
                            f"{r['target']} expected at {chain[pos]} arrived at {r['origin']}; {fdesc}")
                here_t = _origin_t(r["origin"])
                confined = all(_origin_t(o) == first_t for o in chain[:pos + 1])
                hay = _haystack(r)
                for tok in sorted(earlier):
                    kind, org = earlier[tok]
                    if tok in hay and _origin_t(org) != here_t:
                        violate("secret_confinement", f"{kind}:later_call:{R.relation(_origin_t(org), here_t)}",
                                f"{tok} ({kind}), supplied for {org} in an earlier call, was sent to {r['origin']} "
                                f"({r['method']} {r['target']}); headers={r['headers']}; {fdesc}")
                own = [(t, TOKEN_KIND[t]) for t in defaults] + [(t, "url_credentials") for t in _fu_cred(i) if fu["url_creds"]]
                for tok, kind in own:
                    if tok in hay and not confined:
                        violate("secret_confinement", f"{kind}:{R.relation(first_t, here_t)}",
                                f"{tok} ({kind}) supplied for {fu['o']} was sent to {r['origin']} after the redirect; "
                                f"headers={r['headers']}; {fdesc}")
                # whose Authorization
                if fu["url_creds"]:
                    a0 = [b64(*_fu_cred(i))]
                elif via_session and init["auth_header"]:
                    a0 = ["Bearer " + T_AUTH]
                else:
                    a0 = []
                if pos and red["loc"] == "userinfo":
                    want_auth = [b64(*_fu_loc_cred(i))]
                else:
                    want_auth = a0 if confined else []
                auth = _hget(r, "authorization")
                if want_auth and not auth:
                    violate("same_origin_resend", "authorization_lost:later_call",
                            f"{r['target']} at {r['origin']} lacks the Authorization {want_auth} that applies to it; "
                            f"headers={r['headers']}; {fdesc}")
                elif want_auth and auth != want_auth:
                    violate("credential_sources", "authorization_not_superseded:later_call",
                            f"{r['target']} at {r['origin']} Authorization {auth}, expected {want_auth}; {fdesc}")
                got, ncookie_hdrs = _cookie_pairs(r["headers"])
                if via_session and confined:
                    lost = []
                    if init["cookie_header"] and not (got.get("hc1") == T_HC[0] and got.get("hc2") == T_HC[1]):
                        lost.append("cookie_header")
                    if init["proxy_auth"] and _hget(r, "proxy-authorization") != ["Basic " + T_PA]:
                        lost.append("proxy_authorization")
                    for what in lost:
                        violate("same_origin_resend", f"{what}_lost:later_call",
                                f"{r['target']} at {r['origin']} lacks the session's default {what}; "
                                f"headers={r['headers']}; {fdesc}")
                got_jar = {k: v for k, v in got.items() if k not in CALLER_COOKIE_NAMES}
                if got_jar != r["jar"]:
                    missing = sorted(set(r["jar"]) - set(got_jar))
                    extra = sorted(set(got_jar) - set(r["jar"]))
                    cls = "missing" if missing else "extra" if extra else "value"
                    violate("jar_reselection", f"{cls}:later_call",
                            f"{r['target']} at {r['origin']}: Cookie header carries {got_jar}, the jar selects {r['jar']} "
                            f"for that URL; {fdesc}")
                if ncookie_hdrs > 1:
                    violate("jar_reselection", "several_cookie_headers", f"{r['target']} has {ncookie_hdrs} Cookie header lines; {fdesc}")
                if r["rfc"] is not None and rfc_settled:
                    cls, missing, extra = _rfc_judge(got_jar, r["rfc"])
                    if cls is not None:
                        violate("jar_scope_per_hop", f"{cls}:later_call",
                                f"{r['target']} at {r['origin']}: Cookie header carries {got_jar}; RFC 6265 selects "
                                f"{r['rfc']['sel']} from the cookies the jar holds (missing {missing}, extra {extra}: "
                                f"{[r['rfc']['why'].get((n, got_jar[n]), 'no such cookie stored') for n in extra]}); {fdesc}")
            if fr["blocked"]:
                violate("terminates", "later_call_blocked", f"the call did not complete; {len(frecs)} requests received; {fdesc}")
            else:
                oc = _classify(fr["exc"], fr["final"] is not None)
                if oc != "response":
                    violate("outcome", f"later_call:response->{oc}", f"got {oc} ({fr['exc']!r}); {fdesc}")
                else:
                    want_final = (200, f"g{i}" if red else f"f{i}")
                    want_hist = [(red["status"], f"f{i}")] if red else []
                    if fr["final"] != want_final or fr["history"] != want_hist:
                        violate("history", "later_call_history",
                                f"final {fr['final']} history {fr['history']}, expected {want_final} {want_hist}; {fdesc}")
                    if len(frecs) != len(chain):
                        violate("request_count", "later_call_request_count",
                                f"{len(frecs)} requests received, expected {len(chain)}; {fdesc}")
            if fu["url_creds"]:
                for tok in _fu_cred(i):
                    earlier[tok] = ("url_credentials", fu["o"])
            if red and red["loc"] == "userinfo":
                for tok in _fu_loc_cred(i):
                    earlier[tok] = ("location_credentials", red["to"])

        for c in loop.exc_contexts:
            violate("loop_exception", f"{c['exc_type']}@{c.get('frame')}",
                    f"exception reached the event loop: {c['message']} {c['exc']} frame={c.get('frame')}; {init_desc}")
            break

        # close the session; nothing may be left open
        if st["session"] is not None:
            t2 = loop.run_sim(st["session"].close(), vt_cap=loop.time() + 30.0, step_cap=loop.steps + 20_000)
            if not t2.done():
                violate("released", "session_close_blocked", f"session.close() did not return; {init_desc}")
            loop.run_sim(None, vt_cap=loop.time() + 1.0, step_cap=loop.steps + 20_000)

        st_ = w.stats()
        trav = [hops[j]["o"] for j in distinct if j is not None and j < len(hops)]
        changes = sum(1 for i in range(1, len(trav)) if trav[i] != trav[i - 1])
        back_home = any(trav[i] == home and any(t != home for t in trav[:i]) for i in range(len(trav)))
        any_secret = any(init[k] for k in ("auth_header", "cookie_header", "proxy_auth", "req_cookies", "url_creds"))
        jar_sets = [tuple(sorted(r["jar"].items())) for r in recs]
        transformed = has_body and any(plan["requests"][i]["body"] == "empty" for i in range(nreq))
        replayed = has_body and sum(1 for r in recs if r["body"]) >= 2
        refusal = outcome in ("too_many_redirects", "non_http", "invalid_url", "consumed_body", "value_error")
        nontrivial = len(trav) >= 2 and (any_secret or any(jar_sets)) and (changes > 0 or transformed or replayed or refusal)
        probes = {
            "followed_1plus": int(len(trav) >= 2), "followed_5plus": int(len(trav) >= 6),
            "origin_change": int(changes > 0), "back_home": int(back_home),
            "out_" + outcome.split(":")[0]: 1,
            "limit_hit_where_doc_literal_reading_would_follow": int(outcome == "too_many_redirects" and len(hops) - 1 == m_eff and hops[-1]["status"] not in STATUSES),
            "jar_selection_varies": int(len(set(jar_sets)) > 1), "jar_nonempty": int(any(jar_sets)),
            "body_replayed": int(replayed), "body_dropped": int(transformed and len(trav) >= 2),
            "userinfo_location": int(any(hops[j]["loc"] == "userinfo" for j in range(max(0, len(trav) - 1)))),
            "limit1_chain": int(scn["conn"]["limit"] == 1 and len(trav) >= 3),
            "retry_seen": int(any(r["attempt"] > 0 for r in recs)),
            "cancel_fired": int(bool(loop.faults.get("cancel_caller"))),
            "secret_dropped": int(any_secret and changes > 0),
            "later_call": int(bool(fu_res)), "later_calls_2plus": int(len(fu_res) >= 2),
            "later_call_to_other_origin": int(any(_origin_t(fus[i]["o"]) != home_t for i in range(len(fu_res)))),
            "later_call_redirected": int(any(fus[i]["red"] for i in range(len(fu_res)))),
            "later_call_after_url_or_location_credentials": int(bool(fu_res) and (
                init["url_creds"] or any(hops[j]["loc"] == "userinfo" for j in range(max(0, len(trav) - 1))))),
            "later_call_with_session_defaults_after_origin_change": int(bool(fu_res) and via_session and changes > 0
                                                                        and any(headers)),
            "later_call_skipped_first_call_blocked_or_leaked": int(bool(fus) and not fu_res),
            "cookie_reissued_with_other_attributes_then_hop": int(bool(scn.get("reissue")) and len(trav) > scn["reissue"]["hop"] + 1),
        }
        for s in sorted({hops[j]["status"] for j in range(max(0, len(trav) - 1))}):
            probes[f"followed_{s}"] = 1
        for rel in sorted({R.relation(home_t, _origin_t(t)) for t in trav} - {"same_origin"}):
            probes["reached_" + rel] = 1
        res = {
            "violations": viols, "nontrivial": bool(nontrivial), "sig": st_["sig"], "digest": st_["digest"],
            "steps": st_["steps"], "vtime": st_["vtime"], "faults": st_["faults"],
            "probes": {k: v for k, v in sorted({**probes, **probes_extra}.items()) if v and not k.endswith("_")},
            "shape": f"{scn['batch']}-{min(len(hops) - 1, 9)}r-{outcome.split(':')[0]}-{init['body']['kind']}",
        }
        if log:
            res["event_log"] = loop.event_log
            res["debug"] = {"outcome": outcome, "exc": repr(st["exc"]), "final": st["final"], "history": st["history"],
                            "plan": plan, "requests": [(r["origin"], r["method"], r["target"], r["headers"], r["body"][:60], r["jar"]) for r in recs]}
        return res


def oracle_selftest():
    R.oracle_selftest()
    RC.oracle_selftest()

    class _L:
        def time(self):
            return 0.0
    j = _RfcJar(_L(), [{"name": "jhome", "value": "JH", "url": "http://a.test/"},
                       {"name": "jdom", "value": "JD", "url": "http://a.test/", "domain": "a.test"},
                       {"name": "jsec", "value": "JS", "url": "https://a.test/", "secure": True},
                       {"name": "jshared", "value": "JX", "url": None}])
    assert j.probe("A", "/h0?q=1")["sel"] == {"jhome": ["JH"], "jdom": ["JD"], "jshared": ["JX"]}
    assert j.probe("AS", "/h0")["sel"] == {"jhome": ["JH"], "jdom": ["JD"], "jsec": ["JS"], "jshared": ["JX"]}
    p = j.probe("SUB", "/h1")
    assert p["sel"] == {"jdom": ["JD"], "jshared": ["JX"]} and p["why"][("jhome", "JH")] == "host_only_to_subdomain"
    assert j.probe("B", "/h1")["sel"] == {"jshared": ["JX"]}
    assert _rfc_judge({"jdom": "JD", "jshared": "JX", "jhome": "JH"}, p)[0] == "extra:host_only_to_subdomain"
    assert _rfc_judge({"jdom": "JD"}, p)[0] == "missing" and _rfc_judge({"jdom": "JD", "jshared": "JX"}, p)[0] is None
    j.apply("SUB", "/h1", ["sp=1; Path=/h3", "jdom=X; Domain=b.test", "jhome=gone; Max-Age=0; Path=/", "jhome=N; Path=/"])
    assert j.probe("SUB", "/h3")["sel"] == {"sp": ["1"], "jhome": ["N"], "jdom": ["JD"], "jshared": ["JX"]}
    assert j.probe("SUB", "/h3")["redone"] == {"jhome"} and j.probe("A", "/h3")["sel"]["jhome"] == ["JH"]
    j.pending = (2, "A", "/h2", ["late=1"])
    j.on_request(2)
    assert j.pending is None and "late" not in j.probe("A", "/h2")["sel"]
    j.pending = (2, "A", "/h2", ["late=1"])
    j.on_request(3)
    assert j.pending is None and j.probe("A", "/h2")["sel"]["late"] == ["1"]
    # the harness' own helpers
    rec = {"target": "/h1", "headers": [("Authorization", "Basic " + base64.b64encode(b"cu:SECRETPW0").decode()),
                                        ("Cookie", "a=1; b=2"), ("cookie", "c=3")]}
    assert "SECRETPW0" in _haystack(rec)
    assert _cookie_pairs(rec["headers"]) == ({"a": "1", "b": "2", "c": "3"}, 2)
    assert _form_expected([["f0", "v 0"], ["f1", "v&1"]]) == b"f0=v+0&f1=v%261"
    import random
    for i in range(50):
        scn = gen(random.Random(i), "quick", i)
        # every followable Location must lead to the scripted next target
        for k, h in enumerate(scn["hops"][:-1]):
            assert h["loc"] in ("abs", "rel", "schemerel", "userinfo"), h
            assert scn["hops"][k + 1]["target"].startswith(f"/h{k + 1}")
