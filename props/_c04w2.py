"""C04 workload W2: write programs and bodies under faults (DESIGN.md 9/C04).

Scenario kinds
  sw    a program of StreamWriter calls (write_headers, send_headers, write(n),
        write_eof(n), set_eof, drain) in chunked / declared-length / plain mode,
        with or without deflate/gzip, against a recording raw peer that may stop
        reading (so pause_writing flips and drain() really blocks), with a
        reset/eof between two calls or at a time, and cancellation of the task.
  resp  web.Response / web.StreamResponse (bytes, text, every payload kind, real
        temporary files, async iterator, multipart with and without size) sent
        through prepare()/write()/write_eof() for GET/HEAD, HTTP/1.0/1.1, with
        compression and chunking; same faults.
  cli   a real ClientSession request with a body of every kind against a
        recording raw server (CS sample, client half); same faults.  With "mw":
        a client middleware replaces the body through ClientRequest.update_body()
        (once or twice, any body kind -> any body kind) before the request is
        sent: the message on the wire must be framed for the body that is sent.
        With "resend": the middleware calls handler(req) again (retry middleware):
        each send must be one well-formed request carrying the whole body.
  srv   a real web server (AppRunner/TCPSite/RequestHandler) answering a scripted
        raw client with responses built from the same specs (CS sample, server half).
  file  (props/_c04w3.py) web.FileResponse behind the real server while another
        writer changes the served file at a point of the file-access seam.
  w1    (generated here, executed by _c04w1) positions x random hostile strings.
"""
from __future__ import annotations

import asyncio
import io
import random as _random
import tempfile

from ref import chunked as refc
from ref import http1
from sim.world import World

# ---------------------------------------------------------------------------
# content


def _mk_content(n: int) -> bytes:
    rr = _random.Random(424242)
    words = [bytes(rr.randrange(256) for _ in range(rr.randrange(1, 9))) for _ in range(64)]
    out = bytearray()
    while len(out) < n:
        out += rr.choice(words)
        if rr.random() < 0.1:
            out += bytes(rr.randrange(256) for _ in range(rr.randrange(1, 40)))
    return bytes(out[:n])


CONTENT = _mk_content(400_000)
TEXT = ("".join(chr(0x20 + (i * 7919) % 95) if i % 11 else "\u00e9" for i in range(5000)))
SIZES = [0, 0, 1, 1, 2, 7, 100, 1000, 2047, 2048, 2049, 4095, 4096, 4097, 65535, 65536, 65537]
HOSTILE = ["a\r\nX-Injected: 1", "a\nb", "a\rb", "ok\x00", " lead", "trail ", "t\tab", "caf\u00e9", "\u2028x", "a\r\n\r\nHTTP/1.1 200 OK\r\n\r\n",
           "x\x7f", "\ud800", "a:b", "", "a b", "\x0b", "\x85", "a;b=c", 'q"uote', "b\\s"]
W1_STRINGS = HOSTILE + [
    "\r\n", "\n\n", "x\r\n\r\nGET /evil HTTP/1.1\r\nHost: e\r\n\r\n", "\r\nContent-Length: 0\r\n\r\n", "%0d%0a", "\\r\\n",
    "a\r\n b", "a\n\tb", "a\u560a\u560d", "a\uff1ab", "\u010d\u010a", "\x1f", "\x1e\x1d", "a,b", "a=b", "a;b", "a/b", "a@b", "a?b#c",
    "a%b", "(a)", "[a]", "{a}", "<a>", "a'b", "Content-Length", "Transfer-Encoding", "transfer-encoding\r\n", "Host", "x" * 300,
    "\u00e9\u00e8", "\U0001f600", "\ufeffx", "a\x00\r\nb", "\t", " ", "  a  ", "\r", "\n", "a\r", "a\n", "\ra", "\na",
    "\"; filename=\"evil", "x\"\r\nContent-Type: text/html\r\n\r\n<script>",
]


# ---------------------------------------------------------------------------
# generation


def gen_w1_strings(rng, names):
    strs = []
    for _ in range(rng.randint(8, 40)):
        r = rng.random()
        if r < 0.5:
            strs.append(rng.choice(W1_STRINGS))
        elif r < 0.8:
            strs.append(rng.choice(["", "a", "Xy"]) + rng.choice(W1_STRINGS) + rng.choice(["", "b", "Zw"]))
        else:
            alphabet = "\r\n\t \x00:;,=\"\\ab\u00e9\x7f\x0b"
            strs.append("".join(rng.choice(alphabet) for _ in range(rng.randint(1, 8))))
    return {"kind": "w1", "pos": rng.choice(names), "strs": strs}


def _gen_faults(rng, nops):
    """hold / kill / cancel"""
    f = {"hold": None, "kill": None, "cancel": None, "highwater": rng.choice([None, None, 1024, 4096, 65536])}
    r = rng.random()
    if r < 0.45:
        f["hold"] = {"at_op": rng.randrange(0, max(1, nops)), "release_ms": rng.choice([None, 1, 5, 20, 20])}
    r = rng.random()
    if r < 0.22:
        f["kill"] = {"at_op": rng.randrange(0, nops + 1), "kind": rng.choice(["reset", "eof"])}
    elif r < 0.32:
        f["kill"] = {"at_ms": rng.choice([0, 1, 2, 6, 10]), "kind": rng.choice(["reset", "eof"])}
    r = rng.random()
    if r < 0.12:
        f["cancel"] = {"at_step": rng.randrange(1, 40)}
    elif r < 0.25:
        f["cancel"] = {"at_ms": rng.choice([0, 1, 2, 3, 6, 10])}
    return f


def gen_sw(rng):
    mode = rng.choice(["chunked", "chunked", "length", "plain"])
    compress = None
    if mode != "length" and rng.random() < 0.4:
        compress = rng.choice(["deflate", "gzip"])
    ops = []
    if rng.random() < 0.4:
        ops.append(["send_headers", 0])
    nbody = rng.randint(0, 6)
    small = rng.random() < 0.5
    for _ in range(nbody):
        r = rng.random()
        if r < 0.72:
            n = rng.choice(SIZES[:11] if small else SIZES)
            ops.append(["write", n])
        elif r < 0.87:
            ops.append(["drain", 0])
        else:
            ops.append(["send_headers", 0])
    r = rng.random()
    if r < 0.62:
        ops.append(["write_eof", rng.choice(SIZES[:11] if small else SIZES)])
    elif r < 0.82:
        # set_eof never ends a compressed body that has data (assumption)
        if compress is None or not any(o[0] == "write" and o[1] for o in ops):
            ops.append(["set_eof", 0])
        else:
            ops.append(["write_eof", 0])
    if ops and ops[-1][0] in ("write_eof", "set_eof") and rng.random() < 0.25:
        ops.append([rng.choice(["write_eof", "set_eof"]), 0])
    total = sum(o[1] for o in ops if o[0] in ("write", "write_eof"))
    length = None
    if mode == "length":
        length = max(0, rng.choice([total, total, total - 1, total + 5, 0, total // 2, 2048, 65536]))
    scn = {"kind": "sw", "mode": mode, "length": length, "compress": compress, "ops": ops,
           "memview": rng.random() < 0.2, "policy": rng.choice(["whole", "whole", "mss", "small", "mixed"]),
           "lat": rng.choice([0, 0, 1, 3]), "hname": "X-Tag", "hval": rng.choice(["v", "caf\u00e9", "a b"])}
    scn.update(_gen_faults(rng, len(ops)))
    return scn


BODY_KINDS = ["bytes", "bytes", "bytearray", "text", "none", "bytespayload", "stringpayload", "bytesio", "file", "file",
              "textfile", "textfile_crlf", "textfile_latin1", "stringio", "aiter", "multipart", "multipart_nosize", "multipart_file",
              "formdata", "json"]


def gen_body(rng):
    kind = rng.choice(BODY_KINDS)
    n = rng.choice([0, 1, 5, 100, 1000, 2048, 4097, 65536, 65537, 150_000])
    if kind in ("text", "stringpayload", "stringio", "textfile", "textfile_crlf", "textfile_latin1", "json"):
        n = min(n, 4000)
    return {"kind": kind, "size": n, "pieces": rng.choice([1, 2, 3, 5])}


def gen_respspec(rng):
    cls = rng.choice(["Response", "Response", "StreamResponse"])
    spec = {
        "cls": cls, "status": rng.choice([200, 200, 200, 201, 204, 304, 404]),
        "method": rng.choice(["GET", "GET", "GET", "HEAD"]), "version": rng.choice([[1, 1], [1, 1], [1, 1], [1, 0]]),
        "accept_encoding": rng.choice(["", "", "gzip", "deflate", "gzip, deflate"]),
        "compress": rng.choice([None, None, None, "auto", "gzip", "deflate"]),
        "chunked": rng.random() < 0.25, "zlib_executor_size": rng.choice([None, None, 64, 1024]),
        "hval": rng.choice(["v", "v", "v"] + HOSTILE), "reason": rng.choice([None, None, None, "Fine", "caf\u00e9"] + HOSTILE[:4]),
        "cookie": rng.choice([None, None, ["k", "v"], ["k", rng.choice(HOSTILE)]]),
    }
    if cls == "Response":
        spec["body"] = gen_body(rng)
    else:
        ops = []
        for _ in range(rng.randint(0, 4)):
            ops.append(["write", rng.choice(SIZES)])
        if rng.random() < 0.85:
            ops.append(["write_eof", rng.choice(SIZES[:11])])
        total = sum(o[1] for o in ops)
        spec["ops"] = ops
        spec["content_length"] = rng.choice([None, None, total, total, max(0, total - 1), total + 3])
        if spec["content_length"] is not None:
            spec["chunked"] = False
    return spec


def gen_cli(rng):
    scn = {"kind": "cli", "method": rng.choice(["POST", "POST", "PUT", "PATCH", "GET", "DELETE"]), "body": gen_body(rng),
           "chunked": rng.choice([None, None, True]), "compress": rng.choice([False, False, "deflate", "gzip"]),
           "expect100": rng.random() < 0.15, "hval": rng.choice(["v", "v"] + HOSTILE),
           "policy": rng.choice(["whole", "mss", "small", "mixed"]), "lat": rng.choice([0, 0, 1, 2])}
    scn.update(_gen_faults(rng, 4))
    if scn["kill"] is not None and "at_op" in scn["kill"]:
        scn["kill"] = {"at_ms": rng.choice([0, 1, 2, 6]), "kind": scn["kill"]["kind"]}
    if scn["hold"] is not None:
        scn["hold"] = {"at_ms": rng.choice([0, 0, 1, 2]), "release_ms": scn["hold"]["release_ms"]}
    return scn


# bodies whose size aiohttp cannot know in advance (sent chunked)
UNSIZED_KINDS = ["aiter", "multipart_nosize"]
MW_SHARE = 0.04


def gen_cli_mw(rng):
    """kind cli with a client middleware that swaps the body through ClientRequest.update_body() (every transition
    between no body / body of known size / body of unknown size) and / or sends the request again (retry middleware:
    the same request object and payload written a second and third time), under the same options and faults"""
    scn = gen_cli(rng)
    if rng.random() < 0.25:
        scn["body"] = dict(scn["body"], kind="none")
    r = rng.random()
    swap, again = r < 0.8, r >= 0.6
    ups = []
    if swap:
        for _ in range(1 if rng.random() < 0.8 else 2):
            b = gen_body(rng)
            r = rng.random()
            if r < 0.35:
                b["kind"] = rng.choice(UNSIZED_KINDS)
            elif r < 0.45:
                b["kind"] = "none"
            ups.append(b)
    scn["mw"] = ups
    scn["resend"] = None
    if again:
        scn["resend"] = rng.choice([1, 1, 2])
        # only a body that can be sent again: an async iterator is used up by the first send
        last = ups[-1] if ups else scn["body"]
        while last["kind"] in UNSIZED_KINDS:
            last["kind"] = rng.choice(BODY_KINDS)
        last["size"] = min(last["size"], 65537)
    if rng.random() < 0.4:
        scn.update(hold=None, kill=None, cancel=None)
    if rng.random() < 0.7:
        scn["hval"] = "v"  # a refused header value ends the run before anything is framed
    return scn


def enum_mw_cases():
    """update_body() transitions completely for one small configuration: body the request was built with x body
    swapped in x method with / without request-body semantics x chunked asked for or not x compression; then every
    body kind that can be sent again sent twice by a retry middleware (as built, and after a swap)"""
    first = ["none", "bytes", "file", "stringio", "aiter", "multipart", "multipart_nosize", "formdata"]
    second = []
    for k in BODY_KINDS:
        if k not in second:
            second.append(k)
    base = {"kind": "cli", "expect100": False, "hval": "v", "policy": "whole", "lat": 0,
            "hold": None, "kill": None, "cancel": None, "highwater": None}
    for method in ("POST", "GET"):
        for chunked, compress in ((None, False), (True, False), (None, "deflate")):
            for a in first:
                for b in second:
                    yield dict(base, method=method, body={"kind": a, "size": 10, "pieces": 1},
                               mw=[{"kind": b, "size": 9, "pieces": 3}], resend=None, chunked=chunked, compress=compress)
    for method in ("POST", "GET"):
        for chunked, compress in ((None, False), (True, False), (None, "deflate")):
            for b in second:
                if b in UNSIZED_KINDS:
                    continue
                yield dict(base, method=method, body={"kind": b, "size": 10, "pieces": 3}, mw=[], resend=1,
                           chunked=chunked, compress=compress)
                yield dict(base, method=method, body={"kind": "bytes", "size": 10, "pieces": 1},
                           mw=[{"kind": b, "size": 9, "pieces": 3}], resend=1, chunked=chunked, compress=compress)


FILE_SHARE = 0.09


def gen(rng, tier):
    r = rng.random()
    if r < FILE_SHARE:
        from props import _c04w3 as W3

        return W3.gen_file(rng)
    if r < FILE_SHARE + MW_SHARE:
        return gen_cli_mw(rng)
    r = (r - FILE_SHARE - MW_SHARE) / (1.0 - FILE_SHARE - MW_SHARE)  # the other kinds keep their proportions
    if r < 0.48:
        return gen_sw(rng)
    if r < 0.74:
        spec = gen_respspec(rng)
        scn = {"kind": "resp", "spec": spec, "policy": rng.choice(["whole", "mss", "small", "mixed"]), "lat": rng.choice([0, 0, 1])}
        scn.update(_gen_faults(rng, 4))
        if scn["kill"] is not None and "at_op" in scn["kill"]:
            scn["kill"] = {"at_ms": rng.choice([0, 1, 2, 6]), "kind": scn["kill"]["kind"]}
        if scn["hold"] is not None:
            scn["hold"]["at_op"] = 0
        return scn
    if r < 0.89:
        return gen_cli(rng)
    nreq = rng.randint(1, 3)
    scn = {"kind": "srv", "specs": [gen_respspec(rng) for _ in range(nreq)],
           "pol_c2s": rng.choice(["whole", "small", "mixed"]), "pol_s2c": rng.choice(["whole", "mss", "small", "mixed"]),
           "lat": rng.choice([0, 1, 2]),
           "rd_pause": rng.choice([None, None, [0, 5], [1, 50]]),
           "kill": rng.choice([None, None, None, {"at_ms": rng.choice([1, 3, 8]), "kind": rng.choice(["reset", "eof"])}])}
    for s in scn["specs"]:
        s["version"] = [1, 1]
        if s.get("body", {}).get("size", 0) > 70000:
            s["body"]["size"] = 65537
    return scn


def shrink(scn):
    k = scn["kind"]
    if k == "file":
        from props import _c04w3 as W3

        yield from W3.shrink_file(scn)
        return
    for f in ("cancel", "kill", "hold", "rd_pause"):
        if scn.get(f) is not None:
            yield dict(scn, **{f: None})
    if scn.get("highwater") is not None:
        yield dict(scn, highwater=None)
    for f in ("policy", "pol_c2s", "pol_s2c"):
        if scn.get(f) not in (None, "whole"):
            yield dict(scn, **{f: "whole"})
    if scn.get("lat"):
        yield dict(scn, lat=0)
    if k == "sw":
        ops = scn["ops"]
        for i in range(len(ops)):
            yield dict(scn, ops=ops[:i] + ops[i + 1:])
        for i, op in enumerate(ops):
            if op[1] > 1:
                for n in (op[1] // 2, 1):
                    yield dict(scn, ops=ops[:i] + [[op[0], n]] + ops[i + 1:])
        if scn["length"]:
            yield dict(scn, length=scn["length"] // 2)
        if scn["memview"]:
            yield dict(scn, memview=False)
        if scn["compress"]:
            yield dict(scn, compress=None)
    elif k in ("resp", "srv"):
        specs = [scn["spec"]] if k == "resp" else scn["specs"]

        def put(i, new):
            if k == "resp":
                return dict(scn, spec=new)
            return dict(scn, specs=specs[:i] + [new] + specs[i + 1:])
        if k == "srv" and len(specs) > 1:
            for i in range(len(specs)):
                yield dict(scn, specs=specs[:i] + specs[i + 1:])
        for i, sp in enumerate(specs):
            for key, simple in (("hval", "v"), ("reason", None), ("cookie", None), ("compress", None), ("accept_encoding", ""),
                                ("zlib_executor_size", None), ("chunked", False), ("status", 200), ("version", [1, 1])):
                if sp.get(key) != simple:
                    yield put(i, dict(sp, **{key: simple}))
            if "body" in sp:
                b = sp["body"]
                if b["size"] > 1:
                    yield put(i, dict(sp, body=dict(b, size=b["size"] // 2)))
                if b["pieces"] > 1:
                    yield put(i, dict(sp, body=dict(b, pieces=1)))
            if "ops" in sp:
                ops = sp["ops"]
                for j in range(len(ops)):
                    yield put(i, dict(sp, ops=ops[:j] + ops[j + 1:]))
                for j, op in enumerate(ops):
                    if op[1] > 1:
                        yield put(i, dict(sp, ops=ops[:j] + [[op[0], op[1] // 2]] + ops[j + 1:]))
                if sp.get("content_length"):
                    yield put(i, dict(sp, content_length=sp["content_length"] // 2))
    elif k == "cli":
        for key, simple in (("hval", "v"), ("compress", False), ("chunked", None), ("expect100", False), ("method", "POST")):
            if scn.get(key) != simple:
                yield dict(scn, **{key: simple})
        b = scn["body"]
        if b["size"] > 1:
            yield dict(scn, body=dict(b, size=b["size"] // 2))
        if b["pieces"] > 1:
            yield dict(scn, body=dict(b, pieces=1))
        ups = scn.get("mw")
        if scn.get("resend"):
            yield dict(scn, resend=None)
            if scn["resend"] > 1:
                yield dict(scn, resend=1)
        if ups:
            yield dict(scn, mw=None)
            if len(ups) > 1:
                for i in range(len(ups)):
                    yield dict(scn, mw=ups[:i] + ups[i + 1:])
            if b["kind"] not in ("none", "bytes"):
                yield dict(scn, body=dict(b, kind="bytes"))
                yield dict(scn, body=dict(b, kind="none"))
            for i, u in enumerate(ups):
                if u["size"] > 1:
                    yield dict(scn, mw=ups[:i] + [dict(u, size=u["size"] // 2)] + ups[i + 1:])
                if u["pieces"] > 1:
                    yield dict(scn, mw=ups[:i] + [dict(u, pieces=1)] + ups[i + 1:])


# ---------------------------------------------------------------------------
# shared helpers


class Recorder(asyncio.Protocol):
    def __init__(self):
        self.buf = bytearray()
        self.eof = False
        self.lost = None

    def connection_made(self, t):
        self.transport = t

    def data_received(self, d):
        self.buf += d

    def eof_received(self):
        self.eof = True
        return False

    def connection_lost(self, exc):
        self.lost = ("lost", type(exc).__name__ if exc else None)


class Viols:
    def __init__(self):
        self.items = []

    def add(self, inv, key, msg):
        if not any(v["invariant"] == inv and v["key"] == key for v in self.items):
            self.items.append({"invariant": inv, "key": key, "message": msg})


def _is_next_head(b: bytes) -> bool:
    """the bytes are (the beginning of) the next response's status line"""
    return b.startswith(b"HTTP/") or b"HTTP/".startswith(b[:5])


def refc_value(line: bytes) -> bytes:
    return line[line.find(b":") + 1:].strip(b" \t")


def wire_of(net, prefix):
    return b"".join([x[3] for x in net.wire if x[2] == "w" and x[1].startswith(prefix)])


def arm_faults(w, scn, tr, task_box, probes, hold_pipe=None):
    """Time/step indexed faults shared by all kinds.  Op-indexed ones are applied by the program itself."""
    loop, net = w.loop, w.net
    pipe = hold_pipe if hold_pipe is not None else tr.out
    hold = scn.get("hold")
    if hold is not None and "at_ms" in hold:
        def do_hold():
            net.hold(pipe)
            loop.faults["peer_stops_reading"] += 1
            if hold.get("release_ms") is not None:
                loop.sim_call_later(hold["release_ms"] * 0.001, net.release, pipe)
        loop.sim_call_later(hold["at_ms"] * 0.001, do_hold)
    kill = scn.get("kill")
    if kill is not None and "at_ms" in kill:
        def do_kill():
            if not tr._closed:
                loop.faults["kill_" + kill["kind"]] += 1
                probes["killed"] = 1
                net.kill(tr, kill["kind"])
        loop.sim_call_later(kill["at_ms"] * 0.001, do_kill)
    cancel = scn.get("cancel")
    if cancel is not None:
        def do_cancel():
            t = task_box.get("task")
            if t is not None and not t.done():
                loop.faults["cancel"] += 1
                probes["cancelled"] = 1
                if getattr(t, "_fut_waiter", None) is not None:
                    probes["cancel_while_blocked"] = 1
                t.cancel()
        if "at_step" in cancel:
            loop.at_step.setdefault(loop.steps + cancel["at_step"], []).append(do_cancel)
        else:
            loop.sim_call_later(cancel["at_ms"] * 0.001, do_cancel)


def op_faults(w, scn, tr, i, probes):
    """hold / kill placed before the i-th call of the program"""
    loop, net = w.loop, w.net
    hold = scn.get("hold")
    if hold is not None and hold.get("at_op") == i and not tr.out.held:
        net.hold(tr.out)
        loop.faults["peer_stops_reading"] += 1
        if hold.get("release_ms") is not None:
            loop.sim_call_later(hold["release_ms"] * 0.001, net.release, tr.out)
    kill = scn.get("kill")
    if kill is not None and kill.get("at_op") == i and not tr._closed:
        loop.faults["kill_" + kill["kind"]] += 1
        probes["killed"] = 1
        net.kill(tr, kill["kind"])


# ---------------------------------------------------------------------------
# kind sw


def judge_stream(V, *, head, mode, length, compress, wire, attempted, completed, eof_started, eof_done, eof_kind,
                 clean, must_have_head, marks, what="message"):
    """The bytes handed to the transport for one message against the calls made.

    attempted / completed: concatenation of the data of all calls started / returned.
    clean: no reset, eof or cancel was injected (then completeness is demanded)."""
    if not wire:
        if must_have_head:
            V.add("head_written", "nothing_written", f"calls that must emit the head completed but nothing reached the transport ({what})")
        return {}
    if not wire.startswith(head):
        V.add("head_exact", "head_differs", f"{what} starts with {wire[:200]!r}, supplied head is {head[:200]!r}")
        return {}
    rest = wire[len(head):]
    info = {"terminated": None}
    if mode == "chunked":
        r = refc.dechunk(rest)
        if r["error"] is not None:
            V.add("chunk_syntax", r["error"][1], f"chunked body malformed at offset {r['error'][0]} ({r['error'][1]}): "
                  f"{rest[max(0, r['error'][0] - 20):r['error'][0] + 40]!r}")
            return info
        payload = r["data"]
        info["terminated"] = r["complete"]
        if r["complete"] and r["end"] != len(rest):
            after = rest[r["end"]:]
            more = refc.dechunk(after)
            cls = "terminator_before_more_chunks" if (more["error"] is None and (more["sizes"] or more["complete"])) else "bytes_after_terminator"
            V.add("terminator_only_at_end", cls, f"last-chunk at offset {r['end'] - 5} of the body is followed by {len(after)} "
                  f"more bytes: {after[:60]!r}; chunk sizes so far {r['sizes'][:8]}")
            return info
        if r["tail"] not in ("",) and clean:
            V.add("chunk_syntax", "truncated_chunk", f"chunked body handed to the transport ends inside a chunk ({r['tail']})")
            return info
    else:
        payload = rest
    if mode == "length" and len(payload) > length:
        # which call pushed the body over the declared length
        over = "?"
        for kind_, wire_len in marks:
            if wire_len - len(head) > length:
                over = kind_
                break
        V.add("body_within_declared_length", "beyond_declared_length:" + over,
              f"declared length {length}, {len(payload)} body bytes handed to the transport (first excess call: {over})")
        return info
    A = attempted if length is None else attempted[:length]
    C = completed if length is None else completed[:length]
    if compress:
        data, finished, unused, err = refc.decode_content(compress, payload)
        if err is not None:
            V.add("compressed_stream", "corrupt", f"{compress} stream on the wire does not decode: {err}")
            return info
        if unused:
            V.add("compressed_stream", "bytes_after_stream_end", f"{len(unused)} bytes follow the end of the {compress} stream")
            return info
        info["finished"] = finished
    else:
        data, finished = payload, None
    if not A.startswith(data):
        k = next((i for i in range(min(len(A), len(data))) if A[i] != data[i]), min(len(A), len(data)))
        V.add("body_is_written_data", "differs" if len(data) <= len(A) else "longer_than_written",
              f"decoded body ({len(data)} bytes) is not a prefix of the data written ({len(A)} bytes); first difference at {k}: "
              f"wire {data[k:k + 24]!r} written {A[k:k + 24]!r}")
        return info
    if not compress and not data.startswith(C):
        V.add("completed_writes_reach_transport", "missing_data",
              f"calls that returned normally wrote {len(C)} bytes but only {len(data)} are in what was handed to the transport")
        return info
    if info["terminated"]:
        if not eof_started:
            V.add("terminator_only_at_end", "terminator_without_eof_call", "last-chunk emitted but neither write_eof nor set_eof was called")
        elif data != A and not (compress and eof_kind == "set_eof"):
            V.add("terminator_only_at_end", "terminator_before_all_data",
                  f"last-chunk emitted after {len(data)} of {len(A)} bytes written")
        elif compress and finished is False and eof_kind == "write_eof":
            V.add("compressed_stream", "terminated_unfinished", f"chunked body terminated but the {compress} stream is not finished")
    if eof_done and clean:
        if mode == "chunked" and not info["terminated"]:
            V.add("complete_after_eof", "no_terminator", "write_eof/set_eof returned but the chunked body has no last-chunk")
        if data != A and not (compress and eof_kind == "set_eof"):
            V.add("complete_after_eof", "data_missing", f"write_eof returned; {len(data)} of {len(A)} bytes written are on the wire")
        if compress and finished is False and eof_kind == "write_eof":
            V.add("compressed_stream", "unfinished_after_eof", f"write_eof returned but the {compress} stream is not finished")
    info["data_len"] = len(data)
    return info


def run_sw(scn, ch, log):
    from aiohttp.base_protocol import BaseProtocol
    from aiohttp.http_writer import StreamWriter
    from multidict import CIMultiDict

    V = Viols()
    probes = {}
    with World(ch, 0, log_events=log) as w:
        loop, net = w.loop, w.net
        net.max_latency_ticks = scn["lat"]
        net.default_policy = scn["policy"]
        net.wire = []
        proto = BaseProtocol(loop)
        rec = Recorder()
        tr, _peer = net.attach_pair(proto, rec)
        if scn["highwater"] is not None:
            tr.set_write_buffer_limits(high=scn["highwater"])
        sw = StreamWriter(proto, loop)
        mode = scn["mode"]
        hdrs = [("Host", "h.test"), (scn["hname"], scn["hval"])]
        if mode == "chunked":
            sw.enable_chunking()
            hdrs.append(("Transfer-Encoding", "chunked"))
        elif mode == "length":
            sw.length = scn["length"]
            hdrs.append(("Content-Length", str(scn["length"])))
        if scn["compress"]:
            sw.enable_compression(scn["compress"])
            hdrs.append(("Content-Encoding", scn["compress"]))
        start_line = "POST /p HTTP/1.1"
        head = refc.serialize_head(start_line, hdrs)
        st = {"attempted": bytearray(), "completed": bytearray(), "eof_started": False, "eof_done": False, "eof_kind": None,
              "pos": 0, "done_ops": 0, "must_head": False, "marks": [], "error": None, "blocked": 0}

        def take(n):
            d = CONTENT[st["pos"]:st["pos"] + n]
            st["pos"] += n
            return d

        def mark(kind):
            st["marks"].append((kind, sum(len(x[3]) for x in net.wire if x[2] == "w" and x[1] == tr.name)))

        async def one_op(op, n):
            if op == "send_headers":
                sw.send_headers()
                st["must_head"] = True
            elif op == "drain":
                await sw.drain()
            elif op == "write":
                d = take(n)
                st["attempted"] += d
                await sw.write(memoryview(d) if scn["memview"] else d)
                st["completed"] += d
                if d and not scn["compress"] and not (mode == "length" and len(st["completed"]) - len(d) >= scn["length"]):
                    st["must_head"] = True
            elif op == "write_eof":
                d = take(n)
                already = st["eof_done"]
                if not already:
                    st["attempted"] += d
                    st["eof_started"] = True
                    st["eof_kind"] = st["eof_kind"] or "write_eof"
                await sw.write_eof(d)
                if not already:
                    st["completed"] += d
                    st["eof_done"] = True
                    st["must_head"] = True
            elif op == "set_eof":
                if not st["eof_done"]:
                    st["eof_started"] = True
                    st["eof_kind"] = st["eof_kind"] or "set_eof"
                sw.set_eof()
                st["eof_done"] = True
                st["must_head"] = True

        async def prog():
            await sw.write_headers(start_line, CIMultiDict(hdrs))
            for i, (op, n) in enumerate(scn["ops"]):
                op_faults(w, scn, tr, i, probes)
                loop.note("op", f"{op}:{n}")
                st["cur_op"] = op
                try:
                    await one_op(op, n)
                finally:
                    mark(op)
                st["done_ops"] += 1
            op_faults(w, scn, tr, len(scn["ops"]), probes)

        box = {}
        task = loop.create_task(prog(), name="writer")
        box["task"] = task
        arm_faults(w, scn, tr, box, probes)

        def count_block():
            if not task.done() and getattr(task, "_fut_waiter", None) is not None:
                st["blocked"] += 1
        loop.step_hooks.append(count_block)
        loop.run_sim(task, vt_cap=loop.time() + 30.0, step_cap=loop.steps + 200_000)
        loop.step_hooks.remove(count_block)
        exc = None
        if task.done() and not task.cancelled():
            exc = task.exception()
        killed = bool(probes.get("killed"))
        cancelled = bool(probes.get("cancelled"))
        blocked_forever = not task.done()
        if exc is not None:
            from aiohttp.client_exceptions import ClientConnectionResetError

            if killed and isinstance(exc, (ClientConnectionResetError, ConnectionError)):
                probes["write_after_close_raised"] = 1
            else:
                V.add("no_unexpected_error", f"{type(exc).__name__}", f"program raised {exc!r} after {st['done_ops']} calls "
                      f"(killed={killed}) ops={scn['ops']}")
        if blocked_forever:
            probes["blocked_at_quiescence"] = 1
            if not (tr.out.held or killed):
                V.add("drain_returns", "blocked_without_backpressure",
                      f"writer task still blocked at quiescence though the peer is reading (paused={proto._paused})")
        wire = wire_of(net, tr.name)
        clean = not killed and not cancelled and not blocked_forever and exc is None
        judge_stream(V, head=head, mode=mode, length=scn["length"], compress=scn["compress"], wire=wire,
                     attempted=bytes(st["attempted"]), completed=bytes(st["completed"]), eof_started=st["eof_started"],
                     eof_done=st["eof_done"], eof_kind=st["eof_kind"], clean=clean, must_have_head=st["must_head"] and not killed,
                     marks=st["marks"] + [(st.get("cur_op", "?"), len(wire))])
        if not wire.startswith(bytes(rec.buf)):
            raise RuntimeError("harness: delivered bytes are not a prefix of the written bytes")
        if loop.exc_contexts:
            c = loop.exc_contexts[0]
            V.add("loop_exception", f"{c['exc_type']}@{c.get('frame')}", f"exception reached the event loop: {c['message']} {c['exc']}")
        sst = w.stats()
        f = sst["faults"]
        if f.get("pause_writing"):
            probes["writer_paused"] = 1
        if st["blocked"]:
            probes["task_blocked"] = 1
        if f.get("exec_early") or f.get("exec_late"):
            probes["compress_in_executor"] = 1
        if any(o == ["write", 0] for o in scn["ops"]):
            probes["empty_write"] = 1
        probes["mode_" + mode + ("_" + scn["compress"] if scn["compress"] else "")] = 1
        nbody = sum(1 for o in scn["ops"] if o[0] in ("write", "write_eof", "set_eof"))
        nontrivial = bool(f.get("pause_writing") or killed or cancelled or f.get("exec_early") or f.get("exec_late") or nbody >= 3)
        res = {"violations": V.items, "nontrivial": nontrivial, "sig": sst["sig"], "digest": sst["digest"], "steps": sst["steps"],
               "vtime": sst["vtime"], "faults": f, "probes": probes,
               "shape": f"sw-{mode}-{scn['compress'] or 'id'}-{len(scn['ops'])}ops"}
        if log:
            res["event_log"] = loop.event_log
            res["debug"] = {"wire": wire[:600]}
        return res


# ---------------------------------------------------------------------------
# bodies (shared by resp / srv / cli)


def _tmpfile(data: bytes):
    f = tempfile.TemporaryFile("w+b")
    f.write(data)
    f.flush()
    f.seek(0)
    return f


def make_body(b, files: list):
    """-> (object to hand to aiohttp, expected bytes or ("multipart", boundary, [part contents]), tag)"""
    from aiohttp import FormData, MultipartWriter, payload

    kind, n = b["kind"], b["size"]
    data = CONTENT[1000:1000 + n]
    text = TEXT[:n]
    if kind == "none":
        return None, b"", kind
    if kind == "bytes":
        return data, data, kind
    if kind == "bytearray":
        return bytearray(data), data, kind
    if kind == "text":
        return text, text.encode("utf-8"), kind
    if kind == "bytespayload":
        return payload.BytesPayload(data), data, kind
    if kind == "stringpayload":
        return payload.StringPayload(text), text.encode("utf-8"), kind
    if kind == "json":
        import json as _json

        obj = {"t": text, "n": n}
        return payload.JsonPayload(obj), _json.dumps(obj).encode("utf-8"), kind
    if kind == "bytesio":
        return io.BytesIO(data), data, kind
    if kind == "stringio":
        return io.StringIO(text), text.encode("utf-8"), kind
    if kind == "file":
        f = _tmpfile(data)
        files.append(f)
        return f, data, kind
    if kind in ("textfile", "textfile_crlf", "textfile_latin1"):
        if kind == "textfile_crlf":
            text = text.replace("}", "\r\n")
            if n and "\r\n" not in text:
                text = text[:-1] + "\r\n" if len(text) > 1 else "\r\n"
        enc = "latin-1" if kind == "textfile_latin1" else "utf-8"
        raw = text.encode(enc)
        f = _tmpfile(raw)
        t = io.TextIOWrapper(f, encoding=enc)
        files.append(t)
        # what the application supplied is the *text* of the file; it goes out in the payload's
        # encoding (utf-8 by default).  Universal-newline translation is part of reading text.
        supplied = text.replace("\r\n", "\n").encode("utf-8")
        return t, supplied, kind
    if kind == "aiter":
        k = max(1, b["pieces"])
        step = max(1, (n + k - 1) // k)
        pieces = [data[i:i + step] for i in range(0, n, step)] or [b""]

        async def agen():
            for p in pieces:
                yield p
        return agen(), data, kind
    if kind in ("multipart", "multipart_nosize", "multipart_file"):
        mw = MultipartWriter("mixed", boundary="BOUND")
        k = max(1, b["pieces"])
        step = max(1, (n + k - 1) // k)
        contents = []
        for i in range(k):
            p = data[i * step:(i + 1) * step]
            contents.append(p)
            if kind == "multipart_nosize" and i == 0:
                async def agen(p=p):
                    yield p
                mw.append_payload(payload.AsyncIterablePayload(agen()))
            elif kind == "multipart_file" and i == 0:
                f = _tmpfile(p)
                files.append(f)
                mw.append(f)
            else:
                mw.append(p, {"X-Part": str(i)})
        return mw, ("multipart", b"BOUND", contents), kind
    if kind == "formdata":
        fd = FormData(boundary="BOUND")
        k = max(1, b["pieces"])
        step = max(1, (n + k - 1) // k)
        contents = []
        for i in range(k):
            p = data[i * step:(i + 1) * step]
            contents.append(p)
            fd.add_field("f%d" % i, p, filename="x%d.bin" % i)
        return fd, ("multipart", b"BOUND", contents), kind
    raise AssertionError(kind)


def close_files(files):
    for f in files:
        try:
            f.close()
        except Exception:
            pass


def check_body(V, got: bytes, expected, *, complete: bool, tag: str, what: str):
    """decoded body against what the application supplied"""
    if isinstance(expected, tuple):
        _m, boundary, contents = expected
        if not complete:
            return
        parts, err = refc.split_multipart(got, boundary)
        if err is not None:
            V.add("body_is_supplied_data", f"multipart_split:{err[1]}:{tag}", f"{what}: multipart body does not split: {err} {got[:200]!r}")
            return
        if [p["content"] for p in parts] != contents:
            V.add("body_is_supplied_data", f"multipart_contents:{tag}",
                  f"{what}: part contents differ: {[len(p['content']) for p in parts]} vs supplied {[len(c) for c in contents]}")
        return
    if complete:
        if got != expected:
            k = next((i for i in range(min(len(got), len(expected))) if got[i] != expected[i]), min(len(got), len(expected)))
            cls = "truncated" if expected.startswith(got) else ("longer" if got.startswith(expected) else "differs")
            V.add("body_is_supplied_data", f"{cls}:{tag}", f"{what}: body carries {len(got)} bytes, supplied {len(expected)}; first "
                  f"difference at {k}: wire {got[k:k + 24]!r} supplied {expected[k:k + 24]!r}")
    elif not expected.startswith(got):
        V.add("body_is_supplied_data", f"prefix_differs:{tag}", f"{what}: partial body ({len(got)} bytes) is not a prefix of the supplied data")


# ---------------------------------------------------------------------------
# responses (kind resp and the handler of kind srv)


def build_response(spec, files):
    """-> (response, expected, tag, declared_by) ; may raise (refusal at construction)"""
    from aiohttp import web

    hdrs = {"X-Tag": spec["hval"]}
    if spec["cls"] == "Response":
        obj, expected, tag = make_body(spec["body"], files)
        if spec["body"]["kind"] == "formdata":
            obj = obj()
        kw = {}
        if spec.get("zlib_executor_size") is not None:
            kw["zlib_executor_size"] = spec["zlib_executor_size"]
        if isinstance(obj, str):
            resp = web.Response(text=obj, status=spec["status"], reason=spec["reason"], headers=hdrs, **kw)
        else:
            resp = web.Response(body=obj, status=spec["status"], reason=spec["reason"], headers=hdrs, **kw)
        declared_by = "aiohttp"
    else:
        resp = web.StreamResponse(status=spec["status"], reason=spec["reason"], headers=hdrs)
        expected, tag = None, "stream"
        declared_by = "app"
        if spec.get("content_length") is not None:
            resp.content_length = spec["content_length"]
    if spec["chunked"]:
        resp.enable_chunked_encoding()
    c = spec["compress"]
    if c == "auto":
        resp.enable_compression()
    elif c in ("gzip", "deflate"):
        resp.enable_compression(web.ContentCoding(c))
    if spec.get("cookie"):
        resp.set_cookie(spec["cookie"][0], spec["cookie"][1])
    return resp, expected, tag, declared_by


async def send_response(resp, spec, request, st):
    """prepare + body calls; st records what was written (StreamResponse)"""
    await resp.prepare(request)
    st["prepared"] = True
    if spec["cls"] == "Response":
        await resp.write_eof()
        st["eof_done"] = True
        return
    for op, n in spec["ops"]:
        d = CONTENT[5000 + st["pos"]:5000 + st["pos"] + n]
        st["pos"] += n
        st["last_op"] = op
        if op == "write":
            st["attempted"] += d
            await resp.write(d)
            st["completed"] += d
        else:
            st["attempted"] += d
            st["eof_started"] = True
            await resp.write_eof(d)
            st["completed"] += d
            st["eof_done"] = True


def judge_response(V, r, rest_bytes: bytes, spec, expected, tag, declared_by, st, *, clean: bool, what: str):
    """One response as cut by the strict splitter (r) against its spec.  rest_bytes: bytes that follow r in the
    stream and are not (yet) attributed to a following response."""
    bodyless = spec["method"] == "HEAD" or spec["status"] in (204, 304) or spec["status"] < 200
    low = [(a.lower(), b) for a, b in r["headers"]]
    cl = [b for a, b in low if a == b"content-length"]
    ce = [b for a, b in low if a == b"content-encoding"]
    cls = spec["cls"]
    if bodyless:
        if rest_bytes and not _is_next_head(rest_bytes):
            why = "HEAD" if spec["method"] == "HEAD" else str(spec["status"])
            if st.get("attempted"):
                # the application's own body bytes went out (known from C05 as C05-F3)
                via = "app_data:" + cls + "." + st.get("last_op", "write")
            elif ce:
                # nothing was written by the application: aiohttp emitted the (empty) compressed stream itself
                via = "compressor_flush:" + cls
            else:
                via = "other:" + cls + ":" + str(tag)
            V.add("no_body_for_bodyless_response", f"body_bytes_for_bodyless_response:{why}:{via}",
                  f"{what}: response to {spec['method']} with status {spec['status']} must not carry a body but {len(rest_bytes)} "
                  f"bytes follow its head: {rest_bytes[:60]!r}")
        return
    if expected is None:
        # StreamResponse: what the handler wrote
        exp_all = bytes(st["attempted"])
        if cl and not ce:
            # the length the application declared is on the wire (compression removes it): data beyond it is cut
            exp_all = exp_all[:int(cl[0])]
    else:
        exp_all = expected
    body = r["body"]
    complete = r["complete"] and (r["framing"] != "eof" or clean)
    if r["framing"] == "length" and cl:
        declared = int(cl[0])
        if rest_bytes and not _is_next_head(rest_bytes):
            joined = body + rest_bytes
            p = joined.find(b"HTTP/1.")
            if 0 <= p < len(body):
                # the next response starts *inside* the declared length: this body was short
                if declared_by == "aiohttp":
                    V.add("declared_length_is_carried", f"short_body:{tag}",
                          f"{what}: aiohttp declared Content-Length {declared} for a {tag} body but wrote {p} bytes; the next "
                          f"response's first {len(body) - p} bytes are read as body by the recipient")
                # declared by the application and not fulfilled by it: outside the statement
                return "underrun"
            via = (cls + "." + st.get("last_op", "?")) if cls == "StreamResponse" else cls + ":" + tag
            V.add("body_within_declared_length", f"beyond_declared_length:{via}",
                  f"{what}: Content-Length {declared} but {len(rest_bytes)} more body bytes follow: {rest_bytes[:40]!r}")
            return
        if clean and st.get("eof_done") and len(body) < declared and declared_by == "aiohttp":
            V.add("declared_length_is_carried", f"short_body:{tag}",
                  f"{what}: aiohttp declared Content-Length {declared} for a {tag} body but wrote {len(body)} bytes")
            return
        if not r["complete"]:
            complete = False
    if ce:
        coding = ce[0].decode("latin-1")
        data, finished, unused, err = refc.decode_content(coding, body)
        if err is not None:
            V.add("compressed_stream", "corrupt:" + tag, f"{what}: {coding} body does not decode: {err}")
            return
        if unused:
            V.add("compressed_stream", "bytes_after_stream_end:" + tag, f"{what}: {len(unused)} bytes follow the end of the {coding} stream")
            return
        if not body and not finished:
            finished = True  # zero-length body under a Content-Encoding: the encoding of nothing
        if complete and clean and st.get("eof_done") and not finished:
            V.add("compressed_stream", "unfinished_after_eof:" + tag, f"{what}: response complete but the {coding} stream is not finished")
            return
        complete = complete and finished
    else:
        data = body
    check_body(V, data, exp_all, complete=bool(complete and clean and st.get("eof_done")), tag=tag, what=what)


def expected_head_checks(V, r, spec, what):
    """the supplied header and reason are on the wire exactly (or the response was refused)"""
    tagv = [b for a, b in r["headers"] if a.lower() == b"x-tag"]
    if len(tagv) != 1 or tagv[0] != spec["hval"].encode("utf-8", "surrogatepass").strip(b" \t"):
        V.add("field_line_exact", "x_tag_differs", f"{what}: supplied X-Tag {spec['hval']!r}, on the wire {tagv!r}")
    if spec["reason"] is not None and r["reason"] != spec["reason"].encode("utf-8", "surrogatepass"):
        V.add("start_line_exact", "reason_differs", f"{what}: supplied reason {spec['reason']!r}, on the wire {r['reason']!r}")


def run_resp(scn, ch, log):
    from aiohttp.base_protocol import BaseProtocol
    from aiohttp.http_parser import RawRequestMessage
    from aiohttp.http_writer import HttpVersion, StreamWriter
    from aiohttp.streams import EMPTY_PAYLOAD
    from aiohttp.web_request import BaseRequest
    from multidict import CIMultiDict, CIMultiDictProxy
    from yarl import URL

    V = Viols()
    probes = {}
    spec = scn["spec"]
    files = []
    with World(ch, 0, log_events=log) as w:
        loop, net = w.loop, w.net
        net.max_latency_ticks = scn["lat"]
        net.default_policy = scn["policy"]
        net.wire = []

        class _Proto(BaseProtocol):
            __slots__ = ()
            ssl_context = None
            peername = None
            sockname = None

        proto = _Proto(loop)
        rec = Recorder()
        tr, _peer = net.attach_pair(proto, rec)
        if scn["highwater"] is not None:
            tr.set_write_buffer_limits(high=scn["highwater"])
        ver = HttpVersion(*spec["version"])
        rh = {"Host": "h.test"}
        if spec["accept_encoding"]:
            rh["Accept-Encoding"] = spec["accept_encoding"]
        h = CIMultiDictProxy(CIMultiDict(rh))
        raw = tuple((k.encode(), v.encode()) for k, v in rh.items())
        msg = RawRequestMessage(spec["method"], "/", ver, h, raw, spec["version"] == [1, 0], None, False, False, URL("/"))
        sw = StreamWriter(proto, loop)
        req = BaseRequest(msg, EMPTY_PAYLOAD, proto, sw, None, loop)
        st = {"attempted": bytearray(), "completed": bytearray(), "pos": 0, "eof_done": False, "eof_started": False,
              "prepared": False, "blocked": 0}
        info = {}

        async def prog():
            op_faults(w, scn, tr, 0, probes)
            resp, expected, tag, declared_by = build_response(spec, files)
            info.update(expected=expected, tag=tag, declared_by=declared_by)
            await send_response(resp, spec, req, st)

        box = {}
        task = loop.create_task(prog(), name="writer")
        box["task"] = task
        arm_faults(w, scn, tr, box, probes)

        def count_block():
            if not task.done() and getattr(task, "_fut_waiter", None) is not None:
                st["blocked"] += 1
        loop.step_hooks.append(count_block)
        loop.run_sim(task, vt_cap=loop.time() + 30.0, step_cap=loop.steps + 200_000)
        loop.step_hooks.remove(count_block)
        exc = task.exception() if task.done() and not task.cancelled() else None
        killed = bool(probes.get("killed"))
        cancelled = bool(probes.get("cancelled"))
        blocked_forever = not task.done()
        wire = wire_of(net, tr.name)
        what = f"{spec['cls']}({info.get('tag')}) {spec['method']} HTTP/{spec['version'][0]}.{spec['version'][1]} status {spec['status']}"
        refused = False
        if exc is not None:
            if not wire and not st["prepared"]:
                refused = True
                probes["refused_" + type(exc).__name__] = 1
            elif killed and isinstance(exc, ConnectionError):
                probes["write_after_close_raised"] = 1
            elif isinstance(exc, (ValueError, AssertionError)) and wire:
                V.add("refused_before_any_byte", f"bytes_written_then_raised:{type(exc).__name__}:{info.get('tag')}",
                      f"{what}: raised {exc!r} after {len(wire)} bytes had been handed to the transport")
            else:
                V.add("no_unexpected_error", f"{type(exc).__name__}:{info.get('tag')}", f"{what}: raised {exc!r}; wire {wire[:120]!r}")
        if blocked_forever:
            probes["blocked_at_quiescence"] = 1
            if not (tr.out.held or killed):
                V.add("drain_returns", "blocked_without_backpressure", f"{what}: writer blocked at quiescence though the peer is reading")
        clean = not killed and not cancelled and not blocked_forever and exc is None
        if wire and not refused:
            resps, rest = http1.split_responses(wire, methods=[spec["method"].encode()], closed=clean and spec["version"] == [1, 0])
            if isinstance(rest, tuple) and rest[0] == "malformed" and not resps:
                V.add("well_formed_head", "malformed", f"{what}: {rest}; wire {wire[:200]!r}")
            elif resps:
                r = resps[0]
                tail = wire[r["end"]:] if r["complete"] and r["framing"] != "eof" else b""
                if r["framing"] == "chunked" and isinstance(rest, tuple) and rest[0] == "malformed" and len(resps) == 1 and not r["complete"]:
                    V.add("chunk_syntax", "malformed", f"{what}: {rest}")
                else:
                    expected_head_checks(V, r, spec, what)
                    judge_response(V, r, tail, spec, info.get("expected"), info.get("tag"), info.get("declared_by"), st,
                                   clean=clean, what=what)
                    if clean and st["eof_done"] and not r["complete"] and r["framing"] != "eof" and not V.items \
                            and not (r["framing"] == "length" and info.get("declared_by") == "app"):
                        V.add("complete_after_eof", f"incomplete:{r['framing']}:{info.get('tag')}",
                              f"{what}: write_eof returned but the response on the wire is incomplete ({r['framing']})")
            elif clean and st["eof_done"]:
                V.add("complete_after_eof", "no_head", f"{what}: write_eof returned but no complete head is on the wire: {wire[:120]!r}")
        if not wire.startswith(bytes(rec.buf)):
            raise RuntimeError("harness: delivered bytes are not a prefix of the written bytes")
        # let file-closing executor jobs run
        loop.run_sim(None, vt_cap=loop.time() + 1.0, step_cap=loop.steps + 10_000)
        close_files(files)
        if loop.exc_contexts:
            c = loop.exc_contexts[0]
            V.add("loop_exception", f"{c['exc_type']}@{c.get('frame')}", f"exception reached the event loop: {c['message']} {c['exc']}")
        sst = w.stats()
        f = sst["faults"]
        if f.get("pause_writing"):
            probes["writer_paused"] = 1
        if st["blocked"]:
            probes["task_blocked"] = 1
        if f.get("exec_early") or f.get("exec_late"):
            probes["executor_job"] = 1
        probes["resp_" + (info.get("tag") or "refused_early")] = 1
        nontrivial = bool(f.get("pause_writing") or killed or cancelled or f.get("exec_early") or f.get("exec_late"))
        res = {"violations": V.items, "nontrivial": nontrivial, "sig": sst["sig"], "digest": sst["digest"], "steps": sst["steps"],
               "vtime": sst["vtime"], "faults": f, "probes": probes, "shape": f"resp-{spec['cls']}-{info.get('tag')}-{spec['method']}"}
        if log:
            res["event_log"] = loop.event_log
            res["debug"] = {"wire": wire[:600], "exc": repr(exc)}
        return res


# ---------------------------------------------------------------------------
# kind cli: real ClientSession, recording raw server


class _RecServer(asyncio.Protocol):
    """Recording raw server: answers a complete request with an empty 200, sends
    100 Continue when asked to."""

    def __init__(self):
        self.buf = bytearray()
        self.sent100 = False

    def connection_made(self, t):
        self.transport = t

    def data_received(self, d):
        from sim.peers import parse_simple_request

        self.buf += d
        if not self.sent100 and b"\r\n\r\n" in self.buf and b"100-continue" in bytes(self.buf[:self.buf.find(b"\r\n\r\n")]).lower():
            self.sent100 = True
            self.transport.write(b"HTTP/1.1 100 Continue\r\n\r\n")
        while True:
            try:
                r = parse_simple_request(self.buf)
            except Exception:
                r = None
            if r is None:
                break
            del self.buf[:r[1]]
            self.sent100 = False
            self.transport.write(b"HTTP/1.1 200 OK\r\nContent-Length: 0\r\n\r\n")

    def eof_received(self):
        return False

    def connection_lost(self, exc):
        pass


def run_cli(scn, ch, log):
    import aiohttp
    from sim.net import SimResolver

    V = Viols()
    probes = {}
    files = []
    with World(ch, 0, log_events=log) as w:
        loop, net = w.loop, w.net
        net.max_latency_ticks = scn["lat"]
        net.default_policy = scn["policy"]
        net.wire = []
        net.listen(_RecServer, "10.0.0.1", 80)
        net.dns["h.test"] = ["10.0.0.1"]
        trs = {"all": []}

        def on_connect(ctr, str_):
            trs["c"], trs["s"] = ctr, str_
            trs["all"].append(ctr)
            if scn["highwater"] is not None:
                ctr.set_write_buffer_limits(high=scn["highwater"])
            arm_faults(w, scn, ctr, box, probes)
        net.on_connect = on_connect
        info = {"status": None, "sends": 0}
        box = {}

        ups = scn.get("mw") or []
        resend = scn.get("resend") or 0

        def sizedness(t):
            return "none" if t == "none" else ("unsized" if t in UNSIZED_KINDS else "sized")

        async def middleware(req, handler):
            # a client middleware that replaces the body (a signing / encrypting / re-encoding middleware does this)
            # and / or sends the request again (the retry middleware of the documentation: handler(req) in a loop).
            # (it runs again, with fresh body objects, when the session itself sends the request a second time)
            chain = [info["chain"][0]]
            for b in ups:
                nobj, nexp, ntag = make_body(b, files)
                loop.note("update_body", ntag)
                await req.update_body(nobj)
                chain.append(ntag)
                info.update(expected=nexp, tag=ntag, chain=chain)
                probes["update_body_" + sizedness(chain[-2]) + ">" + sizedness(ntag)] = 1
            info["sends"] += 1
            resp = await handler(req)
            for _ in range(resend):
                resp.release()
                loop.note("resend", info["tag"])
                info["sends"] += 1
                probes["resent_by_middleware"] = 1
                resp = await handler(req)
            return resp

        async def prog():
            obj, expected, tag = make_body(scn["body"], files)
            info.update(expected=expected, tag=tag, chain=[tag])
            conn = aiohttp.TCPConnector(resolver=SimResolver(net))
            skw = {"middlewares": (middleware,)} if (ups or resend) else {}
            async with aiohttp.ClientSession(connector=conn, timeout=aiohttp.ClientTimeout(total=20), **skw) as s:
                kw = {}
                if scn["chunked"]:
                    kw["chunked"] = True
                if scn["compress"]:
                    kw["compress"] = scn["compress"]
                if scn["expect100"]:
                    kw["expect100"] = True
                info["sent"] = True
                async with s.request(scn["method"], "http://h.test/p", data=obj, headers={"X-Tag": scn["hval"]}, **kw) as r:
                    info["status"] = r.status

        task = loop.create_task(prog(), name="client")
        box["task"] = task
        loop.run_sim(task, vt_cap=loop.time() + 60.0, step_cap=loop.steps + 400_000)
        exc = task.exception() if task.done() and not task.cancelled() else None
        killed = bool(probes.get("killed"))
        cancelled = bool(probes.get("cancelled"))
        blocked_forever = not task.done()
        ctr = trs.get("c")
        wire = wire_of(net, ctr.name) if ctr is not None else b""
        what = f"client {scn['method']} body={info.get('tag')} chunked={scn['chunked']} compress={scn['compress']}"
        via = ""
        if ups and len(info.get("chain", ())) > 1:
            # the body on the wire was put in place by ClientRequest.update_body(): part of the class of the failure
            chain = info["chain"]
            what += " body swapped by a middleware through update_body(): " + " -> ".join(chain)
            via = f":update_body({scn['method']}):" + ">".join(sizedness(t) for t in chain)
        if resend:
            what += f" sent {info['sends']}x by a retry middleware (handler(req) called again with the same request)"
        stalled = False
        deferred_exc = None
        if exc is not None:
            if not wire:
                probes["refused_" + type(exc).__name__] = 1
            elif killed:
                probes["error_after_kill"] = 1
            elif isinstance(exc, asyncio.TimeoutError) and ctr is not None and ctr.out.held:
                probes["timeout_under_backpressure"] = 1
            elif isinstance(exc, asyncio.TimeoutError):
                stalled = True  # nobody interfered and the server is reading: judged below from the wire
            elif resend and isinstance(exc, aiohttp.ClientResponseError):
                # a complaint about the *answer*: when an earlier send left stray bytes on the connection the recording
                # server answers them too.  Judged from the wire first; reported if the wire explains nothing
                deferred_exc = exc
            else:
                V.add("no_unexpected_error", f"{type(exc).__name__}:{info.get('tag')}", f"{what}: raised {exc!r}; wire head {wire[:160]!r}")
        clean = not killed and not cancelled and not blocked_forever and exc is None
        # one call, one request - unless a middleware sent it again: then every connection used is judged, and each of the
        # requests must be the one well-formed message carrying the supplied body
        allowed = max(1, info["sends"]) if resend else 1
        judged = [(c is ctr, wire_of(net, c.name)) for c in trs["all"]] if resend else [(True, wire)]
        total_msgs = 0
        for is_last, wire_ in judged:
            if not wire_:
                continue
            msgs, verdict = http1.parse_requests(wire_)
            total_msgs += len(msgs)
            tailw = wire_[msgs[-1]["end"]:] if msgs else wire_  # the request being written when the run ended
            stalled_ = stalled and is_last
            if verdict[0] == "REJECT" and msgs:
                after = tailw
                V.add("one_well_formed_request", f"bytes_after_complete_request:{info.get('tag')}:chunked={scn['chunked']}{via}",
                      f"{what}: the head declares {[(a, b) for a, b in msgs[-1]['headers'] if a.lower() in (b'content-length', b'transfer-encoding')]} "
                      f"so the request ends after its head/body, but {len(after)} more bytes were written: {after[:60]!r}")
            elif verdict[0] == "REJECT":
                V.add("one_well_formed_request", f"framer:{verdict[2]}:{info.get('tag')}{via}",
                      f"{what}: strict framer rejects the bytes written at offset {verdict[1]} ({verdict[2]}): "
                      f"{wire_[max(0, verdict[1] - 30):verdict[1] + 80]!r}")
            elif len(msgs) > allowed or total_msgs > allowed:
                V.add("one_well_formed_request", f"second_message:{info.get('tag')}",
                      f"{what}: {total_msgs} requests on the wire for {'one call' if not resend else str(allowed) + ' sends'}")
            elif stalled_ and verdict[0] == "INCOMPLETE" and b"\r\n\r\n" in tailw:
                hd, off = refc.head_lines(tailw)
                cl = [refc_value(ln) for ln in (hd or []) if ln.lower().startswith(b"content-length:")]
                if cl:
                    V.add("declared_length_is_carried", f"short_body:{info.get('tag')}",
                          f"{what}: aiohttp declared Content-Length {cl[0].decode()} for a {info.get('tag')} body but wrote "
                          f"{len(tailw) - off} bytes; the server waits for the rest and the call times out")
                else:
                    V.add("complete_after_eof", f"stalled_incomplete_request:{info.get('tag')}", f"{what}: request never completed: {wire_[-80:]!r}")
            elif stalled_:
                V.add("no_unexpected_error", f"TimeoutError:{info.get('tag')}", f"{what}: timed out; framer verdict {verdict}; wire head {wire_[:160]!r}")
            elif clean and verdict[0] == "INCOMPLETE":
                V.add("complete_after_eof", f"incomplete_request:{info.get('tag')}",
                      f"{what}: request call returned status {info['status']} but the request on the wire is incomplete: "
                      f"head {tailw[:tailw.find(b'\r\n\r\n') + 4]!r} body bytes {len(tailw) - tailw.find(b'\r\n\r\n') - 4}")
            elif msgs:
                for k, m in enumerate(msgs):
                    what_ = what if not resend else f"{what}, request #{k + 1} on its connection"
                    tagv = [b for a, b in m["headers"] if a.lower() == b"x-tag"]
                    if len(tagv) != 1 or tagv[0] != scn["hval"].encode("utf-8", "surrogatepass").strip(b" \t"):
                        V.add("field_line_exact", "x_tag_differs", f"{what_}: supplied X-Tag {scn['hval']!r}, on the wire {tagv!r}")
                    ce = [b for a, b in m["headers"] if a.lower() == b"content-encoding"]
                    body = m["body"]
                    ok = True
                    if ce:
                        raw_len = len(body)
                        body, finished, unused, err = refc.decode_content(ce[0].decode("latin-1"), body)
                        # a zero-length body under a Content-Encoding is taken as the encoding of nothing
                        if raw_len == 0 and not info["expected"]:
                            finished = True
                        if err is not None or unused or not finished:
                            ok = False
                            V.add("compressed_stream", f"bad:{info.get('tag')}", f"{what_}: compressed body err={err} unused={len(unused)} finished={finished}")
                    if ok:
                        check_body(V, body, info["expected"], complete=True, tag=info.get("tag"), what=what_)
                if verdict[0] == "INCOMPLETE":
                    probes["partial_request"] = 1
            elif verdict[0] == "INCOMPLETE":
                # prefix of one request: head (if complete) must be well formed - the framer did not reject; nothing more to say
                probes["partial_request"] = 1
        if deferred_exc is not None and not V.items:
            V.add("no_unexpected_error", f"{type(deferred_exc).__name__}:{info.get('tag')}", f"{what}: raised {deferred_exc!r}; wire head {wire[:160]!r}")
        if resend and clean and not V.items and total_msgs != info["sends"]:
            V.add("complete_after_eof", f"request_missing:{info.get('tag')}",
                  f"{what}: every send was answered but only {total_msgs} complete requests are on the wire")
        loop.run_sim(None, vt_cap=loop.time() + 1.0, step_cap=loop.steps + 10_000)
        close_files(files)
        if loop.exc_contexts:
            # e.g. "Task exception was never retrieved" from ClientRequest._write_bytes after an injected
            # close: not about the bytes of the message (C18's subject); counted, not judged here
            probes["loop_exception_seen"] = 1
        sst = w.stats()
        f = sst["faults"]
        if f.get("pause_writing"):
            probes["writer_paused"] = 1
        if f.get("exec_early") or f.get("exec_late"):
            probes["executor_job"] = 1
        if blocked_forever:
            probes["blocked_at_quiescence"] = 1
        probes["cli_" + str(info.get("tag"))] = 1
        nontrivial = bool(f.get("pause_writing") or killed or cancelled or f.get("exec_early") or f.get("exec_late"))
        res = {"violations": V.items, "nontrivial": nontrivial, "sig": sst["sig"], "digest": sst["digest"], "steps": sst["steps"],
               "vtime": sst["vtime"], "faults": f, "probes": probes, "shape": f"cli-{info.get('tag')}-{scn['chunked']}-{scn['compress']}" + ("-mw" if ups else "") + ("-resend" if resend else "")}
        if log:
            res["event_log"] = loop.event_log
            res["debug"] = {"wire": wire[:600], "exc": repr(exc)}
        return res


# ---------------------------------------------------------------------------
# kind srv: real server, scripted raw client


def run_srv(scn, ch, log):
    from aiohttp import web
    from sim.peers import RawClient

    V = Viols()
    probes = {}
    files = []
    specs = scn["specs"]
    with World(ch, 0, log_events=log) as w:
        loop, net = w.loop, w.net
        net.max_latency_ticks = scn["lat"]
        seen = []

        async def handler(request):
            i = len(seen)
            spec = specs[i % len(specs)]
            st = {"attempted": bytearray(), "completed": bytearray(), "pos": 0, "eof_done": False, "eof_started": False,
                  "prepared": False, "refused": None}
            rec = {"spec": spec, "st": st}
            seen.append(rec)
            try:
                resp, expected, tag, declared_by = build_response(spec, files)
            except Exception as e:
                st["refused"] = type(e).__name__
                raise
            rec.update(expected=expected, tag=tag, declared_by=declared_by)
            if spec["cls"] == "Response":
                return resp
            try:
                await send_response(resp, spec, request, st)
            except (ValueError, RuntimeError) as e:
                if not st["prepared"]:
                    st["refused"] = type(e).__name__
                raise
            return resp

        app = web.Application()
        app.router.add_route("*", "/{tail:.*}", handler)

        async def start():
            runner = web.AppRunner(app, access_log=None, shutdown_timeout=1.0)
            await runner.setup()
            await web.TCPSite(runner, "10.0.0.1", 80).start()
            return runner

        runner = loop.run_sim(start(), vt_cap=10).result()
        pieces = []
        for i, spec in enumerate(specs):
            ae = f"Accept-Encoding: {spec['accept_encoding']}\r\n" if spec["accept_encoding"] else ""
            pieces.append([0 if i == 0 else 2, f"{spec['method']} /r{i} HTTP/1.1\r\nHost: h.test\r\n{ae}\r\n".encode()])
        cl = RawClient(loop, pieces, end="keep")
        ctr, str_ = net.connect_raw(("10.0.0.1", 80), cl)
        ctr.out.policy = scn["pol_c2s"]
        str_.out.policy = scn["pol_s2c"]
        if scn["rd_pause"] is not None:
            t0, dur = scn["rd_pause"]

            def hold():
                net.hold(str_.out)
                loop.faults["peer_stops_reading"] += 1
                loop.sim_call_later(dur * 0.001, net.release, str_.out)
            loop.sim_call_later(t0 * 0.001, hold)
        kill = scn["kill"]
        if kill is not None:
            def do_kill():
                if not ctr._closed:
                    loop.faults["kill_" + kill["kind"]] += 1
                    probes["killed"] = 1
                    net.kill(ctr, kill["kind"])
            loop.sim_call_later(kill["at_ms"] * 0.001, do_kill)
        loop.run_sim(None, vt_cap=loop.time() + 20.0, step_cap=loop.steps + 400_000)
        killed = bool(probes.get("killed"))
        received = bytes(cl.received)
        methods = [s["method"].encode() for s in specs]
        resps, rest = http1.split_responses(received, methods=methods, closed=cl.eof or cl.lost is not None)
        desynced = False
        # walk the stream ourselves as well: bytes after a complete response that are not a response head
        # belong to the previous response (excess body)
        for i, r in enumerate(resps):
            if i >= len(seen):
                V.add("one_response_per_request", "surplus_response", f"response #{i} but only {len(seen)} requests reached the handler")
                break
            rec = seen[i]
            spec = rec["spec"]
            what = f"server response #{i} {spec['cls']}({rec.get('tag')}) to {spec['method']}"
            nxt = resps[i + 1]["start"] if i + 1 < len(resps) else len(received)
            tail = received[r["end"]:nxt] if r["complete"] and r["framing"] != "eof" and "end" in r else b""
            if isinstance(rest, tuple) and rest[0] == "malformed" and i == len(resps) - 1 and r["complete"]:
                tail = received[r["end"]:]
            if r["status"] == 500 and (rec["st"]["refused"] or "tag" not in rec or not rec["st"]["prepared"]):
                probes["refused_to_500"] = 1
                # the error response aiohttp sends instead must itself be truthfully framed
                bad = None
                if not r["complete"] and not killed:
                    bad = "incomplete"
                elif tail and not _is_next_head(tail):
                    bad = "bytes_after_declared_length"
                elif r["complete"] and r["framing"] == "length" and not r["body"].startswith(b"500"):
                    bad = "body_not_plain_text"
                if bad is not None:
                    V.add("error_response_framing", f"misframed_500_after_refused_prepare:{bad}",
                          f"{what}: prepare() was refused ({rec['st']['refused']}); the 500 sent instead declares "
                          f"{[b for a, b in r['headers'] if a.lower() in (b'content-length', b'transfer-encoding', b'content-encoding')]} "
                          f"but its body bytes are {r['body'][:40]!r} followed by {tail[:40]!r} "
                          f"(refused response: chunked={spec['chunked']} compress={spec['compress']} cls={spec['cls']})")
                continue
            if "tag" not in rec:
                continue
            if r["status"] != spec["status"]:
                probes["other_status"] = 1
                continue
            if rec["st"]["refused"] is None:
                expected_head_checks(V, r, spec, what)
            st = rec["st"]
            if spec["cls"] == "Response":
                st = dict(st, eof_done=r["complete"])
            out = judge_response(V, r, tail, spec, rec.get("expected"), rec.get("tag"), rec.get("declared_by"), st,
                                 clean=not killed and r["complete"], what=what)
            if out == "underrun":
                # the application declared a length it did not fill: what follows is read wrongly by any recipient
                probes["app_underrun"] = 1
                desynced = True
                break
        if isinstance(rest, tuple) and rest[0] == "malformed" and not V.items and not desynced:
            V.add("well_formed_responses", "malformed_output", f"server output is not a sequence of well-formed responses: {rest}; "
                  f"{received[max(0, rest[1] - 40):rest[1] + 80]!r}")
        if net.fatal_errors or loop.exc_contexts:
            probes["loop_exception_seen"] = 1  # C05's subject, not judged here
        t2 = loop.run_sim(runner.cleanup(), vt_cap=loop.time() + 100.0)
        if not t2.done():
            V.add("cleanup_returns", "cleanup_blocked", "AppRunner.cleanup() did not return")
        close_files(files)
        sst = w.stats()
        f = sst["faults"]
        if f.get("pause_writing"):
            probes["writer_paused"] = 1
        if f.get("exec_early") or f.get("exec_late"):
            probes["executor_job"] = 1
        probes["srv_responses"] = len(resps)
        nontrivial = bool(f.get("pause_writing") or killed or f.get("exec_early") or f.get("exec_late") or len(resps) >= 2)
        res = {"violations": V.items, "nontrivial": nontrivial, "sig": sst["sig"], "digest": sst["digest"], "steps": sst["steps"],
               "vtime": sst["vtime"], "faults": f, "probes": probes, "shape": f"srv-{len(specs)}"}
        if log:
            res["event_log"] = loop.event_log
            res["debug"] = {"received": received[:800], "rest": rest}
        return res


def run(scn, ch, log=False):
    k = scn["kind"]
    if k == "sw":
        return run_sw(scn, ch, log)
    if k == "resp":
        return run_resp(scn, ch, log)
    if k == "cli":
        return run_cli(scn, ch, log)
    if k == "srv":
        return run_srv(scn, ch, log)
    if k == "file":
        from props import _c04w3 as W3

        return W3.run_file(scn, ch, log)
    raise RuntimeError("unknown scenario kind " + str(k))


# ---------------------------------------------------------------------------


def selftest():
    """judge_stream on hand-made wires"""
    from props import _c04w3 as W3

    W3.selftest()
    head = refc.serialize_head("POST /p HTTP/1.1", [("Host", "a")])

    def j(wire, **kw):
        V = Viols()
        a = dict(head=head, mode="chunked", length=None, compress=None, wire=wire, attempted=b"abcdef", completed=b"abcdef",
                 eof_started=True, eof_done=True, eof_kind="write_eof", clean=True, must_have_head=True, marks=[])
        a.update(kw)
        judge_stream(V, **a)
        return [(v["invariant"], v["key"]) for v in V.items]

    assert j(head + b"3\r\nabc\r\n3\r\ndef\r\n0\r\n\r\n") == []
    assert j(head + b"6\r\nabcdef\r\n0\r\n\r\n") == []
    assert j(head + b"3\r\nabc\r\n0\r\n\r\n3\r\ndef\r\n0\r\n\r\n") == [("terminator_only_at_end", "terminator_before_more_chunks")]
    assert j(head + b"3\r\nabc\r\n0\r\n\r\n") == [("completed_writes_reach_transport", "missing_data")]
    assert j(head + b"3\r\nabc\r\n0\r\n\r\n", completed=b"abc") == [("terminator_only_at_end", "terminator_before_all_data"), ("complete_after_eof", "data_missing")]
    assert j(head + b"6\r\nabcdef\r\n") == [("complete_after_eof", "no_terminator")]
    assert j(head + b"6\r\nabcdeX\r\n0\r\n\r\n") == [("body_is_written_data", "differs")]
    assert j(b"") == [("head_written", "nothing_written")]
    assert j(head.replace(b"Host", b"Most") + b"0\r\n\r\n") == [("head_exact", "head_differs")]
    assert j(head + b"abcdefgh", mode="length", length=6, marks=[("write", len(head) + 8)]) == [("body_within_declared_length", "beyond_declared_length:write")]
    assert j(head + b"abcdef", mode="length", length=6, attempted=b"abcdefgh", completed=b"abcdefgh") == []
    assert j(head + b"abc", mode="plain", eof_done=False, eof_started=False, clean=False, completed=b"abc") == []
    assert j(head + b"ab", mode="plain", eof_done=False, eof_started=False, clean=False, completed=b"abc") == [("completed_writes_reach_transport", "missing_data")]
    import zlib

    z = zlib.compress(b"abcdef")
    assert j(head + b"%x\r\n" % len(z) + z + b"\r\n0\r\n\r\n", compress="deflate") == []
    assert j(head + b"%x\r\n" % (len(z) - 4) + z[:-4] + b"\r\n0\r\n\r\n", compress="deflate")[0][0] in ("compressed_stream", "terminator_only_at_end")
