"""C15 - static file serving stays inside its root and serves exact bytes.

World S: a real aiohttp.web Application with one `add_static("/static", root, ...)`
route behind SimNet; scripted raw clients.  The root is a real temporary
directory tree (built once per worker process, see `tree()`); every executor
job of the static handler / FileResponse (resolve, stat+open, read, close) is a
simulator event; the file object handed to aiohttp is wrapped by a shim that
may return short reads and records open/close.  Oracle: ref/static.py.
See DESIGN.md section 9, C15.
"""
from __future__ import annotations

import atexit
import gc
import math
import os
import shutil
import stat
import tempfile

from gen.http_gen import dec, enc
from ref import http1
from ref import static as R
from sim.peers import RawClient
from sim.world import World

PROP = "C15"
LEVEL = "exploration"
DESIGN_REF = "9/C15"
BUDGET = {"quick": 55, "thorough": 600}   # search budget; minimisation/evidence take the rest of the minute
BATCH = 100
ENUM_BATCH = 25
ENUM_SHARE = 0.45
ENUM_IS_EXHAUSTIVE = False
TECHNIQUE = ("deterministic simulation: real static route + FileResponse on a virtual-time loop, simulated executor "
             "(stat/open/read/close jobs as events), file shim with short reads, in-memory network with segmentation, "
             "client read pauses and resets; enumerated traversal grammar and range lattice; RFC 9110 reference oracle")
LEVEL_TEXT = (
    "Enumerated workload (traversal spellings x symlink policy x show_index; Range/If-Range/conditional lattice around "
    "0,1,size-1,size,size+1 x file sizes 0,1,chunk+-1,larger) followed by seeded exploration of the file/transport I/O "
    "path: short reads, executor early/late/delay, sendfile emulation vs. chunked fallback, request segmentation, "
    "client read pause (back-pressure) and client reset during the body, concurrent connections. Every response is "
    "judged against a realpath-based confinement reference and an RFC 9110 section 13/14 range/conditional reference. "
    "Sampling, not proof; confinement and range arithmetic are functions of (tree, request), so for them this is "
    "systematic input enumeration - simulation adds only the I/O path."
)
LEVEL_NOTE = (
    "Trusted: ref/static.py (self-tested against hand-checked vectors incl. the RFC 9110 14.1.2 examples), "
    "ref/http1.split_responses, the host's POSIX file system and os.path.realpath. One fixed tree; POSIX path "
    "semantics only (backslash/drive/UNC spellings are exercised but are ordinary names here). Validators (ETag, "
    "Last-Modified) are the server's choice; the harness assumes aiohttp's mtime/size formula and fails as a harness "
    "error if a response contradicts it. Not judged: q-values in Accept-Encoding, Content-Type, multipart ranges."
)
RULE = (
    "Run = static-route configuration (break_symlink_sandbox, show_index, chunk_size, sendfile emulation or fallback) x "
    "1-3 connections x 1-6 GET/HEAD requests each (plain names, traversal grammar spellings, Range lattice, If-Range, "
    "conditionals, Accept-Encoding) x faults (short reads, executor job failure, request/response segmentation, latency, "
    "client read pause, client reset at response byte k or loop step k, handler_cancellation on/off). Non-trivial: at least one response carried file bytes read "
    "through the chunk loop / sendfile emulation or was a 206/416/304/412/listing decision or a refused traversal "
    "spelling, and was judged against the reference. Distinct = interleaving signature."
)
ENUM_RULE = (
    "range lattice {none,0,1,chunk-1,chunk,chunk+1,size-1,size,size+1}^2 + malformed specs over files of size "
    "0,1,2,chunk-1,chunk,chunk+1,200 x If-Range forms; If-Match x If-Unmodified-Since x If-None-Match x "
    "If-Modified-Since x Range product; traversal goals x dot-dot spellings x separator spellings x prefix spellings "
    "x break_symlink_sandbox x show_index; fault-free, 8 single-request connections per run"
)
COMPONENTS = {
    "real": ["aiohttp.web_urldispatcher.StaticResource", "aiohttp.web_fileresponse.FileResponse",
             "web_request.BaseRequest (http_range, if_*)", "web_protocol.RequestHandler", "http_parser/http_writer (Python)",
             "yarl URL", "pathlib/os on a real temporary directory tree"],
    "stub": ["network (SimNet)", "client peer (scripted RawClient)", "thread pool (SimLoop.run_in_executor)",
             "loop.sendfile (emulated or NotImplementedError)", "file object returned by open (shim: short reads, open/close tracking)"],
}
ASSUMPTIONS = [
    "POSIX host; the tree is not modified while served (no stat/open races)",
    "a short read (fewer bytes than asked, at least one) is legal for the BinaryIO handed to FileResponse",
    "executor jobs are atomic w.r.t. the loop and complete in submission-independent order (seeded delay 0-3 ms)",
    "ETag = '<mtime_ns hex>-<size hex>' and Last-Modified = ceil(mtime) are the server's validators (checked, not judged)",
    "a precompressed sibling is used iff its coding name occurs in Accept-Encoding and it is a regular non-symlink file "
    "(docs: 'it will be used', brotli preferred); q-values are not generated",
    "the tree lives under /tmp (fixed-width directory name): only the length of its path, never its text, reaches "
    "request sizes, event log, keys and messages",
    "a file object released only by garbage collection counts as not closed (CPython refcounting hides the leak)",
]

PREFIX = "/static"
ADDR = ("10.0.0.1", 80)
T0 = 1_600_000_000
CHUNKS = [1, 2, 3, 7, 16, 64, 1000, 16384, 262144]

# ---------------------------------------------------------------------------
# the tree (pure data; paths relative to the per-process base directory)

_F = "file"
TREE = [
    ("root", "dir"), ("root/sub", "dir"), ("outside", "dir"), ("outside/dir", "dir"), ("rootx", "dir"),
    ("root/empty.bin", _F, 0), ("root/one.bin", _F, 1), ("root/two.bin", _F, 2), ("root/three.bin", _F, 3),
    ("root/f6.bin", _F, 6), ("root/f7.bin", _F, 7), ("root/f8.bin", _F, 8),
    ("root/f15.bin", _F, 15), ("root/f16.bin", _F, 16), ("root/f17.bin", _F, 17),
    ("root/f63.bin", _F, 63), ("root/f64.bin", _F, 64), ("root/f65.bin", _F, 65),
    ("root/in.txt", _F, 200),
    ("root/k999.bin", _F, 999), ("root/k1000.bin", _F, 1000), ("root/k1001.bin", _F, 1001),
    ("root/m16383.bin", _F, 16383), ("root/m16384.bin", _F, 16384), ("root/m16385.bin", _F, 16385),
    ("root/big.bin", _F, 200_000), ("root/huge.bin", _F, 262_145),
    ("root/sub/deep.txt", _F, 65),
    ("root/doc.txt", _F, 64), ("root/doc.txt.gz", _F, 17), ("root/doc.txt.br", _F, 15),
    ("root/style.css", _F, 16), ("root/style.css.gz", _F, 7),
    ("root/page.html", _F, 63), ("root/page.html.gz", "link", "../outside/secret.gz"), ("root/page.html.br", "dir"),
    ("root/in_link.txt", "link", "in.txt"), ("root/in_dirlink", "link", "sub"),
    ("root/out_link.txt", "link", "../outside/linked.txt"), ("root/abs_out_link.txt", "link", "{BASE}/outside/linked.txt"),
    ("root/out_dir", "link", "../outside/dir"),
    ("root/loop_a", "link", "loop_b"), ("root/loop_b", "link", "loop_a"), ("root/selfloop", "link", "selfloop"),
    ("root/dangling", "link", "nowhere"), ("root/fifo", "fifo"),
    ("outside/secret.txt", _F, 200), ("outside/secret.gz", _F, 17), ("outside/linked.txt", _F, 65),
    ("outside/dir/inner.txt", _F, 16),
    ("outside/back_link.txt", "link", "../root/in.txt"), ("outside/root_link", "link", "../root"),
    ("rootx/evil.txt", _F, 64), ("root_link", "link", "root"),
]


def edge_name(n: int, ext: str = ".txt") -> str:
    """A file name of exactly n bytes (n around NAME_MAX = 255 on the usual POSIX file systems)."""
    head = f"n{n}-"
    return head + "x" * (n - len(head) - len(ext)) + ext


# Regular files inside the root whose names are as long as the file system allows: any name derived from them
# (pre-compressed sibling "<name>.br"/"<name>.gz", temporary names) falls on either side of NAME_MAX, so a lookup
# of the derived name fails with ENAMETOOLONG instead of ENOENT.  n251: both siblings fit (and are absent);
# n252: siblings are exactly NAME_MAX long, the .gz one exists; n253..n255: no sibling name can exist.
# Appended after the original entries so that their indices (content, mtime) stay what they were.
NAME_MAX = 255
EDGE = {edge_name(n): "root/" + edge_name(n) for n in (NAME_MAX - 4, NAME_MAX - 3, NAME_MAX - 2, NAME_MAX - 1, NAME_MAX)}
EDGE_SIZES = (64, 17, 65, 16, 200)
TREE += [(rel, _F, sz) for rel, sz in zip(EDGE.values(), EDGE_SIZES)]
TREE.append(("root/" + edge_name(NAME_MAX - 3) + ".gz", _F, 15))
_EDGE_RELS = {e[0] for e in TREE[-(len(EDGE) + 1):]}
_FRACS = (0, 500_000_000, 250_000_000)
FILES = {}     # rel -> (size, mtime_ns, index)
for _i, _e in enumerate(x for x in TREE if x[1] == _F):
    FILES[_e[0]] = (_e[2], (T0 + 1000 * _i) * 10 ** 9 + _FRACS[_i % 3], _i)
# plain names under the root -> the tree file they finally denote (None: nothing servable)
AIM = {n[5:]: n for n in FILES if n.startswith("root/") and n not in _EDGE_RELS}
AIM.update({"in_link.txt": "root/in.txt", "in_dirlink/deep.txt": "root/sub/deep.txt", "out_link.txt": "outside/linked.txt",
            "abs_out_link.txt": "outside/linked.txt", "out_dir/inner.txt": "outside/dir/inner.txt"})
OTHER_PLAIN = ["", "sub", "sub/", "in_dirlink", "in_dirlink/", "out_dir", "out_dir/", "loop_a", "loop_a/x", "selfloop",
               "dangling", "fifo", "nope.txt", "sub/nope", "page.html.br", "page.html.gz", "in.txt/x"]


def content(rel: str, size: int, idx: int) -> bytes:
    """File content naming its real location; the first byte is unique per file."""
    out = bytearray([48 + idx])
    k = 0
    while len(out) < size:
        out += f"<{rel}#{k}>".encode()
        k += 1
    return bytes(out[:size])


def etag_of(rel: str) -> str:
    size, mt, _ = FILES[rel]
    return f"{mt:x}-{size:x}"


def lm_of(rel: str) -> int:
    return math.ceil(FILES[rel][1] / 1e9)


class _Tree:
    def __init__(self, base):
        self.base = base
        self.root = os.path.join(base, "root")
        self.data = {}    # real path -> bytes (regular files only)
        self.meta = {}    # real path -> (size, last_modified_s, etag)
        self.rel = {}     # real path -> rel


_TREES: dict = {}
_KEEP = []


def _cleanup(pid, base):
    if os.getpid() == pid:
        shutil.rmtree(base, ignore_errors=True)


def _sweep(tmp):
    try:
        names = os.listdir(tmp)
    except OSError:
        return
    for n in names:
        if not n.startswith("verif-c15-"):
            continue
        parts = n.split("-")
        if len(parts) < 4 or not parts[2].isdigit():
            continue
        try:
            os.kill(int(parts[2]), 0)
        except ProcessLookupError:
            shutil.rmtree(os.path.join(tmp, n), ignore_errors=True)
        except OSError:
            pass


def tree() -> _Tree:
    """The per-process directory tree, built at first use."""
    pid = os.getpid()
    t = _TREES.get(pid)
    if t is not None:
        return t
    # always /tmp when possible: the *length* of the base path reaches request sizes and hence the event
    # log, so it should not depend on TMPDIR (a replay elsewhere would diverge)
    tmp = "/tmp" if os.path.isdir("/tmp") and os.access("/tmp", os.W_OK) else tempfile.gettempdir()
    _sweep(tmp)
    # fixed-width name: the length of the path (not its text) reaches request sizes
    base = os.path.realpath(tempfile.mkdtemp(prefix=f"verif-c15-{pid:07d}-", dir=tmp))
    for forbidden in ("/repo", "/verif"):
        assert not R.is_inside(base, forbidden), base
    # removal: atexit (in-process tools), multiprocessing finalizer (pool workers skip atexit) and, because
    # check.py leaves through os._exit, a detached reaper that waits for EOF on a pipe only this process holds
    atexit.register(_cleanup, pid, base)
    try:
        from multiprocessing import util as _mpu
        _KEEP.append(_mpu.Finalize(None, _cleanup, args=(pid, base), exitpriority=10))
    except Exception:
        pass
    try:
        import subprocess
        p = subprocess.Popen(["/bin/sh", "-c", 'read x; rm -rf -- "$0"', base], stdin=subprocess.PIPE,
                             stdout=subprocess.DEVNULL, stderr=subprocess.DEVNULL, start_new_session=True)
        _KEEP.append(p)
    except Exception:
        pass
    t = _Tree(base)
    for e in TREE:
        p = os.path.join(base, e[0])
        if e[1] == "dir":
            os.makedirs(p, exist_ok=True)
    for e in TREE:
        p = os.path.join(base, e[0])
        if e[1] == _F:
            size, mt, idx = FILES[e[0]]
            data = content(e[0], size, idx)
            try:
                with open(p, "wb") as f:
                    f.write(data)
            except OSError:
                if e[0] in _EDGE_RELS:      # a file system with a smaller NAME_MAX: the name then denotes nothing
                    continue
                raise
            os.utime(p, ns=(mt, mt))
            st = os.stat(p)
            t.data[p] = data
            t.meta[p] = (st.st_size, math.ceil(st.st_mtime), f"{st.st_mtime_ns:x}-{st.st_size:x}")
            t.rel[p] = e[0]
        elif e[1] == "link":
            os.symlink(e[2].replace("{BASE}", base), p)
        elif e[1] == "fifo":
            try:
                os.mkfifo(p)
            except (OSError, AttributeError):
                pass
    _TREES[pid] = t
    return t


# ---------------------------------------------------------------------------
# workload grammar

DOTDOT = ["..", "%2e%2e", "%2E%2E", ".%2e", "%2e.", "%252e%252e", "%25252e%25252e", "..;", "..%00", "..%20", "...",
          "%c0%ae%c0%ae", "%uff0e%uff0e", "..%c0%af", "....", ".%00."]
SEPS = ["/", "%2f", "%2F", "%252f", "\\", "%5c", "%255c", "//", "/./", "%c0%af", "%ef%bc%8f", "/%2e/", "%2f/"]
PREFIXES = ["/static/", "/static//", "//static/", "/static/./", "/static/sub/../", "/./static/", "/x/../static/",
            "/static/../static/", "/stati%63/", "/static%2f", "/static%2F", "/STATIC/", "http://h.test/static/",
            "/static/%2e/", "/static\\", "/static/%2e%2e/static/", "/static/..%2fstatic/", "/static;x/", "/%2e%2e/static/"]
# goal name -> segments relative to the root ("{BASE_REL}" = base directory without the leading slash)
GOALS = {
    "outside_secret": ["..", "outside", "secret.txt"],
    "outside_secret_deep": ["sub", "..", "..", "outside", "secret.txt"],
    "outside_via_dirlink_dotdot": ["out_dir", "..", "secret.txt"],
    "sibling_dir_rootx": ["..", "rootx", "evil.txt"],
    "outside_abs": ["{BASE}", "outside", "secret.txt"],
    "outside_abs_climb": [".."] * 12 + ["{BASE_REL}", "outside", "secret.txt"],
    "outside_linked": ["..", "outside", "linked.txt"],
    "reenter_root": ["..", "root", "in.txt"],
    "reenter_by_outside_link": ["..", "outside", "back_link.txt"],
    "reenter_by_outside_dirlink": ["..", "outside", "root_link", "in.txt"],
    "reenter_by_root_link": ["..", "root_link", "in.txt"],
    "inside_detour": ["sub", "..", "in.txt"],
    "inside_dot": [".", "in.txt"],
    "inside_sub_dot": ["sub", ".", "deep.txt"],
    "inside_via_outdir_dotdot": ["out_dir", "..", "in.txt"],
    "inside_via_dirlink_dotdot": ["in_dirlink", "..", "in.txt"],
    "sym_out_file": ["out_link.txt"],
    "sym_out_abs": ["abs_out_link.txt"],
    "sym_out_dir_file": ["out_dir", "inner.txt"],
    "sym_out_dir": ["out_dir"],
    "sym_in_file": ["in_link.txt"],
    "sym_in_dir_file": ["in_dirlink", "deep.txt"],
    "sym_loop": ["loop_a"],
    "sym_loop_child": ["loop_a", "x"],
    "sym_selfloop": ["selfloop", ".."],
    "sym_dangling": ["dangling"],
    "fifo": ["fifo"],
    "dir": ["sub"],
    "dir_slash": ["sub", ""],
    "root_dir": [""],
    "root_dotdot_dir": [".."],
    "outside_dir": ["..", "outside"],
    "drive": ["C:", "Windows", "win.ini"],
    "drive_bs": ["C:\\Windows\\win.ini"],
    "unc": ["", "host", "share", "x"],
    "unc_bs": ["\\\\host\\share\\x"],
    "file_url": ["file:", "", "", "etc", "hostname"],
    "abs_etc": ["", "etc", "hostname"],
    "plain_file": ["in.txt"],
    "plain_deep": ["sub", "deep.txt"],
}
OUTSIDE_GOALS = ["outside_secret", "outside_secret_deep", "outside_via_dirlink_dotdot", "sibling_dir_rootx",
                 "outside_abs_climb", "outside_linked"]
NAME_MUT = ["", "%00", "%00.txt", ".", "%20", "/.", "/", "%2f", "?x=../../", "#../..", ";a=b", "%", "%zz", "\x00"]

MALFORMED_RANGES = [
    "bytes=", "bytes=-", "bytes=abc", "bytes=0-1,3-4", "bytes=0-0,-1", "items=0-1", "Bytes=0-1", "BYTES=0-", "bytes =0-1",
    "bytes= 0-1", "bytes=0 -1", "bytes=0-1;q=1", "bytes=--1", "bytes=-1-", "bytes=1-0", "bytes=+1-2", "bytes=0x0-0x1",
    "bytes=\xd9\xa0-\xd9\xa1", "", "0-1", "bytes=0-1,", "bytes=,0-1", "bytes=99999999999999999999-",
    "bytes=0-99999999999999999999", "bytes=-99999999999999999999", "bytes=00-01", "bytes=0-1\t", "bytes=-0",
    "bytes:0-1", "none", "bytes=0-, 1-", "seconds=-5",
]


def lattice(size: int, chunk: int):
    pts = {0, 1, size - 1, size, size + 1}
    if chunk <= size + 1:
        pts |= {chunk - 1, chunk, chunk + 1}
    return sorted(p for p in pts if p >= 0)


def range_specs(size: int, chunk: int):
    pts = [None] + lattice(size, chunk)
    out = []
    for a in pts:
        for b in pts:
            out.append("bytes=%s-%s" % ("" if a is None else a, "" if b is None else b))
    return out


def etag_forms(e):
    return [None, f'"{e}"', '"nomatch"', "*", f'W/"{e}"', f'"nomatch", "{e}"']


def date_forms(lm):
    return [None, R.http_date(lm - 1), R.http_date(lm), R.http_date(lm + 1), "garbage"]


def if_range_forms(e, lm):
    return [None, R.http_date(lm), R.http_date(lm - 1), R.http_date(lm + 1), f'"{e}"', '"nomatch"', f'W/"{e}"', "garbage"]


def spell(goal: str, dd: str = "..", sep: str = "/", prefix: str = "/static/", tail: str = "") -> str:
    segs = [dd if s == ".." else s for s in GOALS[goal]]
    return prefix + sep.join(segs) + tail


def mkreq(target, headers=(), method="GET", plain=None, cat="plain"):
    return {"m": method, "t": target, "h": [list(h) for h in headers], "plain": plain, "cat": cat}


def pick_file(rng, chunk, big_ok=True):
    """A servable plain name whose transfer needs a bounded number of reads."""
    near = [n for n, a in AIM.items() if a.startswith("root/") and abs(FILES[a][0] - chunk) <= 1]
    ok = [n for n, a in sorted(AIM.items()) if a.startswith("root/") and FILES[a][0] // chunk <= 260]
    r = rng.random()
    if near and r < 0.35:
        return rng.choice(sorted(near))
    if r < 0.5:
        return rng.choice(["empty.bin", "one.bin", "two.bin", "in.txt"])
    if big_ok and r < 0.65 and 200_000 // chunk <= 260:
        return rng.choice(["big.bin", "huge.bin"])
    return rng.choice(ok)


def gen_range_req(rng, chunk):
    name = pick_file(rng, chunk)
    aim = AIM[name]
    size = FILES[aim][0]
    e, lm = etag_of(aim), lm_of(aim)
    h = []
    r = rng.random()
    if r < 0.7:
        spec = rng.choice(range_specs(size, chunk))
    elif r < 0.85:
        spec = rng.choice(MALFORMED_RANGES)
    else:
        a = rng.randrange(0, size + 2)
        spec = f"bytes={a}-{rng.randrange(0, size + 2)}" if rng.random() < 0.7 else f"bytes=-{a}"
    h.append(["Range", spec])
    if rng.random() < 0.35:
        h.append(["If-Range", rng.choice(if_range_forms(e, lm)[1:])])
    if rng.random() < 0.15:
        k = rng.choice(["If-Match", "If-None-Match"])
        h.append([k, rng.choice(etag_forms(e)[1:])])
    if rng.random() < 0.15:
        k = rng.choice(["If-Modified-Since", "If-Unmodified-Since"])
        h.append([k, rng.choice(date_forms(lm)[1:])])
    rng.shuffle(h)
    return mkreq(PREFIX + "/" + name, h, "HEAD" if rng.random() < 0.08 else "GET", plain=name, cat="range")


def gen_cond_req(rng, chunk):
    name = pick_file(rng, chunk, big_ok=False)
    aim = AIM[name]
    e, lm = etag_of(aim), lm_of(aim)
    h = []
    for k, forms in (("If-Match", etag_forms(e)), ("If-Unmodified-Since", date_forms(lm)),
                     ("If-None-Match", etag_forms(e)), ("If-Modified-Since", date_forms(lm))):
        if rng.random() < 0.45:
            h.append([k, rng.choice(forms[1:])])
    if rng.random() < 0.3:
        h.append(["Range", rng.choice(range_specs(FILES[aim][0], chunk))])
    rng.shuffle(h)
    return mkreq(PREFIX + "/" + name, h, "HEAD" if rng.random() < 0.1 else "GET", plain=name, cat="cond")


def gen_trav_req(rng):
    goal = rng.choice(sorted(GOALS)) if rng.random() < 0.6 else rng.choice(OUTSIDE_GOALS)
    dd = rng.choice(DOTDOT) if rng.random() < 0.7 else ".."
    sep = rng.choice(SEPS) if rng.random() < 0.6 else "/"
    prefix = rng.choice(PREFIXES) if rng.random() < 0.25 else "/static/"
    tail = rng.choice(NAME_MUT) if rng.random() < 0.2 else ""
    t = spell(goal, dd, sep, prefix, tail)
    if rng.random() < 0.1:
        # mixed spellings: each ".." and each separator chosen independently
        segs = [rng.choice(DOTDOT[:6]) if s == ".." else s for s in GOALS[goal]]
        t = prefix + "".join(s + (rng.choice(SEPS[:8]) if i < len(segs) - 1 else "") for i, s in enumerate(segs)) + tail
    h = []
    if rng.random() < 0.1:
        h.append(["Range", rng.choice(["bytes=0-9", "bytes=-5", "bytes=3-"])])
    if rng.random() < 0.1:
        h.append(["Accept-Encoding", rng.choice(["gzip", "br", "gzip, br"])])
    return mkreq(t, h, "HEAD" if rng.random() < 0.05 else "GET", cat="trav:" + goal)


def gen_misc_req(rng, chunk=262144):
    r = rng.random()
    h = []
    if r < 0.45:
        name = rng.choice(["doc.txt", "page.html", "style.css", "in.txt", "doc.txt.gz", "in_link.txt"])
        h.append(["Accept-Encoding", rng.choice(["gzip", "br", "gzip, br", "br, gzip", "GZIP", "identity", "deflate", "gzip, deflate, br"])])
        if rng.random() < 0.3:
            h.append(["Range", rng.choice(["bytes=0-3", "bytes=-4", "bytes=5-", "bytes=16-", "bytes=63-70"])])
    elif r < 0.75:
        name = rng.choice(OTHER_PLAIN)
    else:
        name = rng.choice(sorted(AIM))
    if name in AIM and FILES[AIM[name]][0] // chunk > 260:
        name = "f7.bin"
    return mkreq(PREFIX + "/" + name, h, "HEAD" if rng.random() < 0.1 else "GET", plain=name, cat="misc")


def gen_io_req(rng, chunk):
    """A body large enough to exercise the chunk loop / back-pressure."""
    names = [n for n, a in sorted(AIM.items()) if a.startswith("root/") and 2 <= FILES[a][0] // chunk <= 260]
    if not names:
        names = ["in.txt"]
    name = rng.choice(names)
    size = FILES[AIM[name]][0]
    h = []
    if rng.random() < 0.4:
        a = rng.randrange(0, size)
        h.append(["Range", rng.choice([f"bytes={a}-", f"bytes=-{max(1, size - a)}", f"bytes={a}-{a + rng.randrange(0, size)}"])])
    return mkreq(PREFIX + "/" + name, h, plain=name, cat="io")


def bad_etag_forms(e):
    """If-Match / If-None-Match values that are present but hold malformed entity-tags: nothing well-formed at all
    (unquoted, weak prefix without quotes, unterminated or unopened quote, text glued to a tag, two tags without a
    comma, only separators) and lists mixing malformed elements with well-formed ones that do / do not match."""
    return [e, f"W/{e}", f'"{e}', f'{e}"', "W/x", "junk", f'"{e}"x', f'"{e}" "{e}"', f"'{e}'", ",", f"{e}, {e}",
            f'"nomatch", {e}', f'junk, "nomatch"', f'junk, W/"nomatch"', f', "nomatch"',
            f'"{e}", junk', f'junk, "{e}"', f'W/"{e}", junk', f'junk, W/"{e}"', f'"nomatch", junk, "{e}"']


def empty_elem_forms(e):
    """Well-formed entity-tag lists with empty list elements (RFC 9110 5.6.1.2: to be skipped by the recipient)."""
    return [f', "{e}"', f'"nomatch",, "{e}"', f',W/"{e}"', f'"{e}",', f', "nomatch"', f'"nomatch", ,"{e}", ']


def gen_badtag_req(rng, chunk):
    """A conditional request whose If-Match and/or If-None-Match field is present but malformed or only partly
    well-formed, alone and combined with the date conditionals, Range and If-Range."""
    name = pick_file(rng, chunk, big_ok=False)
    aim = AIM[name]
    size = FILES[aim][0]
    e, lm = etag_of(aim), lm_of(aim)
    h = []
    which = rng.choice(["If-Match", "If-None-Match", "If-None-Match", "both"])
    for k in ("If-Match", "If-None-Match"):
        if which in (k, "both"):
            h.append([k, rng.choice(bad_etag_forms(e) if rng.random() < 0.8 else empty_elem_forms(e))])
        elif rng.random() < 0.15:
            h.append([k, rng.choice(etag_forms(e)[1:])])
    for k in ("If-Unmodified-Since", "If-Modified-Since"):
        if rng.random() < 0.5:
            h.append([k, rng.choice(date_forms(lm)[1:])])
    if rng.random() < 0.35:
        h.append(["Range", rng.choice(range_specs(size, chunk)) if rng.random() < 0.8 else rng.choice(MALFORMED_RANGES)])
        if rng.random() < 0.4:
            h.append(["If-Range", rng.choice(if_range_forms(e, lm)[1:])])
    rng.shuffle(h)
    return mkreq(PREFIX + "/" + name, h, "HEAD" if rng.random() < 0.1 else "GET", plain=name, cat="badtag")


EDGE_AE = [None, "gzip", "br", "gzip, br", "br, gzip", "GZIP", "identity", "deflate", "gzip, deflate, br"]


def gen_edge_req(rng, chunk):
    """A file whose name is NAME_MAX-4 .. NAME_MAX bytes long, with the headers that make the server derive
    other names from it (Accept-Encoding) and the range / conditional headers of the other modes."""
    name = rng.choice(sorted(EDGE))
    aim = EDGE[name]
    size = FILES[aim][0]
    h = []
    ae = rng.choice(EDGE_AE)
    if ae is not None:
        h.append(["Accept-Encoding", ae])
    r = rng.random()
    if r < 0.35:
        h.append(["Range", rng.choice(range_specs(size, chunk))])
    elif r < 0.45:
        h.append(["If-None-Match", rng.choice(etag_forms(etag_of(aim))[1:])])
    elif r < 0.5:
        h.append(["If-Modified-Since", rng.choice(date_forms(lm_of(aim))[1:])])
    rng.shuffle(h)
    return mkreq(PREFIX + "/" + name, h, "HEAD" if rng.random() < 0.1 else "GET", plain=name, cat="edge")


def gen(rng, tier, index):
    faulty = index % 2 == 1
    chunk = rng.choice(CHUNKS)
    cfg = {"follow": rng.random() < 0.5, "show_index": rng.random() < 0.5, "chunk": chunk,
           "sendfile": rng.choice(["unsupported", "unsupported", "emulate"]), "lat": rng.choice([0, 0, 1, 3]),
           "cancel": faulty and rng.random() < 0.4}
    mode = rng.choice(["range", "range", "cond", "trav", "trav", "io", "mix", "mix"])
    conns = []
    for _ in range(rng.choice([1, 1, 2, 3])):
        reqs = []
        for _ in range(rng.randint(1, 6)):
            m = mode if mode != "mix" else rng.choice(["range", "cond", "trav", "io", "misc", "misc"])
            if m == "range":
                reqs.append(gen_range_req(rng, chunk))
            elif m == "cond":
                reqs.append(gen_cond_req(rng, chunk))
            elif m == "trav":
                reqs.append(gen_trav_req(rng))
            elif m == "io":
                reqs.append(gen_io_req(rng, chunk))
            else:
                reqs.append(gen_misc_req(rng, chunk))
        c = {"reqs": reqs, "start": rng.choice([0, 0, 1, 5]), "pol_c2s": "whole", "pol_s2c": "whole",
             "rd_pause": None, "kill": None, "writes": 1}
        if faulty:
            c["pol_c2s"] = rng.choice(["whole", "byte", "tiny", "small", "mixed", "after_cr"])
            c["pol_s2c"] = rng.choice(["whole", "small", "mixed", "mss", "tiny"])
            c["writes"] = rng.choice([1, 1, 2, 4])
            r = rng.random()
            if r < 0.3:
                c["rd_pause"] = [rng.choice([0, 1, 3, 8]), rng.choice([5, 50, 500, None])]
            r = rng.random()
            if r < 0.25:
                c["kill"] = {"at": rng.choice([1, 17, 120, 300, 301, rng.randrange(1, 3000), rng.randrange(1, 250_000)]),
                             "kind": "reset"}
            elif r < 0.3:
                c["kill"] = {"step": rng.randrange(2, 120), "kind": rng.choice(["reset", "eof"])}
        conns.append(c)
    faults = {"short_read": 0, "exec_fail": None}
    if faulty:
        faults["short_read"] = rng.choice([0, 2, 2, 4])
        if rng.random() < 0.12:
            faults["exec_fail"] = {"job": rng.choice(["_resolve_path_to_response", "_make_response", "_seek_and_read", "read"]),
                                   "nth": rng.randint(1, 4), "err": rng.choice(["OSError", "PermissionError"])}
    # drawn last (the scenarios above keep their shape): one request for a file with a name of boundary length
    if rng.random() < 0.12:
        c = rng.choice(conns)
        c["reqs"].insert(rng.randrange(len(c["reqs"]) + 1), gen_edge_req(rng, chunk))
    # drawn after everything else: one conditional request with a malformed / partly well-formed entity-tag list
    if rng.random() < 0.12:
        c = rng.choice(conns)
        c["reqs"].insert(rng.randrange(len(c["reqs"]) + 1), gen_badtag_req(rng, chunk))
    return {"cfg": cfg, "conns": conns, "faults": faults, "meta": {"mode": mode, "faulty": faulty}}


def _enum_pack(cfg, reqs, label, per=8):
    for i in range(0, len(reqs), per):
        conns = [{"reqs": [r], "start": 0, "pol_c2s": "whole", "pol_s2c": "whole", "rd_pause": None, "kill": None, "writes": 1}
                 for r in reqs[i:i + per]]
        yield {"cfg": dict(cfg), "conns": conns, "faults": {"short_read": 0, "exec_fail": None},
               "meta": {"mode": "enum:" + label, "faulty": False}}


def enumerate_cases(tier, seed):
    base_cfg = {"follow": False, "show_index": False, "chunk": 16, "sendfile": "unsupported", "lat": 0, "cancel": False}
    # 1. traversal grammar
    for follow in (False, True):
        cfg = dict(base_cfg, follow=follow)
        reqs = []
        for goal in OUTSIDE_GOALS:
            for dd in DOTDOT:
                for sep in SEPS:
                    reqs.append(mkreq(spell(goal, dd, sep), cat="trav:" + goal))
        for goal in sorted(GOALS):
            if goal in OUTSIDE_GOALS:
                continue
            for dd in DOTDOT:
                reqs.append(mkreq(spell(goal, dd, "/"), cat="trav:" + goal))
            for sep in SEPS[1:]:
                reqs.append(mkreq(spell(goal, "..", sep), cat="trav:" + goal))
        for goal in ("outside_secret", "plain_file", "inside_detour", "sibling_dir_rootx"):
            for p in PREFIXES:
                for dd in ("..", "%2e%2e"):
                    reqs.append(mkreq(spell(goal, dd, "/", p), cat="trav:" + goal))
            for tail in NAME_MUT[1:]:
                reqs.append(mkreq(spell(goal, "..", "/", "/static/", tail), cat="trav:" + goal))
                reqs.append(mkreq(spell(goal, "..", "%2f", "/static/", tail), cat="trav:" + goal))
        yield from _enum_pack(cfg, reqs, "trav")
    # directories / special names x show_index x follow; siblings x Accept-Encoding
    for follow in (False, True):
        for show in (False, True):
            cfg = dict(base_cfg, follow=follow, show_index=show)
            reqs = [mkreq(PREFIX + "/" + n, (), m, plain=n, cat="misc") for n in OTHER_PLAIN for m in ("GET", "HEAD")]
            reqs += [mkreq(PREFIX, (), "GET", cat="trav:root_dir")]
            for goal in ("dir", "dir_slash", "root_dir", "root_dotdot_dir", "outside_dir", "sym_out_dir"):
                for dd in ("..", "%2e%2e", "%252e%252e"):
                    for sep in ("/", "%2f"):
                        reqs.append(mkreq(spell(goal, dd, sep), cat="trav:" + goal))
            for n in ("doc.txt", "page.html", "style.css", "in.txt", "in_link.txt", "out_link.txt", "doc.txt.gz"):
                for ae in (None, "gzip", "br", "gzip, br", "GZIP", "identity"):
                    for rg in (None, "bytes=1-5", "bytes=-3"):
                        h = ([["Accept-Encoding", ae]] if ae else []) + ([["Range", rg]] if rg else [])
                        reqs.append(mkreq(PREFIX + "/" + n, h, plain=n, cat="misc"))
            # names of boundary length (NAME_MAX-4 .. NAME_MAX) x Accept-Encoding x Range
            for n in sorted(EDGE):
                for ae in (None, "gzip", "br", "gzip, br", "GZIP", "identity"):
                    for rg in (None, "bytes=1-5", "bytes=-3"):
                        h = ([["Accept-Encoding", ae]] if ae else []) + ([["Range", rg]] if rg else [])
                        reqs.append(mkreq(PREFIX + "/" + n, h, plain=n, cat="edge"))
            yield from _enum_pack(cfg, reqs, "dirs")
    # 2. range lattice
    chunks = (3, 16) if tier == "quick" else (1, 3, 16, 64)
    for chunk in chunks:
        for sendfile in ("unsupported", "emulate"):
            cfg = dict(base_cfg, chunk=chunk, sendfile=sendfile)
            reqs = []
            names = {"empty.bin", "one.bin", "two.bin", "in.txt"} | {n for n, a in AIM.items() if a.startswith("root/") and abs(FILES[a][0] - chunk) <= 1}
            for name in sorted(names):
                aim = AIM[name]
                size = FILES[aim][0]
                e, lm = etag_of(aim), lm_of(aim)
                for spec in range_specs(size, chunk) + MALFORMED_RANGES:
                    reqs.append(mkreq(PREFIX + "/" + name, [["Range", spec]], plain=name, cat="range"))
                if sendfile == "unsupported":
                    for spec in ("bytes=0-0", "bytes=1-", "bytes=-1", f"bytes={size}-", "bytes=-0", "bytes=abc", "items=0-1"):
                        for ir in if_range_forms(e, lm)[1:]:
                            reqs.append(mkreq(PREFIX + "/" + name, [["Range", spec], ["If-Range", ir]], plain=name, cat="range"))
                    reqs.append(mkreq(PREFIX + "/" + name, [["Range", "bytes=0-0"]], "HEAD", plain=name, cat="range"))
                    reqs.append(mkreq(PREFIX + "/" + name, [["If-Range", f'"{e}"']], plain=name, cat="range"))
            yield from _enum_pack(cfg, reqs, "range")
    # 3. conditional product
    cfg = dict(base_cfg)
    reqs = []
    for name in ("in.txt", "f17.bin"):       # integral and fractional mtime
        aim = AIM[name]
        e, lm = etag_of(aim), lm_of(aim)
        for im in etag_forms(e):
            for ius in date_forms(lm):
                for inm in etag_forms(e):
                    for ims in date_forms(lm):
                        for rg in (None, "bytes=1-2"):
                            if name != "in.txt" and (im not in (None, "*") or inm not in (None, f'"{e}"')):
                                continue
                            h = [[k, v] for k, v in (("If-Match", im), ("If-Unmodified-Since", ius), ("If-None-Match", inm),
                                                     ("If-Modified-Since", ims), ("Range", rg)) if v is not None]
                            reqs.append(mkreq(PREFIX + "/" + name, h, plain=name, cat="cond"))
    yield from _enum_pack(cfg, reqs, "cond")
    # 4. present but malformed / partly well-formed entity-tag lists x the date conditional of the same step x Range
    reqs = []
    for name in ("in.txt", "f17.bin"):
        aim = AIM[name]
        e, lm = etag_of(aim), lm_of(aim)
        forms = bad_etag_forms(e)
        for k, dk in (("If-Match", "If-Unmodified-Since"), ("If-None-Match", "If-Modified-Since")):
            for tv in forms if name == "in.txt" else forms[:4] + forms[-5:]:
                for dv in date_forms(lm)[:4]:
                    for rg in (None, "bytes=1-2"):
                        h = [[k, tv]] + ([[dk, dv]] if dv else []) + ([["Range", rg]] if rg else [])
                        reqs.append(mkreq(PREFIX + "/" + name, h, plain=name, cat="badtag"))
        for tv in forms[:3] + forms[-5:-3]:
            for other in (None, f'"{e}"', '"nomatch"'):
                # the malformed field in one position, a well-formed one (or none) in the other, both dates
                for k, ok_ in (("If-Match", "If-None-Match"), ("If-None-Match", "If-Match")):
                    h = [[k, tv]] + ([[ok_, other]] if other else []) + [["If-Unmodified-Since", R.http_date(lm)],
                                                                        ["If-Modified-Since", R.http_date(lm)]]
                    reqs.append(mkreq(PREFIX + "/" + name, h, plain=name, cat="badtag"))
            reqs.append(mkreq(PREFIX + "/" + name, [["If-Match", tv], ["Range", "bytes=0-0"], ["If-Range", f'"{e}"']], plain=name, cat="badtag"))
            reqs.append(mkreq(PREFIX + "/" + name, [["If-None-Match", tv], ["If-Modified-Since", R.http_date(lm + 1)]], "HEAD", plain=name, cat="badtag"))
    aim = AIM["in.txt"]
    e, lm = etag_of(aim), lm_of(aim)
    for k, dk in (("If-Match", "If-Unmodified-Since"), ("If-None-Match", "If-Modified-Since")):
        for tv in empty_elem_forms(e):
            for dv in (None, R.http_date(lm - 1), R.http_date(lm)):
                for rg in (None, "bytes=1-2"):
                    h = [[k, tv]] + ([[dk, dv]] if dv else []) + ([["Range", rg]] if rg else [])
                    reqs.append(mkreq(PREFIX + "/in.txt", h, plain="in.txt", cat="badtag"))
    yield from _enum_pack(cfg, reqs, "badtag")


def shrink(scn):
    conns = scn["conns"]
    if len(conns) > 1:
        for i in range(len(conns)):
            yield dict(scn, conns=conns[:i] + conns[i + 1:])
    for i, c in enumerate(conns):
        def with_c(**kw):
            return dict(scn, conns=conns[:i] + [dict(c, **kw)] + conns[i + 1:])
        if len(c["reqs"]) > 1:
            for j in range(len(c["reqs"])):
                yield with_c(reqs=c["reqs"][:j] + c["reqs"][j + 1:])
        if c["kill"] is not None:
            yield with_c(kill=None)
        if c["rd_pause"] is not None:
            yield with_c(rd_pause=None)
        for k in ("pol_c2s", "pol_s2c"):
            if c[k] != "whole":
                yield with_c(**{k: "whole"})
        if c["writes"] != 1:
            yield with_c(writes=1)
        if c["start"]:
            yield with_c(start=0)
        for j, r in enumerate(c["reqs"]):
            for k in range(len(r["h"])):
                r2 = dict(r, h=r["h"][:k] + r["h"][k + 1:])
                yield with_c(reqs=c["reqs"][:j] + [r2] + c["reqs"][j + 1:])
            if r["m"] != "GET":
                yield with_c(reqs=c["reqs"][:j] + [dict(r, m="GET")] + c["reqs"][j + 1:])
            if r["cat"] == "badtag":
                # a simpler malformed value: only the first list element that is not a well-formed tag, then "junk"
                for k, (hk, hv) in enumerate(r["h"]):
                    if hk not in ("If-Match", "If-None-Match") or not isinstance(R.scan_etag_field(hv), tuple):
                        continue
                    parts = [x.strip() for x in hv.split(",")]
                    alts = [x for x in parts if x and R.scan_etag_field(x) == ([], True)][:1] + ["junk"]
                    for nv in alts:
                        if nv != hv and len(nv) < len(hv):
                            r2 = dict(r, h=r["h"][:k] + [[hk, nv]] + r["h"][k + 1:])
                            yield with_c(reqs=c["reqs"][:j] + [r2] + c["reqs"][j + 1:])
            if r["cat"] == "edge" and r["plain"] in EDGE:
                # an ordinary name first, then the next shorter boundary name (same headers)
                alts = ["f17.bin"] + [n for n in sorted(EDGE) if len(n) == len(r["plain"]) - 1]
                for n in alts:
                    r2 = dict(r, t=PREFIX + "/" + n, plain=n, cat="edge" if n in EDGE else "misc")
                    yield with_c(reqs=c["reqs"][:j] + [r2] + c["reqs"][j + 1:])
        if c["kill"] is not None:
            kk = c["kill"]
            for key in ("step", "at"):
                if key in kk and kk[key] > 1:
                    for nv in sorted({kk[key] // 2, kk[key] - 1}):
                        if nv >= 1:
                            yield with_c(kill=dict(kk, **{key: nv}))
    f = scn["faults"]
    if f["short_read"]:
        yield dict(scn, faults=dict(f, short_read=0))
    if f["exec_fail"]:
        yield dict(scn, faults=dict(f, exec_fail=None))
    cfg = scn["cfg"]
    for k, v in (("lat", 0), ("sendfile", "unsupported"), ("show_index", False), ("follow", False), ("cancel", False),
                 ("chunk", 262144), ("chunk", 16)):
        if cfg.get(k) != v:
            yield dict(scn, cfg=dict(cfg, **{k: v}))


# ---------------------------------------------------------------------------
# the file shim


class _FileShim:
    """Stands for the BufferedReader returned by Path.open('rb') inside the open
    job.  read(n) may return fewer bytes than asked (never zero before EOF)."""

    def __init__(self, real, rec, ctl):
        self._real = real
        self._rec = rec
        self._ctl = ctl

    def seek(self, *a):
        return self._real.seek(*a)

    def tell(self):
        return self._real.tell()

    def fileno(self):
        return self._real.fileno()

    @property
    def closed(self):
        return self._real.closed

    @property
    def name(self):
        return self._real.name

    def read(self, n=-1):
        ctl = self._ctl
        ctl["reads"] += 1
        if self._rec["closed"]:
            ctl["read_after_close"] += 1
        every = ctl["short_read"]
        if every and n is not None and n > 1 and ctl["ch"].draw("short_read", 0, every - 1) == 0:
            k = ctl["ch"].draw("short_len", 1, n - 1)
            data = self._real.read(k)
            if len(data) == k:
                ctl["loop"].faults["short_read"] += 1
            return data
        return self._real.read(n)

    def close(self):
        self._rec["closed"] = True
        self._real.close()

    def __del__(self):
        self._rec["collected"] = True
        try:
            self._real.close()
        except Exception:
            pass


def _install_executor_wrap(loop, ctl):
    orig = loop.run_in_executor

    def run_in_executor(executor, func, *args):
        name = getattr(func, "__name__", "")
        ctl["jobs"][name] = ctl["jobs"].get(name, 0) + 1
        if name == "_make_response":
            holder = {"fut": None, "recs": []}

            def _make_response(*a):
                res = func(*a)
                if res[1] is not None:
                    # orphan: the awaiting handler was cancelled before the job's result could reach it
                    rec = {"closed": False, "collected": False,
                           "orphan": holder["fut"] is not None and holder["fut"].cancelled()}
                    ctl["files"].append(rec)
                    holder["recs"].append(rec)
                    res = (res[0], _FileShim(res[1], rec, ctl), res[2], res[3])
                return res
            _make_response.__qualname__ = getattr(func, "__qualname__", name)
            fut = orig(executor, _make_response, *args)
            holder["fut"] = fut

            def _mark(f):
                if f.cancelled():
                    for rec in holder["recs"]:
                        rec["orphan"] = True
            fut.add_done_callback(_mark)
            return fut
        return orig(executor, func, *args)

    loop.run_in_executor = run_in_executor
    ef = ctl["exec_fail"]
    if ef is not None:
        seen = {"n": 0}

        def hook(func, args):
            if getattr(func, "__name__", "") != ef["job"]:
                return None
            seen["n"] += 1
            if seen["n"] != ef["nth"]:
                return None
            loop.faults["exec_fail_" + ef["job"].strip("_")] += 1
            ctl["exec_failed"] = True
            return PermissionError(13, "injected") if ef["err"] == "PermissionError" else OSError(5, "injected I/O error")

        loop.exec_fail_hook = hook


# ---------------------------------------------------------------------------
# run


def _expand(s: str, base: str) -> str:
    return s.replace("{BASE_REL}", base.lstrip("/")).replace("{BASE}", base)


def _serialize(req, base) -> bytes:
    t = _expand(req["t"], base)
    lines = [f"{req['m']} {t} HTTP/1.1", "Host: h.test"]
    for k, v in req["h"]:
        lines.append(f"{k}: {v}")
    return enc("\r\n".join(lines) + "\r\n\r\n")


def _hget(headers, name):
    name = name.lower()
    for k, v in headers:
        if k.lower() == name:
            return v
    return None


def _is_regular_nofollow(p):
    try:
        return stat.S_ISREG(os.lstat(p).st_mode)
    except (OSError, ValueError):
        return False


def _kind(real):
    """dir | file | special | missing for a real path (never opens anything)."""
    try:
        st = os.stat(real)
    except (OSError, ValueError):
        return "missing"
    if stat.S_ISDIR(st.st_mode):
        return "dir"
    if stat.S_ISREG(st.st_mode):
        return "file"
    return "special"


def _entity_for(tr, real, accept_encoding):
    """(path, coding) of the representation the documentation promises for `real`."""
    ae = (accept_encoding or "").lower()
    for ext, coding in ((".br", "br"), (".gz", "gzip")):
        if coding in ae and _is_regular_nofollow(real + ext) and (real + ext) in tr.data:
            return real + ext, coding
    return real, None


def _where(tr, body):
    """Tree files of which `body` is a slice."""
    if not body:
        return []
    return sorted(tr.rel[p] for p, d in tr.data.items() if body in d)


def _parse_listing(body: bytes):
    import html
    import re
    txt = body.decode("utf-8", "replace")
    return [html.unescape(m).rstrip("/") for m in re.findall(r'<li><a href="[^"]*">([^<]*)</a></li>', txt)]


def run(scn, ch, log=False):
    from aiohttp import web, web_fileresponse

    viols = []

    def violate(inv, key, msg):
        if not any(v["invariant"] == inv and v["key"] == key for v in viols):
            viols.append({"invariant": inv, "key": key, "message": msg.replace(tr.base, "{BASE}")})

    tr = tree()
    cfg = scn["cfg"]
    probes = {}

    def probe(k, n=1):
        probes[k] = probes.get(k, 0) + n

    with World(ch, 0, log_events=log) as w:
        loop, net = w.loop, w.net
        net.max_latency_ticks = cfg["lat"]
        net.sendfile_mode = cfg["sendfile"]
        ctl = {"ch": ch, "loop": loop, "short_read": scn["faults"]["short_read"], "exec_fail": scn["faults"]["exec_fail"],
               "files": [], "reads": 0, "read_after_close": 0, "jobs": {}, "exec_failed": False}
        _install_executor_wrap(loop, ctl)
        if cfg["sendfile"] != "unsupported":
            net_sendfile = net.sendfile

            async def counted_sendfile(transport, file, offset, count):
                n = await net_sendfile(transport, file, offset, count)
                loop.faults["sendfile_emulated"] += 1
                return n
            net.sendfile = counted_sendfile

        app = web.Application()
        app.router.add_static(PREFIX, tr.root, break_symlink_sandbox=cfg["follow"], show_index=cfg["show_index"],
                              chunk_size=cfg["chunk"])

        async def start():
            runner = web.AppRunner(app, access_log=None, shutdown_timeout=1.0, handler_cancellation=bool(cfg.get("cancel")))
            await runner.setup()
            await web.TCPSite(runner, ADDR[0], ADDR[1]).start()
            return runner

        runner = loop.run_sim(start(), vt_cap=10).result()

        clients = []
        horizon = 12.0
        for ci, c in enumerate(scn["conns"]):
            data = b"".join(_serialize(r, tr.base) for r in c["reqs"])
            nw = max(1, min(c["writes"], len(data)))
            step = -(-len(data) // nw)
            pieces = [[c["start"] if i == 0 else 1, data[i:i + step]] for i in range(0, len(data), step)]
            cl = RawClient(loop, pieces, end="keep")
            ctr, str_ = net.connect_raw(ADDR, cl)
            ctr.out.policy = c["pol_c2s"]
            str_.out.policy = c["pol_s2c"]
            st = {"cl": cl, "ctr": ctr, "str": str_, "killed": False, "held_forever": False}
            kill = c["kill"]
            if kill is not None:
                if "at" in kill:
                    str_.out.kill_at, str_.out.kill_kind = kill["at"], "peer_reset"
                else:
                    def do_kill(ctr=ctr, kind=kill["kind"]):
                        if not ctr._closed:
                            loop.faults["kill_step_" + kind] += 1
                            net.kill(ctr, kind)
                    loop.at_step.setdefault(loop.steps + kill["step"], []).append(do_kill)
            if c["rd_pause"] is not None:
                t0, dur = c["rd_pause"]

                def hold(pipe=str_.out, dur=dur, st=st):
                    net.hold(pipe)
                    loop.faults["client_rd_pause"] += 1
                    if dur is None:
                        st["held_forever"] = True
                    else:
                        loop.sim_call_later(dur * 0.001, net.release, pipe)
                loop.sim_call_later((c["start"] + t0) * 0.001, hold)
                horizon += (t0 + (dur or 0)) * 0.001
            clients.append(st)

        def step_inv():
            if loop.exc_contexts:
                c0 = loop.exc_contexts[0]
                violate("loop_exception", f"{c0['exc_type']}@{c0.get('frame')}",
                        f"exception reached the event loop: {c0['message']} {c0['exc']} frame={c0.get('frame')}")

        loop.step_hooks.append(step_inv)
        # quiescence = no simulator event left (deliveries, executor jobs, scripted actions); only
        # asyncio timers (keep-alive) may remain.  The virtual horizon is a bound, not a schedule.
        loop.run_sim(None, vt_cap=loop.time() + 0.5, step_cap=300_000)
        while loop._sim_pending > 0 and loop.capped != "steps" and loop.time() < horizon + 60.0:
            loop.run_sim(None, vt_cap=loop.time() + 1.0, step_cap=300_000)
        step_capped = loop.capped == "steps" or loop._sim_pending > 0
        if step_capped:
            probe("step_capped")

        # ------------------------------------------------------------ judge
        relaxed = ctl["exec_failed"]
        judged = 0
        interesting = 0
        for ci, c in enumerate(scn["conns"]):
            st = clients[ci]
            cl, ctr, str_ = st["cl"], st["ctr"], st["str"]
            killed = c["kill"] is not None and (ctr._closed or cl.lost is not None)
            client_gone = ctr._closed or cl.lost is not None or cl.eof
            server_closed = str_._closed or str_._closing
            methods = [enc(r["m"]) for r in c["reqs"]]
            resps, rest = http1.split_responses(bytes(cl.received), methods=methods, closed=client_gone)
            if isinstance(rest, tuple) and rest[0] == "malformed":
                violate("well_formed_responses", "malformed_output",
                        f"connection {ci}: server output is not a sequence of responses: {rest}; head={bytes(cl.received[:160])!r}")
                continue
            finals = [r for r in resps if not r.get("interim")]
            for ri, resp in enumerate(finals):
                if ri >= len(c["reqs"]):
                    violate("well_formed_responses", "more_responses_than_requests", f"connection {ci}: {len(finals)} responses to {len(c['reqs'])} requests")
                    break
                req = c["reqs"][ri]
                cut_by_fault = not resp["complete"] and (killed or st["held_forever"] or step_capped or relaxed)
                n_int = _judge(tr, cfg, req, resp, cut_by_fault, relaxed, violate, probe)
                judged += 1
                interesting += n_int
                if resp["status"] == 400 and ri + 1 < len(c["reqs"]):
                    probe("unjudged_after_400", len(c["reqs"]) - ri - 1)
            if not killed and not st["held_forever"] and not step_capped and not relaxed and not client_gone and not server_closed:
                if len(finals) < len(c["reqs"]) or (finals and not finals[-1]["complete"]):
                    violate("complete_responses", "request_unanswered_at_quiescence",
                            f"connection {ci}: {len(c['reqs'])} requests, {len([r for r in finals if r['complete']])} complete responses, "
                            f"connection still open at quiescence; tail={bytes(cl.received[-80:])!r}")
            if killed:
                probe("conn_killed")
        for name, msg_, et, ex in net.fatal_errors:
            violate("loop_exception", f"fatal:{et}", f"fatal protocol error on {name}: {msg_} {ex}")
        # drain: keep-alive timers, pending close jobs; then shut down
        loop.run_sim(None, vt_cap=loop.time() + 80.0, step_cap=loop.steps + 100_000)
        t2 = loop.run_sim(runner.cleanup(), vt_cap=loop.time() + 200.0, step_cap=loop.steps + 100_000)
        if not t2.done():
            violate("cleanup_returns", "cleanup_blocked", "AppRunner.cleanup() did not return within 200 virtual seconds")
        loop.run_sim(None, vt_cap=loop.time() + 1.0, step_cap=loop.steps + 10_000)
        gc.collect()
        step_inv()
        open_left = [f for f in ctl["files"] if not f["closed"] and not f["collected"]]
        if open_left and not step_capped:
            violate("file_closed", "file_left_open",
                    f"{len(open_left)} of {len(ctl['files'])} opened file objects were neither closed nor released after the run "
                    f"(kills={sum(1 for s in clients if s['ctr']._closed)})")
        gc_only = [f for f in ctl["files"] if f["collected"] and not f["closed"]]
        if gc_only:
            # Circumstance decides the class: with handler_cancellation=True a disconnect cancels the handler; if that
            # happens while the stat+open executor job is in flight (or its result is not yet consumed) nobody owns
            # the file object it returns.  Without a cancelled handler an un-closed file is a different defect.
            n_orphan = sum(1 for f in gc_only if f["orphan"])
            if cfg.get("cancel") and any(s["ctr"]._closed for s in clients):
                violate("file_closed", "file_never_closed:handler_cancelled_during_open_job",
                        f"{len(gc_only)} of {len(ctl['files'])} opened file objects were never close()d, only garbage collection "
                        f"released them: the handler was cancelled (client disconnect, handler_cancellation=True) while the "
                        f"stat+open executor job was in flight or before its result was consumed "
                        f"({n_orphan} with the job's future already cancelled)")
            else:
                violate("file_closed", "file_never_closed:response_finished",
                        f"{len(gc_only)} of {len(ctl['files'])} opened file objects were never close()d, only garbage collection "
                        f"released them, although no handler was cancelled")
        if ctl["read_after_close"]:
            # a read job still queued when the (cancelled) response scheduled close(): harmless, its result is dropped
            probe("read_job_ran_after_close", ctl["read_after_close"])
        web_fileresponse._CLOSE_FUTURES.clear()
        stt = w.stats()
        for k, v in ctl["jobs"].items():
            probe("job_" + k.strip("_"), v)
        probe("files_opened", len(ctl["files"]))
        if ctl["reads"]:
            probe("file_reads", ctl["reads"])
        res = {
            "violations": viols, "nontrivial": interesting > 0, "sig": stt["sig"], "digest": stt["digest"],
            "steps": stt["steps"], "vtime": stt["vtime"], "faults": stt["faults"],
            "probes": {k: v for k, v in sorted(probes.items()) if v},
            "shape": f"{scn['meta']['mode']}-{len(scn['conns'])}c-{'F' if scn['meta']['faulty'] else 'N'}-"
                     f"{'fol' if cfg['follow'] else 'nof'}-{cfg['sendfile'][:3]}",
        }
        if log:
            res["event_log"] = loop.event_log
            res["debug"] = {"received": [bytes(s["cl"].received[:600]) for s in clients]}
        return res


def _judge(tr, cfg, req, resp, cut_by_fault, relaxed, violate, probe) -> int:
    """Judge one response.  Returns 1 if the response was a non-trivial decision."""
    status = resp["status"]
    headers = [(dec(k), dec(v)) for k, v in resp["headers"]]
    body = bytes(resp["body"])
    complete = resp["complete"]
    method = req["m"]
    follow = cfg["follow"]
    target = _expand(req["t"], tr.base)
    cat = req["cat"]
    goal = cat.split(":", 1)[1] if ":" in cat else cat
    fol = "follow" if follow else "nofollow"
    probe(f"status_{status}")
    rels = R.readings(target, PREFIX)
    cands = []
    for rel in rels:
        for p in R.candidates(tr.root, rel, follow):
            if p not in cands:
                cands.append(p)
    ctype = _hget(headers, "Content-Type") or ""
    ae = _hget(req["h"], "Accept-Encoding")
    interesting = 0

    if status in (200, 206):
        dir_cands = [p for p in cands if _kind(p) == "dir"]
        file_cands = [p for p in cands if _kind(p) == "file"]
        _prologue = b"<html>\n<head>\n<title>Index of"
        looks_listing = ctype.startswith("text/html") and (
            body.startswith(_prologue) or (not complete and 0 <= len(body) < len(_prologue) and dir_cands
                                           and _prologue.startswith(bytes(body))))
        if looks_listing or (method == "HEAD" and status == 200 and dir_cands and not file_cands):
            interesting = 1
            probe("listing")
            if not cfg["show_index"]:
                violate("listing_only_if_enabled", f"listing_with_show_index_off:{goal}", f"{method} {target!r}: directory listing although show_index=False")
                return 1
            if not dir_cands:
                violate("confinement", f"listing_of_unnamed_directory:{fol}:{goal}",
                        f"{method} {target!r}: directory listing but the target names no directory the route may show; body head={body[:120]!r}")
                return 1
            if method != "HEAD" and complete:
                names = _parse_listing(body)
                if not any(sorted(os.listdir(d)) == sorted(names) for d in dir_cands):
                    violate("confinement", f"listing_of_other_directory:{fol}:{goal}",
                            f"{method} {target!r}: listing shows {names[:12]} which is not the content of {dir_cands}")
            return 1
        # a file response
        if not file_cands:
            src = _where(tr, body)
            outside = [s for s in src if not s.startswith("root/")]
            if outside:
                violate("confinement", f"served_outside_root:{fol}:{goal}",
                        f"{method} {target!r} (break_symlink_sandbox={follow}) answered {status} with {len(body)} bytes of {outside}, "
                        f"a file the route must not serve for this target")
            elif src:
                violate("target_mapping", f"served_file_not_named_by_target:{fol}:{goal}",
                        f"{method} {target!r} answered {status} with {len(body)} bytes of {src}, which the target does not name (readings {rels})")
            else:
                violate("confinement", f"served_unknown_content:{fol}:{goal}",
                        f"{method} {target!r} answered {status} ({len(body)} bytes, head {body[:60]!r}) although the target names no servable file "
                        f"(readings {rels})")
            return 1
        ce = _hget(headers, "Content-Encoding")
        results = []
        for real in file_cands:
            ent, coding = _entity_for(tr, real, ae)
            data = tr.data[ent]
            size, lm, etag = tr.meta[ent]
            v = []
            if ce != coding:
                # which sibling did it take?
                src = _where(tr, body)
                outside = [s for s in src if not s.startswith("root/")]
                if outside and not follow:
                    v.append(("confinement", f"served_outside_root:{fol}:sibling:{goal}",
                              f"Content-Encoding {ce!r}: body is {len(body)} bytes of {outside}"))
                else:
                    v.append(("variant_selection", f"wrong_variant:{coding}_expected_{ce}_sent",
                              f"Accept-Encoding {ae!r}: the documented choice is {tr.rel[ent]} (Content-Encoding {coding!r}) "
                              f"but the response says Content-Encoding {ce!r}; body comes from {src[:3]}"))
            else:
                sent_etag = _hget(headers, "ETag")
                sent_lm = _hget(headers, "Last-Modified")
                if sent_etag is not None and sent_etag != f'"{etag}"' or sent_lm is not None and sent_lm != R.http_date(lm):
                    raise RuntimeError(f"harness assumption about validators broken: sent {sent_etag} {sent_lm}, assumed \"{etag}\" {R.http_date(lm)}")
                exp = R.evaluate(method, req["h"], size, lm, etag)
                v = R.check_response(exp, method, status, headers, body, complete, data, prefix_ok=cut_by_fault)
                if not v and not relaxed and not cut_by_fault and req["plain"] is None:
                    pass
            results.append(v)
        best = min(results, key=len)
        for inv, key, msg in best[:2]:
            violate(inv, key, f"{method} {target!r} {req['h']} -> {status} {dict((k, v) for k, v in headers if k.lower() in ('content-range', 'content-length', 'content-encoding'))}: {msg}")
        if body or status == 206:
            interesting = 1
        if status == 206:
            probe("partial_206")
        if ce:
            probe("precompressed_served")
        if not complete:
            probe("body_cut_by_fault")
        return interesting

    # ---- not a 2xx: judged strictly only for plain names
    if status in (304, 412, 416):
        interesting = 1
    if req["plain"] is None:
        if rels and status in (403, 404, 400):
            probe("traversal_refused")
            interesting = 1
        if status >= 500:
            probe("status_5xx_on_mutated_target")
        # a conditional / range error status is only meaningful if the target names a file
        if status in (304, 412, 416) and not any(_kind(p) == "file" for p in cands):
            violate("confinement", f"file_validators_leak:{fol}:{goal}",
                    f"{method} {target!r} answered {status}, which reveals the existence/validators of a file the target may not reach")
        return interesting
    if relaxed and status in (403, 404, 500):
        probe("error_after_exec_fail")
        return interesting
    kinds = [_kind(p) for p in cands]
    if "file" in kinds:
        real = cands[kinds.index("file")]
        ent, coding = _entity_for(tr, real, ae)
        size, lm, etag = tr.meta[ent]
        exp = R.evaluate(method, req["h"], size, lm, etag)
        v = R.check_response(exp, method, status, headers, body, complete, tr.data[ent], prefix_ok=cut_by_fault)
        for inv, key, msg in v[:2]:
            violate(inv, key, f"{method} {target!r} {req['h']} -> {status} "
                    f"{dict((k, v) for k, v in headers if k.lower() in ('content-range', 'content-length'))}: {msg}")
        sent_etag = _hget(headers, "ETag")
        if status == 304 and sent_etag is not None and sent_etag != f'"{etag}"':
            raise RuntimeError(f"harness assumption about validators broken: 304 with {sent_etag}, assumed \"{etag}\"")
        return interesting
    if "dir" in kinds:
        want = "200 listing" if cfg["show_index"] else "403"
        real_dir = cands[kinds.index("dir")]
        if cfg["show_index"] and follow and status == 500 and not R.is_inside(real_dir, tr.root):
            # break_symlink_sandbox + show_index on a directory symlink leading outside: aiohttp's listing code
            # raises ValueError (relative_to) -> 500.  A defect, but the property statement only forbids a listing
            # that was not enabled, so this is recorded as a probe and reported, not judged.
            probe("listing_500_for_outside_dir_symlink")
            return interesting
        if cfg["show_index"] or status != 403:
            violate("plain_status", f"status_{status}_instead_of_{'listing' if cfg['show_index'] else '403'}:{fol}:{_plain_class(req['plain'])}",
                    f"{method} {target!r} names a directory (show_index={cfg['show_index']}): expected {want}, got {status}")
        return interesting
    if "special" in kinds:
        if status not in (403, 404):
            violate("plain_status", f"status_{status}_for_special_file", f"{method} {target!r} names a non-regular file: expected 403/404, got {status}")
        return interesting
    if status != 404:
        violate("plain_status", f"status_{status}_instead_of_404:{fol}:{_plain_class(req['plain'])}",
                f"{method} {target!r} names nothing servable (candidates {cands}): expected 404, got {status}")
    return interesting


def _plain_class(name: str) -> str:
    return name.rstrip("/").replace("/", "_") or "root"


def oracle_selftest():
    R.oracle_selftest()
    # workload constants are consistent with the tree description
    for n, a in AIM.items():
        assert a in FILES, (n, a)
    assert content("root/in.txt", 200, 3)[:1] != content("outside/secret.txt", 200, 4)[:1]
    assert b"<outside/secret.txt#0>" in content("outside/secret.txt", 200, 4)
    assert len(content("x", 0, 1)) == 0 and len(content("x", 1, 1)) == 1 and len(content("x", 65, 1)) == 65
    assert lattice(0, 16) == [0, 1] and lattice(16, 16) == [0, 1, 15, 16, 17]
    assert "bytes=-" in range_specs(1, 16) and "bytes=0-0" in range_specs(1, 16) and "bytes=-1" in range_specs(1, 16)
    assert sorted(len(n) for n in EDGE) == [251, 252, 253, 254, 255] and all(EDGE[n] in FILES for n in EDGE)
    assert not any(n in AIM for n in EDGE) and FILES["root/in.txt"][2] == 13
    assert spell("outside_secret", "%2e%2e", "%2f") == "/static/%2e%2e%2foutside%2fsecret.txt"
