"""C13 - WebSocket sessions close cleanly in every interleaving (DESIGN.md 9, C13).

Worlds (one per run):
  CS  real ClientSession.ws_connect  <-SimNet->  real web.WebSocketResponse
  S   real web.WebSocketResponse     <-SimNet->  scripted raw RFC 6455 peer (upgrade by hand)
  C   real ClientSession.ws_connect  <-SimNet->  scripted raw server (computes Sec-WebSocket-Accept)

Every real session is driven by 1-3 application tasks (props/_ws13.actor) and
judged by the same rules; the wire oracle decodes what the session wrote with
the independent frame decoder of props/_ws13.
"""
from __future__ import annotations

import asyncio
import gc

from props import _ws13 as W
from sim.world import World

PROP = "C13"
LEVEL = "exploration"
DESIGN_REF = "9/C13"
BUDGET = {"quick": 60, "thorough": 900}
BATCH = 150
TECHNIQUE = ("deterministic simulation: real WebSocket client/server sessions on a virtual-time loop and in-memory "
             "network, scripted raw RFC 6455 peer, seeded application tasks / peer frames / cancel / reset / timers, "
             "independent frame decoder as wire oracle")
LEVEL_TEXT = (
    "Seeded exploration of interleavings of application calls (send/receive/close/ping from 1-3 tasks per side), peer "
    "frames, heartbeat/pong/receive/close timers, task cancellation and connection loss placed before arbitrary loop "
    "steps, in three worlds (both ends real; real server vs. raw peer; real client vs. raw peer). Liveness is judged as "
    "bounded progress after the fault list ends. Sampling plus a small set of directed cases, not proof."
)
LEVEL_NOTE = (
    "Trusted: props/_ws13.py (RFC 6455 frame codec with hand-checked vectors, raw peer), SimNet's TCP model, asyncio "
    "tasks/timeouts. Bounds: one connection per run, <=3 application tasks per side, <=8 ops per task, <=7 peer "
    "actions, timeouts 20 ms - 6 s virtual, no compression, payloads <=270 KB. 'Handler finished' is read from task "
    "objects. The close-time bound is not judged in runs where the peer stops reading (net.hold)."
)
RULE = (
    "Run = world x per-side config (autoclose, autoping, heartbeat, receive timeout, close timeout) x 1-3 actor programs "
    "per real side (receive / receive(timeout) / async-for / send_str / send_bytes / ping / close(code), optional "
    "try/finally close) x raw-peer script (data, ping, pong, fragments, close with/without code, protocol garbage, "
    "partial frame, TCP eof/reset/half-close) and its reactions (answer ping or not; close: echo / other code / late / "
    "never / drop TCP) x faults (reset/eof before loop step k or at byte k, cancel of an actor before step k, peer stops "
    "reading for a while; in 10 % of the runs the application's own side tears the connection down under the live session "
    "at a seeded time or step: ClientSession.close() / connector.close() from another task, ClientResponse.close(), "
    "protocol close()/abort(), server request.transport close()/abort() - half of those against a quiet session whose "
    "first task only receives, without heartbeat or receive timeout) x finale (kill, peer close, application close, none), segmentation, latency and timer/I-O "
    "tie-breaks from the tape; in 8 % of the runs one side has autoclose off and its first task, once handed the peer's "
    "CLOSE, lingers 12-500 ms before close() / returning / the next receive() while heartbeat and receive timers are "
    "armed; in 10 % of the runs with a real client its timeouts reach ws_connect() through another accepted spelling "
    "(ClientWSTimeout(ws_close) + receive_timeout=<float>, float timeout=, or no timeout= at all: the 10 s default), half of "
    "those with a long receive timeout, a raw peer that stalls on the close handshake and a task that calls close(). Non-trivial: a session was established AND at least two of {close() issued while a "
    "receive() was pending, the connection torn down from the session's own side (counted with kill), peer close frame delivered, peer close frame handed to the application with the session "
    "left open (autoclose off), kill fired, cancel fired inside a pending call, a timer "
    "(receive/close/pong) expired, protocol garbage delivered}. Distinct = interleaving signature."
)
COMPONENTS = {
    "real": ["aiohttp.web_ws.WebSocketResponse", "aiohttp.client_ws.ClientWebSocketResponse",
             "aiohttp._websocket.writer/reader_py (Python)", "web_protocol.RequestHandler", "client_proto.ResponseHandler",
             "ClientSession.ws_connect / TCPConnector", "web.Application/AppRunner/TCPSite", "asyncio tasks, timeouts"],
    "stub": ["network (SimNet)", "raw peer (props/_ws13.RawWSPeer) in worlds S and C", "DNS (SimResolver)", "TLS",
             "access log disabled", "per-message deflate not negotiated"],
}
ASSUMPTIONS = [
    "TCP stream semantics of SimNet (no loss/reorder inside a direction; a close is seen as EOF after bytes in flight)",
    "liveness is judged only after the scenario's fault list and peer script have ended, at loop quiescence or the "
    "virtual horizon (largest configured bound + margin)",
    "a receive() may stay pending only if nothing ended the session: not closed, connection alive, no peer close frame "
    "or protocol violation delivered, no receive timeout, no heartbeat",
    "a call still pending when the loop has nothing left to do at all (no ready callback, timer or simulator event) is "
    "pending forever and is judged at once; when the run stops at the virtual horizon with only later timers left, the "
    "elapsed time of a pending call is measured up to the horizon",
    "a connection closed or aborted from the session's own side (session/connector/response close, transport "
    "close/abort) is a connection loss like any other: receive() must end, and 1006 is an accepted close code",
    "receive timeout is judged per inbound-silence gap (receive() restarts its timer after an auto-answered ping)",
    "runs with a peer that stops reading are exempt from the close-time and transport-closed-in-time bounds",
    "close_code is judged strictly only when nothing abnormal happened (no kill, cancel, garbage, hold, peer TCP action, "
    "timeout race); after an abnormal event the peer's code and 1006 are both accepted when a peer close frame arrived",
    "a pong timeout, or a session that never sent a close frame (raw-peer worlds), excuses 1006 only until the peer's "
    "close frame has been handed to the application with the session left open (autoclose off) and nothing follows that "
    "frame on the wire: from then on the peer owes no pong and only the application's close() may end the session",
    "three SimNet gaps are worked around inside the run: a closing transport with unflushed output whose peer is gone, or "
    "that is killed with 'eof', never got connection_lost (props/c13.py finishes that close itself); a paused writer "
    "whose pipe was emptied by the reader's close never got resume_writing (props/c13.py calls it)",
]

ADDR = ("10.0.0.1", 80)
EPS = 1e-6

CLOSE_CODES = [1000, 1000, 1001, 1002, 1003, 1007, 1008, 1009, 1011, 1012, 3000, 4000, 4999, None]
DELAYS = [0, 0, 0, 1, 1, 2, 5, 10, 20, 50]


# ---------------------------------------------------------------------------
# scenario generation


def _gen_actor(rng, role):
    ops = []
    if role == "reader":
        r = rng.random()
        if r < 0.3:
            ops.append([rng.choice(DELAYS), "iter", None])
        else:
            for _ in range(rng.randint(1, 6)):
                if rng.random() < 0.25:
                    ops.append([rng.choice(DELAYS), "receive_t", rng.choice([5, 20, 50, 200])])
                else:
                    ops.append([rng.choice(DELAYS), "receive", None])
        if rng.random() < 0.4:
            ops.append([rng.choice(DELAYS), "close", rng.choice(CLOSE_CODES[:-1])])
    elif role == "closer":
        if rng.random() < 0.4:
            ops.append([rng.choice(DELAYS), rng.choice(["send_str", "ping"]), 3])
        ops.append([rng.choice(DELAYS + [30, 100]), "close", rng.choice(CLOSE_CODES[:-1])])
        if rng.random() < 0.3:
            ops.append([rng.choice(DELAYS), rng.choice(["send_str", "receive", "close", "ping"]), 1000])
    elif role == "sender":
        for _ in range(rng.randint(1, 5)):
            op = rng.choice(["send_str", "send_str", "send_bytes", "ping", "pong"])
            ops.append([rng.choice(DELAYS), op, rng.choice([0, 1, 5, 130, 300])])
        if rng.random() < 0.3:
            ops.append([rng.choice(DELAYS), "close", rng.choice(CLOSE_CODES[:-1])])
    else:  # mixed
        for _ in range(rng.randint(2, 7)):
            op = rng.choice(["receive", "receive", "receive_t", "send_str", "send_bytes", "ping", "close", "sleep"])
            arg = {"receive_t": rng.choice([5, 20, 50]), "close": rng.choice(CLOSE_CODES[:-1]),
                   "send_str": rng.choice([1, 200]), "send_bytes": rng.choice([1, 200])}.get(op)
            ops.append([rng.choice(DELAYS), op, arg])
    for o in ops:
        if o[1] == "receive_t" and not o[2]:
            o[2] = 20
    return {"ops": ops, "finally_close": rng.random() < 0.25, "role": role}


def _gen_side(rng, long_ok):
    ct = rng.choice([0.02, 0.05, 0.05, 0.2, 0.2, 1.0] + ([6.0] if long_ok else []))
    hb = rng.choice([None, None, None, 0.02, 0.05, 0.3] + ([6.0] if long_ok else []))
    nact = rng.choice([1, 1, 2, 2, 2, 3])
    roles = ["reader" if rng.random() < 0.8 else "mixed"]
    for _ in range(nact - 1):
        roles.append(rng.choice(["closer", "closer", "sender", "mixed", "reader" if rng.random() < 0.15 else "sender"]))
    return {
        "close_timeout": ct, "receive_timeout": rng.choice([None, None, None, 0.03, 0.1, 0.5]),
        "autoclose": rng.random() < 0.7, "autoping": rng.random() < 0.75, "heartbeat": hb,
        "actors": [_gen_actor(rng, r) for r in roles], "join": rng.random() < 0.85,
        "handler_cancellation": rng.random() < 0.2, "writer_limit": 65536,
    }


def _gen_peer(rng):
    script = []
    n = rng.choice([0, 1, 1, 2, 3, 4, 6])
    garbage = rng.random() < 0.12
    for i in range(n):
        k = rng.choice(["text", "text", "binary", "ping", "ping", "pong", "frag", "close", "close"])
        arg = None
        if k in ("text", "binary"):
            arg = rng.choice([0, 1, 5, 125, 126, 300])
        elif k == "close":
            arg = rng.choice(CLOSE_CODES)
        script.append([rng.choice(DELAYS), k, arg])
    if garbage:
        script.insert(rng.randint(0, len(script)), [rng.choice(DELAYS), "garbage", rng.choice(sorted(W.GARBAGE))])
    r = rng.random()
    if r < 0.06:
        script.append([rng.choice(DELAYS), "partial", None])
    elif r < 0.16:
        script.append([rng.choice(DELAYS), rng.choice(["tcp_eof", "tcp_reset", "half_close"]), None])
    return {
        "script": script, "answer_ping": rng.random() < 0.7,
        "answer_close": rng.choice(["echo", "echo", "echo", "other", "delay", "never", "never", "drop"]),
        "other_code": rng.choice([1001, 3001, 4001]), "close_delay": rng.choice([1, 10, 30, 100, 400]),
        "tcp_after_close": rng.choice(["close", "close", "keep"]), "early": rng.random() < 0.15,
    }


def gen(rng, tier, index):
    world = rng.choice(["CS", "CS", "S", "S", "S", "C", "C", "C"])
    long_ok = rng.random() < 0.06
    scn = {"world": world, "lat": rng.choice([0, 0, 1, 3]),
           "pol_c2s": rng.choice(["whole", "whole", "whole", "byte", "tiny", "mixed"]),
           "pol_s2c": rng.choice(["whole", "whole", "whole", "byte", "tiny", "mixed"])}
    if world in ("CS", "S"):
        scn["srv"] = _gen_side(rng, long_ok)
    if world in ("CS", "C"):
        scn["cli"] = _gen_side(rng, long_ok)
    if world != "CS":
        scn["peer"] = _gen_peer(rng)
    faults = []
    if rng.random() < 0.3:
        faults.append({"kind": "kill", "end": rng.choice(["c", "s"]), "how": rng.choice(["reset", "eof"]),
                       "at": rng.randint(1, rng.choice([40, 260]))})
    elif rng.random() < 0.1:
        faults.append({"kind": "kill_byte", "dir": rng.choice(["c2s", "s2c"]), "how": rng.choice(["reset", "eof"]),
                       "at": rng.randint(1, 400)})
    if rng.random() < 0.4:
        for _ in range(rng.choice([1, 1, 2])):
            sides = [s for s in ("srv", "cli") if s in scn]
            sd = rng.choice(sides)
            faults.append({"kind": "cancel", "side": sd, "actor": rng.randrange(len(scn[sd]["actors"])),
                           "at": rng.randint(1, rng.choice([40, 260]))})
    if rng.random() < 0.12:
        faults.append({"kind": "hold", "dir": rng.choice(["c2s", "s2c"]), "t0": rng.choice([0, 2, 10]),
                       "dur": rng.choice([20, 100, 400])})
        # bulk data through byte-sized segments would only stretch the run: whole-buffer deliveries here
        scn["pol_c2s"] = scn["pol_s2c"] = "whole"
        for sd in ("srv", "cli"):
            if sd in scn:
                scn[sd]["writer_limit"] = 64
                acts = scn[sd]["actors"]
                # the server's writer drains above writer_limit, the client's above its fixed 256 KiB
                big = 70000 if sd == "srv" else 270000
                acts[-1]["ops"].insert(0, [rng.choice([0, 3, 12]), "send_bytes", big])
                if len(acts) > 1 and rng.random() < 0.6:
                    # a second task blocked in drain at the same time (shared drain waiter)
                    acts[0]["ops"].insert(0, [rng.choice([0, 3, 12, 15]), rng.choice(["send_bytes", "send_str"]),
                                              5000 if sd == "srv" else 270000])
    scn["faults"] = faults
    whats = ["kill_reset", "kill_eof", "peer_close", "app_close_srv", "app_close_cli", "none"]
    scn["finale"] = {"t": rng.choice([30, 80, 150, 300]), "what": rng.choice(whats),
                     "end": rng.choice(["c", "s"])}
    # drawn last so that every other scenario keeps the shape it had before this feature existed
    if rng.random() < 0.08:
        _slow_close_reply(rng, scn)
    if rng.random() < 0.10:
        _local_teardown(rng, scn)
    if rng.random() < 0.10 and "cli" in scn:
        _timeout_api(rng, scn)
    return scn


LINGER = [12, 25, 40, 60, 100, 200, 500]


def _slow_close_reply(rng, scn):
    """The application is handed the peer's CLOSE with autoclose off and takes its time (clean-up work) before it
    answers with its own close() / returns from the handler / calls receive() again: the session sits in the closing
    state, with whatever timers it has armed, for 12-500 ms while the peer - which owes nothing after its close frame -
    stays silent."""
    real = [s for s in ("srv", "cli") if s in scn]
    sd = rng.choice(real)
    s = scn[sd]
    s["autoclose"] = False
    s["heartbeat"] = rng.choice([0.02, 0.02, 0.05, 0.05, 0.3, None])
    s["receive_timeout"] = rng.choice([None, None, None, 0.03, 0.1])
    ops = [[0, "iter", None]] if rng.random() < 0.3 else [[0, "receive", None] for _ in range(rng.randint(1, 3))]
    linger = rng.choice(LINGER)
    how = rng.choice(["close", "close", "return", "receive"])
    if how == "close":
        ops.append([linger, "close", rng.choice(CLOSE_CODES[:-1])])
    elif how == "return":
        ops.append([linger, "sleep", None])  # the handler / task just ends: the implicit close of write_eof (server)
    else:
        ops.append([linger, "receive", None])
    first = {"ops": ops, "finally_close": rng.random() < 0.2, "role": "slow_close_reply"}
    keep = s["actors"][1:] if rng.random() < 0.35 else []
    if keep and rng.random() < 0.5:
        # the other tasks only send: they do not take the close() away from the lingering task
        keep = [dict(a, ops=[o for o in a["ops"] if o[1] in ("send_str", "send_bytes", "ping", "pong")] or [[5, "ping", 3]],
                     finally_close=False) for a in keep]
    s["actors"] = [first] + keep
    when = rng.choice([1, 5, 10, 20])
    code = rng.choice(CLOSE_CODES)
    if "peer" in scn:
        p = scn["peer"]
        p["script"] = [a for a in p["script"] if a[1] not in ("tcp_eof", "tcp_reset", "half_close", "partial")][:3]
        if not any(a[1] == "close" for a in p["script"]):
            p["script"].append([when, "close", code])
    else:
        other = scn["cli" if sd == "srv" else "srv"]
        other["close_timeout"] = rng.choice([1.0, 1.0, other["close_timeout"]])
        if not any(o[1] == "close" for a in other["actors"] for o in a["ops"]):
            other["actors"] = other["actors"][:2] + [{"ops": [[when, "close", code or 1000]], "finally_close": False,
                                                       "role": "closer"}]
    if rng.random() < 0.6:
        scn["faults"] = []
    if rng.random() < 0.6:
        scn["finale"]["what"] = "none"


# ways in which an application hands the close / receive timeouts to ClientSession.ws_connect()
#   ws_timeout  timeout=ClientWSTimeout(ws_receive=..., ws_close=...)                       (every other run)
#   recv_kw     timeout=ClientWSTimeout(ws_close=...), receive_timeout=<float>              (older keyword, still accepted)
#   float       timeout=<float close timeout>, receive_timeout=<float> if there is one       (older forms, still accepted)
#   default     no timeout= at all: the documented default close timeout of 10 s; receive_timeout=<float> if there is one
TIMEOUT_API = ["ws_timeout", "recv_kw", "float", "default"]
DEFAULT_CLIENT_CLOSE_TIMEOUT = 10.0  # documented default of ws_connect (ClientWSTimeout(ws_close=10.0))


def _timeout_api(rng, scn):
    """The client session gets its timeouts through one of the other accepted spellings of ws_connect()'s arguments.
    The configured bounds are the same whatever the spelling, and every rule is judged against them.  Half of the
    time the run is steered towards the timers actually being needed: a receive timeout that is set but long, a raw
    peer that stalls on the close handshake with the connection kept open, and a task that calls close()."""
    c = scn["cli"]
    api = rng.choice(["recv_kw", "recv_kw", "float", "float", "default"])
    c["timeout_api"] = api
    if api == "default":
        c["close_timeout"] = DEFAULT_CLIENT_CLOSE_TIMEOUT
        if c["heartbeat"] is not None and c["heartbeat"] < 0.3:
            c["heartbeat"] = 0.3  # ten virtual seconds of 20 ms heartbeats would only stretch the run
    if rng.random() < 0.5:
        return
    if c["receive_timeout"] is None or c["receive_timeout"] < 0.1:
        c["receive_timeout"] = rng.choice([None, 0.1, 0.5, 0.5, 0.5])
    if not any(o[1] == "close" for a in c["actors"] for o in a["ops"]):
        c["actors"] = c["actors"][:2] + [{"ops": [[rng.choice([0, 1, 5, 20, 50]), "close", rng.choice(CLOSE_CODES[:-1])]],
                                          "finally_close": False, "role": "closer"}]
    if "peer" in scn:
        p = scn["peer"]
        p["script"] = [a for a in p["script"] if a[1] in ("text", "binary", "ping", "pong", "frag")][:3]
        p["answer_close"] = rng.choice(["never", "never", "delay"])
        p["close_delay"] = rng.choice([p["close_delay"], 400])
    if rng.random() < 0.6:
        scn["faults"] = []
    if rng.random() < 0.6:
        scn["finale"]["what"] = "none"


# ways in which the application's own side tears the connection down under a live session (not through ws.close())
TEARDOWN = {
    "cli": ["session_close", "session_close", "connector_close", "response_close", "proto_close", "proto_abort"],
    "srv": ["transport_close", "transport_abort"],
}


def _local_teardown(rng, scn):
    """Connection loss that starts on OUR side: while the session is live another actor of the application closes the
    ClientSession / the connector / the response, or closes / aborts the transport (client: through the connection's
    protocol, server: request.transport).  Half of the time the torn-down side is made quiet - no heartbeat, no receive
    timeout, a silent peer, a first task that only receives - so that nothing but the loss itself can wake receive()."""
    real = [s for s in ("cli", "cli", "srv") if s in scn]
    sd = rng.choice(real)
    s = scn[sd]
    f = {"kind": "teardown", "side": sd, "how": rng.choice(TEARDOWN[sd])}
    if rng.random() < 0.7:
        f["t"] = rng.choice([0, 1, 3, 10, 30, 80, 200])
    else:
        f["at"] = rng.randint(1, rng.choice([40, 260]))
    if rng.random() < 0.5:
        s["heartbeat"] = None
        s["receive_timeout"] = None
        first = s["actors"][0]
        first["ops"] = [[0, "iter", None]] if rng.random() < 0.3 else [[rng.choice([0, 0, 1]), "receive", None]
                                                                         for _ in range(rng.randint(1, 3))]
        first["finally_close"] = rng.random() < 0.2
        if rng.random() < 0.6:
            s["actors"] = s["actors"][:1]
        if "peer" in scn:
            p = scn["peer"]
            p["script"] = [a for a in p["script"] if a[1] in ("text", "binary", "pong", "frag")][:2]
        else:
            other = scn["cli" if sd == "srv" else "srv"]
            other["heartbeat"] = None
            other["actors"] = [{"ops": [[0, "iter", None]], "finally_close": False, "role": "reader"}]
        scn["faults"] = []
        if rng.random() < 0.7:
            scn["finale"]["what"] = "none"
    scn["faults"] = scn["faults"] + [f]


def _case(world, srv=None, cli=None, peer=None, faults=(), finale=("none", 200), lat=0):
    def side(d):
        base = {"close_timeout": 0.05, "receive_timeout": None, "autoclose": True, "autoping": True, "heartbeat": None,
                "actors": [], "join": True, "handler_cancellation": False, "writer_limit": 65536}
        base.update(d)
        base["actors"] = [{"ops": [list(o) for o in a], "finally_close": False, "role": "case"} for a in base["actors"]]
        return base
    scn = {"world": world, "lat": lat, "pol_c2s": "whole", "pol_s2c": "whole", "faults": [dict(f) for f in faults],
           "finale": {"t": finale[1], "what": finale[0], "end": "c"}}
    if srv is not None:
        scn["srv"] = side(srv)
    if cli is not None:
        scn["cli"] = side(cli)
    if world != "CS":
        p = {"script": [], "answer_ping": True, "answer_close": "echo", "other_code": 4001, "close_delay": 10,
             "tcp_after_close": "close", "early": False}
        p.update(peer or {})
        p["script"] = [list(a) for a in p["script"]]
        scn["peer"] = p
    return scn


def enumerate_cases(tier, seed):
    """Directed cases: the named races of the property record, in each world where they apply."""
    rd = [[0, "receive", None], [0, "receive", None]]
    idle = {"actors": [[[0, "iter", None]]]}
    for api in TIMEOUT_API[1:]:
        for rt in (None, 0.5):
            for answer in ("never", "delay", "echo"):
                # each accepted spelling of ws_connect()'s timeout arguments, with and without a receive timeout,
                # against a peer that never / late / promptly answers the close frame and keeps the connection open:
                # close() alone, close() from a second task during a blocked receive(), close() from `finally`
                cfg = {"timeout_api": api, "receive_timeout": rt, "close_timeout": 0.05}
                pc = {"answer_close": answer, "close_delay": 400, "tcp_after_close": "keep"}
                yield _case("C", cli=dict(cfg, actors=[[[3, "close", 1000]]]), peer=pc)
                yield _case("C", cli=dict(cfg, actors=[rd, [[3, "close", 1001]]]), peer=pc)
                yield _case("C", cli=dict(cfg, actors=[[[3, "send_str", 5], [2, "close", 4000]]]),
                            peer=dict(pc, script=[[1, "text", 3]]))
        yield _case("CS", cli={"timeout_api": api, "receive_timeout": 0.5, "actors": [rd, [[3, "close", 1000]]]},
                    srv={"autoclose": False, "actors": [[[0, "receive", None], [0, "receive", None], [300, "sleep", None]]]})
    for real, world in (("cli", "C"), ("srv", "S")):
        for how in sorted(set(TEARDOWN[real])):
            for t in (1, 20):
                # the application's own side tears the connection down under the session: a task blocked in
                # receive() / async-for (no timer of its own), a second task in close(), a sender, an idle session
                td = [{"kind": "teardown", "side": real, "how": how, "t": t}]
                yield _case(world, **{real: {"actors": [rd]}}, faults=td)
                yield _case(world, **{real: {"actors": [[[0, "iter", None]]]}}, peer={"script": [[0, "text", 3]]}, faults=td)
                yield _case(world, **{real: {"actors": [rd, [[t, "close", 1000]]]}}, peer={"answer_close": "never"}, faults=td)
                yield _case(world, **{real: {"actors": [[[t + 5, "receive", None]], [[t, "send_str", 5]]]}}, faults=td)
            if world == "C":
                yield _case("CS", cli={"actors": [rd]}, srv=idle, faults=[{"kind": "teardown", "side": "cli", "how": how, "t": 5}])
            else:
                yield _case("CS", srv={"actors": [rd]}, cli=idle, faults=[{"kind": "teardown", "side": "srv", "how": how, "t": 5}])
    for real, world in (("cli", "C"), ("srv", "S")):
        for hb in (0.02, 0.05):
            for off in (-3, -2, -1, 0):
                for lat in (1, 3):
                    for kind in ("text", "ping", "pong"):
                        # one peer frame delivered around the instant the first heartbeat becomes due (the tape orders
                        # the delivery and the timer when they coincide), then a silent peer: the pong timeout must
                        # still end the session
                        yield _case(world, **{real: {"heartbeat": hb, "actors": [rd]}}, lat=lat, finale=("none", 150),
                                    peer={"answer_ping": False, "script": [[int(hb * 1000) + off, kind, 2]]})
    for real, world in (("srv", "S"), ("cli", "C")):
        def mk(d, **kw):
            return _case(world, **{real: d}, **kw)
        for d in (0, 1, 5):
            for code in (1000, 4000):
                for answer in ("echo", "other", "never", "delay", "drop"):
                    # close() from a second task while receive() is blocked; every peer reaction
                    yield mk({"actors": [rd, [[d, "close", code]]]}, peer={"answer_close": answer})
                    yield mk({"actors": [rd, [[d, "close", code]], [[d, "close", 1001]]]}, peer={"answer_close": answer})
        for ac in (True, False):
            for code in (1000, 1001, 4000, None):
                # peer-initiated close, with and without autoclose, application closes afterwards or not
                yield mk({"autoclose": ac, "actors": [rd + [[0, "close", 1000]]]}, peer={"script": [[5, "close", code]]})
                yield mk({"autoclose": ac, "actors": [[[0, "iter", None]]]}, peer={"script": [[5, "close", code]]})
                # our close crossing the peer's close
                yield mk({"autoclose": ac, "actors": [rd, [[5, "close", 1001]]]}, peer={"script": [[5, "close", code]]})
        for hb in (0.02, 0.05, None):
            for linger in (10, 35, 90, 200):
                for code in (1000, 4000):
                    # autoclose off: the application is handed the peer's CLOSE and answers after `linger` ms of its
                    # own work (close() / handler returns / receive() again) while the heartbeat of the session is armed
                    pc = {"script": [[5, "close", code]], "tcp_after_close": "keep" if code == 1000 else "close"}
                    yield mk({"autoclose": False, "heartbeat": hb, "actors": [rd[:1] + [[linger, "close", 1000]]]}, peer=pc)
                    yield mk({"autoclose": False, "heartbeat": hb, "actors": [rd[:1] + [[linger, "sleep", None]]]}, peer=pc)
                    yield mk({"autoclose": False, "heartbeat": hb, "actors": [[[0, "iter", None], [linger, "receive", None]]]}, peer=pc)
                    yield mk({"autoclose": False, "heartbeat": hb, "actors": [rd[:1] + [[linger, "close", 1000]], [[8, "ping", 3]]]},
                             peer=dict(pc, answer_ping=False))
        for hb in (0.02, 0.3):
            for ap in (True, False):
                # heartbeat against a peer that answers / never answers pings
                yield mk({"heartbeat": hb, "actors": [rd]}, peer={"answer_ping": ap}, finale=("none", 100))
                yield mk({"heartbeat": hb, "actors": [[[0, "sleep", None]]]}, peer={"answer_ping": ap}, finale=("none", 100))
                yield mk({"heartbeat": hb, "actors": [rd, [[25, "close", 1000]]]}, peer={"answer_ping": ap, "answer_close": "never"})
        other_end = "c" if real == "srv" else "s"
        variants = (
            # close() from a second task during a blocked receive(); close() that waits for the reply itself;
            # peer-initiated close
            ({"actors": [rd, [[3, "close", 1000]]]}, {"answer_close": "delay", "close_delay": 10}),
            ({"actors": [[[3, "close", 1000], [0, "receive", None]]]}, {"answer_close": "delay", "close_delay": 10}),
            ({"actors": [rd]}, {"script": [[3, "close", 1001]], "tcp_after_close": "keep"}),
        )
        for k in range(1, 31):
            # connection lost before step k / an application task cancelled before step k of the close handshake
            for sdcfg, pcfg in variants:
                yield mk(sdcfg, peer=pcfg, faults=[{"kind": "kill", "end": other_end, "how": "reset" if k % 2 else "eof", "at": k}])
                for a in range(len(sdcfg["actors"])):
                    yield mk(sdcfg, peer=pcfg, faults=[{"kind": "cancel", "side": real, "actor": a, "at": k}])
        for k in range(1, 26):
            # two tasks blocked in drain behind a peer that stopped reading; one of them is cancelled
            big = 70000 if real == "srv" else 270000
            yield mk({"writer_limit": 64, "actors": [[[2, "send_bytes", big], [0, "send_str", 5]], [[1, "send_bytes", big]],
                                                     [[2, "send_bytes", big]]]},
                     faults=[{"kind": "hold", "dir": "s2c" if real == "srv" else "c2s", "t0": 0, "dur": 50},
                             {"kind": "cancel", "side": real, "actor": 1, "at": k}], finale=("peer_close", 120))
        for g in sorted(W.GARBAGE):
            yield mk({"actors": [rd]}, peer={"script": [[3, "garbage", g]]})
            yield mk({"actors": [[[10, "receive", None]], [[1, "close", 1000]]]}, peer={"script": [[3, "garbage", g]]})
        for d in (1, 5, 10, 20):
            for code in (1000, 4999, None):
                # close() from two tasks at the same instant as the peer's close, a third task in receive()
                yield mk({"actors": [[[0, "receive_t", 50]], [[d, "close", 1011]], [[d, "close", 1009]]]},
                         peer={"script": [[d, "close", code]]})
                yield mk({"autoclose": False, "actors": [[[0, "receive", None]], [[d, "close", 1011]], [[d, "close", 1009]]]},
                         peer={"script": [[d, "close", code]], "tcp_after_close": "keep"})
        # a peer that answers pings but never the close and sends one more frame after our close frame:
        # inbound data re-arms the heartbeat of the closed session
        yield mk({"close_timeout": 0.05, "heartbeat": 0.02, "actors": [[[5, "close", 1000]]]},
                 peer={"answer_close": "never", "script": [[10, "text", 1]]})
        yield mk({"close_timeout": 0.05, "heartbeat": 0.02, "actors": [rd, [[5, "close", 1000]]]},
                 peer={"answer_close": "never", "script": [[10, "text", 1]]})
        # a peer that keeps talking while we close (the close timeout must still hold)
        yield mk({"close_timeout": 0.05, "actors": [[[5, "close", 1000]]]},
                 peer={"answer_close": "never", "script": [[20, "text", 3]] * 7})
        yield mk({"receive_timeout": 0.03, "actors": [rd + rd]}, peer={"script": [[50, "text", 1]]}, finale=("peer_close", 150))
        yield mk({"actors": [[[0, "receive_t", 20], [0, "close", 1000]]]}, peer={"script": [[40, "close", 1000]]})
        # receive() times out, the peer's close arrives, the application closes afterwards
        yield mk({"actors": [[[0, "receive_t", 5], [30, "close", 1000]]]}, peer={"script": [[10, "close", 3000]]})
    for hb in (0.02, 0.05):
        for linger in (35, 90):
            # both ends real: one closes and waits up to 1 s for the reply, the other (autoclose off, heartbeat) answers late
            slow = {"autoclose": False, "heartbeat": hb, "actors": [rd[:1] + [[linger, "close", 1000]]]}
            fast = {"close_timeout": 1.0, "actors": [[[5, "close", 4000]]]}
            yield _case("CS", srv=slow, cli=fast)
            yield _case("CS", cli=slow, srv=fast)
    for d in (0, 1, 5):
        for ac in (True, False):
            yield _case("CS", srv={"autoclose": ac, "actors": [rd, [[d, "close", 4000]]]}, cli=dict(idle, autoclose=ac))
            yield _case("CS", cli={"autoclose": ac, "actors": [rd, [[d, "close", 4000]]]}, srv=dict(idle, autoclose=ac))
            yield _case("CS", cli={"autoclose": ac, "actors": [rd, [[d, "close", 4000]]]},
                        srv={"autoclose": ac, "actors": [rd, [[d, "close", 4001]]]})


ENUM_RULE = ("directed cases: each accepted spelling of ws_connect()'s timeout arguments (ClientWSTimeout + "
             "receive_timeout=, float timeout=, defaults) x receive timeout x peer that never / late / promptly answers the "
             "close frame; each way of tearing the connection down from the application's own side (session / "
             "connector / response close, transport close / abort) x {blocked receive(), async-for, close() in progress, "
             "sender}; a peer frame delivered around the instant the heartbeat is due, then silence; close() from a second task during a blocked receive() x peer reaction; peer-initiated and "
             "crossing closes x autoclose; autoclose off x heartbeat x 10-200 ms between the peer's CLOSE and the "
             "application's close()/return/receive(); heartbeat vs. (un)answered pings; reset/eof/cancel before each of ~30 steps "
             "around a close handshake; each garbage class; chatty peer during close; receive timeouts")
ENUM_SHARE = 0.25


def shrink(scn):
    if scn["faults"]:
        for i in range(len(scn["faults"])):
            yield dict(scn, faults=scn["faults"][:i] + scn["faults"][i + 1:])
        for i, f in enumerate(scn["faults"]):
            if f["kind"] == "teardown" and (f.get("at") is not None or f.get("t", 0) > 1):
                # a step-placed or late teardown: try it at a fixed early time
                nf = {"kind": "teardown", "side": f["side"], "how": f["how"], "t": 1}
                yield dict(scn, faults=scn["faults"][:i] + [nf] + scn["faults"][i + 1:])
    if scn["finale"]["what"] != "none":
        yield dict(scn, finale=dict(scn["finale"], what="none"))
    for k in ("pol_c2s", "pol_s2c"):
        if scn[k] != "whole":
            yield dict(scn, **{k: "whole"})
    if scn["lat"]:
        yield dict(scn, lat=0)
    for sd in ("srv", "cli"):
        if sd not in scn:
            continue
        s = scn[sd]
        acts = s["actors"]
        if len(acts) > 1:
            for i in range(len(acts)):
                # faults that name an actor index beyond the removed one are dropped with it
                fl = [f for f in scn["faults"] if not (f["kind"] == "cancel" and f["side"] == sd and f["actor"] >= i)]
                yield dict(scn, faults=fl, **{sd: dict(s, actors=acts[:i] + acts[i + 1:])})
        for i, a in enumerate(acts):
            if a.get("finally_close"):
                yield dict(scn, **{sd: dict(s, actors=acts[:i] + [dict(a, finally_close=False)] + acts[i + 1:])})
            ops = a["ops"]
            if len(ops) > 1:
                for j in range(len(ops)):
                    na = dict(a, ops=ops[:j] + ops[j + 1:])
                    yield dict(scn, **{sd: dict(s, actors=acts[:i] + [na] + acts[i + 1:])})
            for j, o in enumerate(ops):
                if o[0]:
                    na = dict(a, ops=ops[:j] + [[0, o[1], o[2]]] + ops[j + 1:])
                    yield dict(scn, **{sd: dict(s, actors=acts[:i] + [na] + acts[i + 1:])})
                if o[0] > 20:
                    # a long pause between two calls (lingering before close()): try half of it
                    na = dict(a, ops=ops[:j] + [[o[0] // 2, o[1], o[2]]] + ops[j + 1:])
                    yield dict(scn, **{sd: dict(s, actors=acts[:i] + [na] + acts[i + 1:])})
        if s.get("timeout_api", "ws_timeout") != "ws_timeout":
            # the plain spelling of the timeouts; from the 10 s default to an explicit short close timeout
            yield dict(scn, **{sd: {k: v for k, v in s.items() if k != "timeout_api"}})
            if s["timeout_api"] == "default":
                yield dict(scn, **{sd: dict(s, timeout_api="float", close_timeout=0.05)})
        for k, v in (("heartbeat", None), ("receive_timeout", None), ("autoclose", True), ("autoping", True),
                     ("join", True), ("handler_cancellation", False), ("close_timeout", 0.05)):
            if s.get(k) != v:
                yield dict(scn, **{sd: dict(s, **{k: v})})
    if "peer" in scn:
        p = scn["peer"]
        sc = p["script"]
        for i in range(len(sc)):
            yield dict(scn, peer=dict(p, script=sc[:i] + sc[i + 1:]))
        for i, a in enumerate(sc):
            if a[0]:
                yield dict(scn, peer=dict(p, script=sc[:i] + [[0, a[1], a[2]]] + sc[i + 1:]))
        for k, v in (("early", False), ("answer_ping", True), ("answer_close", "echo"), ("tcp_after_close", "close")):
            if p.get(k) != v:
                yield dict(scn, peer=dict(p, **{k: v}))


def oracle_selftest():
    W.selftest()


# ---------------------------------------------------------------------------
# one run


def _cancelled_in_close_wait(sd):
    """a close() of this side got its CancelledError at an await of close() itself (web_ws: `await self._close_wait`)"""
    return any(c.op == "close" and c.out == "cancel" and c.detail == ("web_ws.py", "close") for c in sd.calls)


def _fmt_call(c):
    end = "pending" if c.t1 is None else f"{c.out}:{c.detail} after {c.t1 - c.t0:.4f}s"
    return f"{c.side}/task{c.actor} {c.op}({c.arg}) at t={c.t0:.4f}: {end}"


def run(scn, ch, log=False):
    import aiohttp
    from aiohttp import web
    from sim.net import SimResolver

    viols = []
    seen = set()

    def violate(inv, key, msg):
        if (inv, key) not in seen:
            seen.add((inv, key))
            viols.append({"invariant": inv, "key": key, "message": msg})

    world = scn["world"]
    probes = {}

    def probe(name):
        probes[name] = 1

    with World(ch, 0, log_events=log) as w:
        loop, net = w.loop, w.net
        net.max_latency_ticks = scn["lat"]
        net.default_policy = "whole"
        wire = []

        def wire_log(tr, kind, data):
            wire.append((loop.time(), loop.steps, tr.name, kind, data))

        net.wire_log = wire_log
        conns = []

        def on_connect(ctr, str_):
            conns.append((ctr, str_))

        net.on_connect = on_connect

        def kill(tr, kind):
            # SimNet.kill(tr, "eof") on a transport that is already closing with unflushed output clears the
            # buffer but never finishes the close (no connection_lost): finish it here (local work-around)
            if kind == "eof" and tr._closing and not tr._closed:
                tr.out.buf.clear()
                tr._finish_close(None)
            else:
                type(net).kill(net, tr, kind)

        net.kill = kill
        sim_deliver = net._deliver

        def deliver(pipe):
            # SimNet drops bytes sent to a reader that is already closed but then never completes a close()
            # of the *writer* that was waiting for its buffer to flush (no connection_lost, drain waiters hang).
            # A real kernel answers RST and the transport is torn down: finish the close here (local work-around).
            src, dst = pipe.src, pipe.dst
            dead = dst._closed or dst._closing
            sim_deliver(pipe)
            if dead and src._closing and not src._closed:
                src._finish_close(None)

        net._deliver = deliver
        sides = {}
        srv = cli = peer = runner = None
        hold_run = any(f["kind"] == "hold" for f in scn["faults"])
        est = {"t": None}

        def established():
            # every real session is up: the handshake is over, faults are armed relative to this point
            est["n"] = est.get("n", 0) + 1
            if est["t"] is None and est["n"] >= (2 if world == "CS" else 1):
                est["t"] = loop.time()
                loop.note("session_up", "")
                loop.stop()

        def start_actors(side):
            progs = side.cfg["actors"]
            for i, prog in enumerate(progs):
                if side.name == "srv" and i == 0:
                    continue  # actor 0 of the server is the handler itself
                t = loop.create_task(W.actor(side, i, prog), name=f"{side.name}-actor{i}")
                side.tasks.append((i, t))

        # ---- server side
        if world in ("CS", "S"):
            srv = sides["srv"] = W.Side("srv", scn["srv"], loop)
            scfg = scn["srv"]

            class WS(web.WebSocketResponse):
                async def write_eof(self):
                    # the implicit close() after the handler has returned: observed, not changed
                    c = W.Call("srv", -1, "close", "implicit", loop.time(), loop.steps, bool(self.closed),
                               asyncio.current_task())
                    srv.calls.append(c)
                    srv.inflight += 1
                    try:
                        await super().write_eof()
                        c.out = "ret"
                    except asyncio.CancelledError as e:
                        c.out = "cancel"
                        c.detail = W._aiohttp_frame(e)
                        raise
                    except BaseException as e:
                        c.out = "exc"
                        c.detail = (type(e).__name__, W._aiohttp_frame(e), str(e)[:120], tuple(t.__name__ for t in type(e).__mro__))
                        raise
                    finally:
                        c.t1, c.s1 = loop.time(), loop.steps
                        srv.inflight -= 1

            async def handler(request):
                ws = WS(timeout=scfg["close_timeout"], receive_timeout=scfg["receive_timeout"],
                        autoclose=scfg["autoclose"], autoping=scfg["autoping"], heartbeat=scfg["heartbeat"],
                        compress=False, writer_limit=scfg["writer_limit"])
                srv.handler_task = asyncio.current_task()
                srv.conn_task = request.task
                await ws.prepare(request)
                srv.ws = ws
                srv.tr = request.transport
                if hold_run and srv.tr is not None:
                    srv.tr.set_write_buffer_limits(high=4096)
                srv.tasks.append((0, srv.handler_task))
                established()
                start_actors(srv)
                try:
                    await W.actor(srv, 0, scfg["actors"][0])
                finally:
                    others = [t for i, t in srv.tasks if i != 0]
                    if scfg["join"] and others:
                        await asyncio.wait(others)
                return ws

            async def start_server():
                app = web.Application()
                app.router.add_get("/ws", handler)
                r = web.AppRunner(app, access_log=None, shutdown_timeout=0.5,
                                  handler_cancellation=scfg["handler_cancellation"])
                await r.setup()
                await web.TCPSite(r, ADDR[0], ADDR[1]).start()
                return r

            runner = loop.run_sim(start_server(), vt_cap=10).result()

        # ---- peer / client side
        if world == "C":
            peers = []

            def peer_factory():
                peers.append(W.RawWSPeer(loop, "server", scn["peer"], scn["peer"]["script"]))
                return peers[-1]

            net.listen(peer_factory, ADDR[0], ADDR[1])
        if world in ("CS", "C"):
            ccfg = scn["cli"]
            api = ccfg.get("timeout_api", "ws_timeout")
            if api == "default":
                # no timeout= argument: the documented default close timeout is the configured bound
                ccfg = dict(ccfg, close_timeout=DEFAULT_CLIENT_CLOSE_TIMEOUT)
            cli = sides["cli"] = W.Side("cli", ccfg, loop)
            rt_, ct_ = ccfg["receive_timeout"], ccfg["close_timeout"]
            if api == "ws_timeout":
                tkw = {"timeout": aiohttp.ClientWSTimeout(ws_receive=rt_, ws_close=ct_)}
            elif api == "recv_kw":
                tkw = {"timeout": aiohttp.ClientWSTimeout(ws_close=ct_), "receive_timeout": rt_}
            elif api == "float":
                tkw = {"timeout": ct_}
            elif api == "default":
                tkw = {}
            else:
                raise AssertionError("unknown timeout_api " + api)
            if api in ("float", "default") and rt_ is not None:
                tkw["receive_timeout"] = rt_
            probe("timeout_api_" + api)
            net.dns["h.test"] = [ADDR[0]]

            async def client_main():
                conn = aiohttp.TCPConnector(resolver=SimResolver(net))
                session = cli.session = aiohttp.ClientSession(connector=conn)
                try:
                    ws = await session.ws_connect(
                        "http://h.test/ws", **tkw,
                        autoclose=ccfg["autoclose"], autoping=ccfg["autoping"], heartbeat=ccfg["heartbeat"], compress=0)
                except Exception as e:
                    cli.connect_error = e
                    return
                cli.ws = ws
                cli.tr = ws._response.connection.transport
                cli.proto = ws._response.connection.protocol
                if hold_run and cli.tr is not None:
                    cli.tr.set_write_buffer_limits(high=4096)
                established()
                start_actors(cli)
                if cli.tasks:
                    await asyncio.wait([t for _, t in cli.tasks])

            cli.main_task = loop.create_task(client_main(), name="cli-main")
        else:
            peer = W.RawWSPeer(loop, "client", scn["peer"], scn["peer"]["script"])
            net.connect_raw(ADDR, peer)

        # ---- phase 1: the HTTP upgrade, undisturbed; stops when every real session is up
        loop.run_sim(None, vt_cap=loop.time() + 5.0, step_cap=loop.steps + 5_000)
        if world == "C" and peers:
            peer = peers[-1]
        base_step = loop.steps
        base_t = loop.time()
        if conns:
            conns[-1][0].out.policy = scn["pol_c2s"]
            conns[-1][1].out.policy = scn["pol_s2c"]

        def tr_of(end):
            if not conns:
                return None
            return conns[-1][0] if end == "c" else conns[-1][1]

        # ---- faults
        cancelled_tasks = set()
        teardown_tasks = []

        def pending_call_of(task):
            for sd in sides.values():
                for c in sd.calls:
                    if c.t1 is None and c.task is task:
                        return c
            return None

        for f in scn["faults"]:
            kind = f["kind"]
            if kind == "kill":
                def do_kill(f=f):
                    tr = tr_of(f["end"])
                    if tr is not None and not tr._closed:
                        loop.faults["kill_step_" + f["how"]] += 1
                        loop.note("fault", f"kill:{f['end']}:{f['how']}")
                        net.kill(tr, f["how"])
                loop.at_step.setdefault(base_step + f["at"], []).append(do_kill)
            elif kind == "cancel":
                def do_cancel(f=f):
                    sd = sides.get(f["side"])
                    if sd is None:
                        return
                    t = next((t for i, t in sd.tasks if i == f["actor"]), None)
                    if t is not None and not t.done():
                        c = pending_call_of(t)
                        loop.faults["cancel"] += 1
                        sd.cancelled = True
                        cancelled_tasks.add(t)
                        if c is not None:
                            loop.faults["cancel_in_" + c.op] += 1
                            probe("cancel_in_" + c.op)
                        loop.note("fault", f"cancel:{f['side']}:{f['actor']}")
                        t.cancel()
                loop.at_step.setdefault(base_step + f["at"], []).append(do_cancel)
            elif kind == "hold":
                def do_hold(f=f):
                    tr = tr_of("c" if f["dir"] == "c2s" else "s")
                    if tr is None or tr._closed:
                        return
                    loop.faults["hold"] += 1
                    loop.note("fault", "hold:" + f["dir"])
                    net.hold(tr.out)
                    loop.sim_call_later(f["dur"] * W.TICK, net.release, tr.out)
                loop.sim_call_later(f["t0"] * W.TICK, do_hold)
            elif kind == "teardown":
                def do_teardown(f=f):
                    sd = sides.get(f["side"])
                    if sd is None or sd.ws is None or sd.tr is None or sd.tr._closed:
                        return
                    how = f["how"]
                    loop.faults["teardown_" + how] += 1
                    loop.note("fault", f"teardown:{f['side']}:{how}")
                    if any(c.t1 is None and c.op in ("receive", "receive_t", "iter") for c in sd.calls):
                        probe("teardown_during_receive")
                    if how == "session_close":
                        teardown_tasks.append((how, loop.create_task(sd.session.close(), name="cli-teardown")))
                    elif how == "connector_close":
                        teardown_tasks.append((how, loop.create_task(sd.session.connector.close(), name="cli-teardown")))
                    elif how == "response_close":
                        sd.ws._response.close()
                    elif how == "proto_close":
                        sd.proto.close()
                    elif how == "proto_abort":
                        sd.proto.abort()
                    elif how == "transport_close":
                        sd.tr.close()
                    elif how == "transport_abort":
                        sd.tr.abort()
                    else:
                        raise AssertionError("unknown teardown " + how)
                if f.get("at") is not None:
                    loop.at_step.setdefault(base_step + f["at"], []).append(do_teardown)
                else:
                    loop.sim_call_later(f["t"] * W.TICK, do_teardown)
        kill_byte = [f for f in scn["faults"] if f["kind"] == "kill_byte"]
        if kill_byte and conns:
            f = kill_byte[0]
            p = conns[-1][0].out if f["dir"] == "c2s" else conns[-1][1].out
            p.kill_at, p.kill_kind = p.delivered + f["at"], f["how"]

        fin = scn["finale"]

        def do_finale():
            what = fin["what"]
            loop.note("finale", what)
            if what in ("kill_reset", "kill_eof"):
                tr = tr_of(fin["end"])
                if tr is not None and not tr._closed:
                    loop.faults["finale_" + what] += 1
                    net.kill(tr, what[5:])
                return
            target = None
            if what == "app_close_srv":
                target = srv if srv is not None else "peer"
            elif what == "app_close_cli":
                target = cli if cli is not None else "peer"
            elif what == "peer_close":
                target = "peer" if peer is not None else (cli if fin["end"] == "c" else srv)
            if target == "peer":
                if peer is not None and peer.open:
                    loop.faults["finale_peer_close"] += 1
                    peer.send_close(1000, "finale_close")
            elif target is not None and target.ws is not None:
                loop.faults["finale_app_close"] += 1
                t = loop.create_task(W.do_op(target, 9, "close", 1001), name=f"{target.name}-finale")
                target.tasks.append((9, t))

        loop.sim_call_later(fin["t"] * W.TICK, do_finale)

        # ---- per-step invariants (cheap)
        state = {"exc_n": 0}
        side_list = list(sides.values())

        def step_inv():
            ex = loop.exc_contexts
            if len(ex) > state["exc_n"]:
                for c in ex[state["exc_n"]:]:
                    violate("loop_exception", f"{c['exc_type']}@{c.get('frame')}:{c['message'][:40]}",
                            f"exception reached the event loop at step {c['step']}: {c['message']} {c['exc']} frame={c.get('frame')}")
                state["exc_n"] = len(ex)
            for tr in conns[-1] if conns else ():
                # SimNet gap: when the reading end closes, the pipe towards it is emptied without telling the
                # writer; asyncio's contract is resume_writing() once the buffer is below the low-water mark
                if tr._write_paused and not tr._closed and len(tr.out.buf) <= tr._low:
                    tr._maybe_resume_protocol()
            for sd in side_list:
                ws = sd.ws
                if ws is not None and sd.inflight == 0 and ws.closed:
                    tr = sd.tr
                    if tr is not None and not tr._closing and not tr._closed and not hold_run and sd.name not in state:
                        state[sd.name] = 1  # reported once
                        violate("transport_closed", f"{sd.name}:closed_session_open_transport"
                                + (":after_cancelled_close" if _cancelled_in_close_wait(sd) else ""),
                                f"{sd.name} session reports closed (close_code={ws.close_code}) and no close()/receive() "
                                f"call is in progress, but its transport is still open at t={loop.time():.4f} step {loop.steps}; "
                                f"calls: {[_fmt_call(c) for c in sd.calls[-6:]]}")

        loop.step_hooks.append(step_inv)

        # ---- run: faults flow until the finale; then the bounded-progress window
        bound = 0.0
        for sd in side_list:
            hb = sd.heartbeat or 0.0
            rt = max([sd.receive_timeout or 0.0] + [o[2] * W.TICK for a in sd.cfg["actors"] for o in a["ops"] if o[1] == "receive_t"])
            bound = max(bound, 2 * sd.close_timeout + 2 * rt + 1.5 * hb + (2.0 if hb > 5 else 0.0))
        if peer is not None:
            bound += scn["peer"]["close_delay"] * W.TICK
        span = 0.0
        for sd in side_list:
            rto = sd.receive_timeout or 0.0
            for a in sd.cfg["actors"]:
                tot = 0.0
                for d, op, arg in a["ops"]:
                    tot += d * W.TICK
                    if op in ("receive", "iter"):
                        tot += (rto + sd.close_timeout) if rto else 0.0
                    elif op == "receive_t":
                        tot += arg * W.TICK + sd.close_timeout
                    elif op == "close":
                        tot += sd.close_timeout
                span = max(span, tot + sd.close_timeout)
        if peer is not None:
            span = max(span, sum(a[0] for a in scn["peer"]["script"]) * W.TICK)
        holds = sum((f["t0"] + f["dur"]) * W.TICK for f in scn["faults"] if f["kind"] == "hold")
        horizon = base_t + max(fin["t"] * W.TICK, holds) + span + bound + 0.5
        loop.run_sim(None, vt_cap=horizon, step_cap=base_step + 40_000)
        step_capped = loop.capped == "steps"
        # nothing at all is left to do - no ready callback, no timer, no simulator event: whatever is pending now
        # stays pending forever, however short the virtual time that has passed
        quiescent = bool(loop.idle)
        # stopped by the virtual-time cap: the next timer lies beyond the horizon, nothing happens until then, and
        # the clock (which only moves when an event fires) is taken to stand at the horizon
        now = max(loop.time(), horizon) if loop.capped == "vtime" else loop.time()
        gc.collect()
        step_inv()

        # ------------------------------------------------------------- judge
        any_session = False
        allflags = set()

        def wire_of(trname, kind):
            recs = [(t, d) for (t, _s, nm, k, d) in wire if nm == trname and k == kind]
            stream = b"".join(d for _, d in recs)
            return recs, stream

        def time_of(recs, off):
            """virtual time at which stream offset `off` (exclusive end) was written/delivered"""
            acc = 0
            for t, d in recs:
                acc += len(d)
                if acc >= off:
                    return t
            return None

        # a teardown from our own side is a connection loss like a kill: an abnormal end for the close-code rule
        kills_fired = any(k.startswith(("kill_", "finale_kill", "teardown_")) for k in loop.faults)
        if len(conns) > 1:
            probe("reconnected")  # ws_connect retried on a new connection: objects of two sessions, not judged
        for sd in side_list:
            ws, tr = sd.ws, sd.tr
            if ws is None or tr is None or len(conns) > 1:
                continue
            any_session = True
            flags = set()
            name = sd.name
            is_client = name == "cli"
            # ---- what this session wrote
            wrecs, wstream = wire_of(tr.name, "w")
            head, rest = W.split_head(wstream)
            out = W.decode_all(rest if head is not None else b"")
            if out.violation is not None:
                violate("wire_frames", f"{name}:malformed_output:{out.violation}",
                        f"{name} wrote bytes that are not a valid frame sequence: {out.violation} at offset {out.violation_at}; "
                        f"frames before: {out.frames[-5:]}")
            closes = [f for f in out.frames if f.opcode == W.OP_CLOSE]
            if len(closes) > 1:
                violate("wire_one_close", f"{name}:second_close_frame",
                        f"{name} sent {len(closes)} close frames (codes {[f.close_code for f in closes]}); "
                        f"calls: {[_fmt_call(c) for c in sd.calls]}")
            if closes:
                after = [f for f in out.frames if f.start >= closes[0].end and f.opcode in (W.OP_TEXT, W.OP_BINARY, W.OP_CONT)]
                if after:
                    violate("wire_no_data_after_close", f"{name}:data_frame_after_close",
                            f"{name} sent {after[0]!r} after its close frame (code {closes[0].close_code}); "
                            f"calls: {[_fmt_call(c) for c in sd.calls]}")
            bad_mask = [f for f in out.frames if f.masked != is_client]
            if bad_mask:
                violate("wire_frames", f"{name}:masking", f"{name} sent {bad_mask[0]!r} masked={bad_mask[0].masked}")
            t_our_close = time_of(wrecs, len(head) + closes[0].end) if closes and head is not None else None
            # when the last byte of our close frame reached the other end: close() sends the frame first (and, with the
            # transport write-paused by earlier output, waits for it to drain - the latitude hold runs already have)
            # and waits for the reply under its timeout afterwards; the send is over by then at the latest
            precs, _ps = wire_of(tr.peer.name, "r") if tr.peer is not None else ([], b"")
            t_our_close_arrived = time_of(precs, len(head) + closes[0].end) if closes and head is not None else None

            def send_allowance(c):
                if t_our_close is None or t_our_close_arrived is None or not (c.t0 - EPS <= t_our_close <= (c.t1 if c.t1 is not None else now)):
                    return 0.0  # the frame was not written by this call
                return max(0.0, t_our_close_arrived - c.t0)
            # ---- what was delivered to this session
            rrecs, rstream = wire_of(tr.name, "r")
            rhead, rrest = W.split_head(rstream)
            inp = W.decode_all(rrest if rhead is not None else b"")
            rx_times = [t for t, _ in rrecs]
            pclose = next((f for f in inp.frames if f.opcode == W.OP_CLOSE), None)
            t_pclose = time_of(rrecs, len(rhead) + pclose.end) if pclose is not None else None
            garbage = inp.violation is not None or inp.grey is not None
            if pclose is not None:
                flags.add("peer_close_delivered")
            if garbage:
                flags.add("garbage_delivered")
            lost = tr._conn_lost_called
            closed = bool(ws.closed)
            # ---- pending / overlong calls
            causes = []
            if closed:
                causes.append("session_closed")
            if lost:
                causes.append("connection_lost")
            if pclose is not None:
                causes.append("peer_close_delivered")
            if inp.violation is not None:
                causes.append("peer_protocol_error")
            for c in sd.calls:
                if c.op in ("receive", "receive_t", "iter"):
                    since = [t for t in rx_times if t > c.t0]
                    if c.t1 is None and closed and since and now - since[-1] <= sd.close_timeout and not step_capped \
                            and now - c.t0 > 2 * sd.close_timeout + (sd.receive_timeout or 0.0):
                        # the session is closed, receive() is inside its own close() (CLOSING state / autoclose), and
                        # frames keep arriving at intervals shorter than the close timeout
                        violate("close_time_bound", f"{name}:close_exceeds_timeout:inbound_frames_during_close",
                                f"{_fmt_call(c)} is running the closing handshake and is still pending at t={now:.4f}, "
                                f"{now - c.t0:.4f}s after the call; close timeout is {sd.close_timeout}s; {len(since)} inbound "
                                f"deliveries since the call, the last {now - since[-1]:.4f}s ago (heartbeat={sd.heartbeat}); "
                                f"calls: {[_fmt_call(x) for x in sd.calls]}")
                    elif c.t1 is None and causes and not step_capped \
                            and (quiescent or now - c.t0 > 2 * sd.close_timeout + (sd.receive_timeout or 0.0)):
                        violate("receive_returns", f"{name}:{c.op}_pending_after:{causes[0]}",
                                f"{_fmt_call(c)} is still pending at quiescence (t={now:.4f}, {now - c.t0:.4f}s later) although "
                                f"{'+'.join(causes)}; ws.closed={closed} close_code={ws.close_code} transport closed={tr._closed}; "
                                f"calls: {[_fmt_call(x) for x in sd.calls]}")
                    T = c.arg * W.TICK if c.op == "receive_t" else sd.receive_timeout
                    if T and not hold_run and not step_capped:
                        end = c.t1 if c.t1 is not None else now
                        pts = [c.t0] + [t for t in rx_times if c.t0 < t < end] + [end]
                        gap = max(b - a for a, b in zip(pts, pts[1:]))
                        # receive() may run the closing handshake itself (autoclose, CLOSING state, EOF):
                        # its bound is the receive timeout plus the close timeout
                        if gap > T + sd.close_timeout + EPS:
                            violate("receive_timeout_bound", f"{name}:{c.op}_exceeds_timeout",
                                    f"{_fmt_call(c)} waited {gap:.4f}s without inbound data, receive timeout is {T}s "
                                    f"(+ close timeout {sd.close_timeout}s)")
                        if c.out == "exc" and c.detail[0] == "TimeoutError":
                            flags.add("receive_timeout_fired")
                    if c.closed0 and c.t1 is not None and c.t1 - c.t0 > EPS and not hold_run:
                        violate("receive_returns", f"{name}:{c.op}_blocks_on_closed_session",
                                f"{_fmt_call(c)} was issued on a session already reporting closed and did not return at once")
                    if c.out == "ret" and c.op != "iter" and c.closed0 and c.detail not in ("CLOSED", "CLOSING", "CLOSE", "ERROR"):
                        violate("receive_returns", f"{name}:data_message_from_closed_session",
                                f"{_fmt_call(c)} returned a non-terminal message on a closed session")
                    ok_exc = ("TimeoutError", "ConnectionError", "ClientError", "RuntimeError")
                    if c.out == "exc" and not any(n in c.detail[3] for n in ok_exc):
                        violate("call_outcome", f"{name}:{c.op}_raised:{c.detail[0]}@{c.detail[1]}",
                                f"{_fmt_call(c)} raised an exception that is neither a connection nor a timeout error")
                elif c.op == "close":
                    if c.t1 is None:
                        if not step_capped and (quiescent or now - c.t0 > 2 * sd.close_timeout):
                            since = [t for t in rx_times if c.t0 < t]
                            nrx = len(since)
                            if nrx and now - since[-1] <= sd.close_timeout and now - c.t0 > 2 * sd.close_timeout:
                                violate("close_time_bound", f"{name}:close_exceeds_timeout:inbound_frames_during_close",
                                        f"{_fmt_call(c)} is still pending at t={now:.4f}, {now - c.t0:.4f}s after the call; close timeout "
                                        f"is {sd.close_timeout}s; {nrx} inbound deliveries since the call (heartbeat={sd.heartbeat}); "
                                        f"calls: {[_fmt_call(x) for x in sd.calls]}")
                            else:
                                violate("close_returns", f"{name}:close_pending",
                                        f"{_fmt_call(c)} is still pending at quiescence (t={now:.4f}); close timeout {sd.close_timeout}s; "
                                        f"ws.closed={closed} close_code={ws.close_code}; calls: {[_fmt_call(x) for x in sd.calls]}")
                    elif not hold_run and c.t1 - c.t0 > sd.close_timeout + EPS + send_allowance(c):
                        during = [t for t in rx_times if c.t0 < t < c.t1]
                        nrx = len(during)
                        restarted = nrx >= 1 and c.t1 - during[-1] <= sd.close_timeout + EPS
                        violate("close_time_bound", f"{name}:close_exceeds_timeout" + (":inbound_frames_during_close" if restarted else ""),
                                f"{_fmt_call(c)} took {c.t1 - c.t0:.4f}s, close timeout is {sd.close_timeout}s "
                                f"({nrx} inbound deliveries during the call)")
                    if c.t1 is not None and c.t1 - c.t0 >= sd.close_timeout - EPS:
                        flags.add("close_timeout_fired")
                    if c.out == "exc":
                        violate("call_outcome", f"{name}:close_raised:{c.detail[0]}@{c.detail[1]}",
                                f"{_fmt_call(c)} raised; close() is documented to return a bool")
                else:
                    if c.t1 is None and (closed or lost) and not step_capped:
                        violate("send_returns", f"{name}:{c.op}_pending", f"{_fmt_call(c)} still pending at quiescence after the session ended")
                    ok_exc = ("ConnectionError", "ClientError", "RuntimeError", "TimeoutError")
                    if c.out == "exc" and not any(n in c.detail[3] for n in ok_exc):
                        violate("call_outcome", f"{name}:{c.op}_raised:{c.detail[0]}@{c.detail[1]}",
                                f"{_fmt_call(c)} raised an unexpected exception type")
            # a CancelledError must come from a cancel(): tasks nobody cancelled must not see one
            # (the server's handler task may be cancelled by aiohttp itself: handler_cancellation, shutdown)
            for c in sd.calls:
                if c.out == "cancel" and c.task not in cancelled_tasks and c.task is not sd.handler_task:
                    violate("call_outcome", f"{name}:cancelled_without_cancel@{c.detail}",
                            f"{_fmt_call(c)} raised CancelledError but nobody cancelled that task; "
                            f"cancelled tasks: {sorted(i for i, t in sd.tasks if t in cancelled_tasks)}; "
                            f"calls: {[_fmt_call(x) for x in sd.calls]}")
            # close() issued while a receive was pending in another task (the _waiting/_close_wait handshake)
            cdr_tasks = set()
            for c in sd.calls:
                if c.op == "close" and any(r.op in ("receive", "receive_t", "iter") and r.task is not c.task
                                           and r.s0 < c.s0 and (r.s1 is None or r.s1 >= c.s0) for r in sd.calls):
                    flags.add("close_during_receive")
                    cdr_tasks.add(c.task)
            if len(cdr_tasks) >= 2:
                flags.add("two_closes_during_receive")  # close() from two tasks while a third is in receive()
            # ---- heartbeat: an idle open session must have been closed by the pong timeout
            hb = sd.heartbeat
            if hb and not closed and not lost and not ws._closing and not step_capped:
                last_rx = rx_times[-1] if rx_times else base_t
                limit = 1.5 * hb + (2.0 if hb > 5 else 0.0) + 0.002
                if now - last_rx > limit:
                    violate("heartbeat_closes", f"{name}:idle_session_open_after_pong_timeout",
                            f"{name} has heartbeat={hb}s, nothing was received for {now - last_rx:.4f}s, the session is still open")
            exc = ws.exception()
            if hb and closed and exc is not None and "TimeoutError" in [t.__name__ for t in type(exc).__mro__]:
                flags.add("pong_timeout_fired")
            # ---- transport closed at quiescence
            if closed and sd.inflight == 0 and not (tr._closing or tr._closed) and not step_capped:
                violate("transport_closed", f"{name}:closed_session_open_transport"
                        + (":after_cancelled_close" if _cancelled_in_close_wait(sd) else ""),
                        f"{name} session is closed (code {ws.close_code}) but its transport is open at quiescence")
            # ---- close code
            cancelled = getattr(sd, "cancelled", False)
            peer_tcp = peer is not None and peer.tcp_acted
            too_late = (t_pclose is not None and t_our_close is not None and t_pclose - t_our_close >= sd.close_timeout - EPS)
            pong_to = hb and exc is not None and "TimeoutError" in [t.__name__ for t in type(exc).__mro__]
            # the application was handed the peer's close frame and the session was left open for the application's
            # own close() (autoclose off): a receive() returned CLOSE, or an async-for ended, with ws.closed still
            # False (CLOSING/CLOSED only come from a close() that has marked the session closed already).  From
            # there on the peer owes nothing (it need not answer pings after its close frame), so no timer of the
            # session may turn the handshake into an abnormal end - unless the peer kept sending after its close
            # frame (not judged).
            close_handed = pclose is not None and any(
                c.out == "ret" and not c.closed0 and c.closed1 is False and t_pclose is not None and c.t1 >= t_pclose
                and (c.op == "iter" or (c.op in ("receive", "receive_t") and c.detail == "CLOSE")) for c in sd.calls)
            trailing = pclose is not None and len(rrest) > pclose.end
            closing_clean = close_handed and not trailing
            if closing_clean:
                flags.add("close_handed_to_application")
            # a session that never sent a close frame is an abnormal end, except when it had the peer's close frame
            # in hand and only its own timer (or nothing visible on the wire: raw-peer worlds) kept it from replying
            no_reply_excused = not closes and not (closing_clean and (pong_to or world != "CS"))
            abnormal = bool(kills_fired or cancelled or garbage or hold_run or peer_tcp or no_reply_excused)
            code = ws.close_code
            if closed and not step_capped and sd.inflight == 0:
                if pclose is None:
                    if code != 1006 and not garbage:
                        how = "sent its close frame and " if closes else ""
                        in_close_wait = _cancelled_in_close_wait(sd)
                        why = ":after_cancelled_close" if in_close_wait else ":close_during_receive" if "close_during_receive" in flags else ""
                        violate("close_code", f"{name}:code_{'1000' if code == 1000 else 'None' if code is None else 'other'}_without_peer_close" + why,
                                f"{name} session is closed, it {how}never received a close frame from the peer "
                                f"(connection lost={lost}), but reports close_code={code} instead of 1006; "
                                f"calls: {[_fmt_call(c) for c in sd.calls]}")
                else:
                    pc = pclose.close_code
                    allowed = {pc} if pc is not None else {0, 1005}
                    if abnormal or too_late or (pong_to and not closing_clean):
                        allowed = allowed | {1006}
                    if code not in allowed:
                        in_close_wait = _cancelled_in_close_wait(sd)
                        # one discriminating circumstance per key, most specific first
                        if in_close_wait:
                            why = ":after_cancelled_close"
                        elif code == 1006 and closing_clean and pong_to:
                            why = ":pong_timeout_after_close_handed_to_application"
                        elif code == 1006 and closing_clean and not closes:
                            why = ":no_reply_after_close_handed_to_application"
                        elif code == 1006 and "receive_timeout_fired" in flags:
                            why = ":after_receive_timeout"
                        elif code == 1006 and "two_closes_during_receive" in flags:
                            why = ":two_closes_during_receive"
                        elif code == 1006 and pc is None:
                            # on its own no longer a cause since the C13-F3 repair (6d9b2bb)
                            why = ":peer_close_without_status"
                        elif code != 1006 and "close_during_receive" in flags:
                            why = ":close_during_receive"
                        else:
                            why = ""
                        violate("close_code", f"{name}:code_{code if code in (None, 1000, 1006) else 'other'}_despite_peer_close" + why,
                                f"{name} received the peer's close frame (code {pc}) at t={t_pclose:.4f}, "
                                f"{'sent its own at t=%.4f' % t_our_close if t_our_close is not None else 'sent none'}, nothing abnormal "
                                f"happened, but reports close_code={code}; calls: {[_fmt_call(c) for c in sd.calls]}")
            elif not closed and code not in (None, 1006) and not step_capped and sd.inflight == 0:
                pc = pclose.close_code if pclose is not None else "none"
                if pclose is None or (code != pc and not (pc is None and code in (0, 1005))):
                    if not garbage:
                        violate("close_code", f"{name}:open_session_reports_code_not_from_peer",
                                f"{name} session is not closed and reports close_code={code}, the peer's close code is {pc}")
            allflags |= flags
            # ---- tasks of the session
            if closed and not step_capped:
                pt = ws._ping_task
                if pt is not None and not pt.done():
                    violate("tasks_finished", f"{name}:ping_task_running_after_close", f"{name}: heartbeat ping task still running after close")
                bg = [t for t in ws._writer._background_tasks if not t.done()]
                if bg:
                    violate("tasks_finished", f"{name}:writer_task_running_after_close", f"{name}: {len(bg)} writer tasks running after close")
            if name == "srv" and not step_capped:
                ht, ct = sd.handler_task, getattr(sd, "conn_task", None)
                pend = [c for c in sd.calls if c.t1 is None]
                if ht is not None and ht.done() and ct is not None and not ct.done():
                    violate("tasks_finished", "srv:connection_task_running_after_handler",
                            "the server's connection task is still running at quiescence although the handler task finished")
                if ht is not None and not ht.done() and (lost or closed) and not pend:
                    # handler finished = task done; our handler only runs recorded calls and joins its actors
                    waiting_for = [i for i, t in sd.tasks if i != 0 and not t.done()]
                    if not waiting_for:
                        where, co_ = [], ht.get_coro()
                        while co_ is not None and len(where) < 12:
                            fr_ = getattr(co_, "cr_frame", None) or getattr(co_, "gi_frame", None) or getattr(co_, "ag_frame", None)
                            if fr_ is not None:
                                where.append(f"{fr_.f_code.co_filename.rsplit('/', 1)[-1]}:{fr_.f_code.co_name}:{fr_.f_lineno}")
                            co_ = getattr(co_, "cr_await", None) or getattr(co_, "gi_yieldfrom", None) or getattr(co_, "ag_await", None)
                        where = where[-4:]
                        if where and where[-1].startswith("tasks.py:sleep") and any(x.startswith("_ws13.py:actor:") for x in where):
                            # parked in the pause the scenario puts between two operations of the handler's own program (the
                            # run's time horizon ended first): nothing of aiohttp is pending
                            probe("handler_in_scenario_pause_at_horizon")
                            continue
                        violate("tasks_finished", "srv:handler_task_running_after_end",
                                f"server handler task still running at quiescence with no call in progress (lost={lost}, closed={closed}); "
                                f"it is parked at {where}")
        # sessions whose peer went away without a close frame are abnormal for the close-code rule
        if peer is not None:
            if peer.rx:
                probe("peer_saw_frames")
            if any(k[2].startswith("garbage") for k in peer.tx):
                probe("peer_sent_garbage")
            if peer.got_close and peer.sent_close:
                probe("raw_peer_close_handshake_complete")
        for name_, msg_, et, ex_ in net.fatal_errors:
            violate("loop_exception", f"fatal:{et}", f"fatal protocol error on {name_}: {msg_} {ex_}")

        for how_, t_ in teardown_tasks:
            if not t_.done() and not step_capped:
                violate("cleanup_returns", f"cli:{how_}_blocked", f"{how_}() issued under a live session is still pending at quiescence")
            elif t_.done() and not t_.cancelled() and t_.exception() is not None:
                violate("cleanup_returns", f"cli:{how_}_raised:{type(t_.exception()).__name__}",
                        f"{how_}() issued under a live session raised {t_.exception()!r}")
        # ---- cleanup: must return, nothing may blow up
        if cli is not None and cli.session is not None:
            t2 = loop.run_sim(cli.session.close(), vt_cap=loop.time() + 10.0, step_cap=loop.steps + 20_000)
            if not t2.done():
                violate("cleanup_returns", "cli:session_close_blocked", "ClientSession.close() did not return within 10 virtual seconds")
        if runner is not None:
            t2 = loop.run_sim(runner.cleanup(), vt_cap=loop.time() + 30.0, step_cap=loop.steps + 20_000)
            if not t2.done():
                violate("cleanup_returns", "srv:runner_cleanup_blocked", "AppRunner.cleanup() did not return within 30 virtual seconds")
        gc.collect()
        loop.run_sim(None, vt_cap=loop.time() + 0.01, step_cap=loop.steps + 5_000)
        step_inv()

        st = w.stats()
        fl = st["faults"]
        flags = allflags
        if kills_fired:
            flags.add("kill_fired")
        if any(k.startswith("cancel_in_") for k in fl):
            flags.add("cancel_in_call")
        for f_ in sorted(flags):
            probe(f_)
        if step_capped:
            probe("step_capped")
        if hold_run and fl.get("pause_writing"):
            probe("writer_paused_by_hold")
        for sd in side_list:
            for c in sd.calls:
                if c.out == "ret" and c.op in ("receive", "receive_t") and c.detail in ("CLOSE", "CLOSING", "CLOSED", "ERROR"):
                    probe("receive_" + c.detail)
                if c.out == "exc":
                    probe(f"{c.op}_raised_{c.detail[0]}")
        timers = {"receive_timeout_fired", "close_timeout_fired", "pong_timeout_fired"} & flags
        score = len(flags - timers) + (1 if timers else 0)
        res = {
            "violations": viols, "nontrivial": bool(any_session and score >= 2), "sig": st["sig"], "digest": st["digest"],
            "steps": st["steps"], "vtime": st["vtime"], "faults": fl, "probes": probes,
            "shape": f"{world}-{len(scn.get('srv', {}).get('actors', []))}s{len(scn.get('cli', {}).get('actors', []))}c-"
                     f"{'+'.join(sorted({f['kind'] for f in scn['faults']})) or 'nofault'}-{fin['what']}",
        }
        if log:
            res["event_log"] = loop.event_log
            res["debug"] = {
                "calls": [_fmt_call(c) for sd in side_list for c in sd.calls],
                "peer_rx": [(round(t, 4), repr(f)) for t, _s, f in peer.rx] if peer is not None else None,
                "peer_tx": [(round(t, 4), k) for t, _s, k in peer.tx] if peer is not None else None,
                "state": {sd.name: (None if sd.ws is None else (sd.ws.closed, sd.ws.close_code, repr(sd.ws.exception())))
                          for sd in side_list},
            }
        return res
