"""C09 - body decoding: transparent, memory-bounded, always progresses (DESIGN.md 9, C09).

World S: a real aiohttp.web server (AppRunner/TCPSite/RequestHandler/HttpRequestParser/
HttpPayloadParser/DeflateBuffer/StreamReader) behind SimNet; a scripted RawClient sends one
request whose body carries a Content-Encoding and Content-Length or chunked framing; the
handler consumes it with request.read(), content.read(n), iter_chunked, iter_any, readany,
readchunk, readline, post(), multipart(); parts of a multipart/mixed body that carry their own
Content-Encoding are decoded with part.read(decode=True), text(), json(), form(), decode_iter() and
by forwarding the part as a payload (BodyPartReaderPayload.write() into a recording writer).
World C: a scripted raw server answers a real ClientSession; the caller consumes the
response body with read(), content.read(n), iter_chunked, iter_any, readany, readchunk,
readline / readuntil / `async for line in content`, and MultipartReader.from_response() + part.decode_iter().

Oracles: ref/codec.py (one-shot reference decoding with the codec libraries), the resident
decoded-bytes bound sampled after every loop step and at the end of the stream-consuming call (a call that ends
inside one step may feed and drain the buffer re-entrantly within it), the size of the pieces a part decoder hands
out and the bytes one part-decoding call allocates and keeps alive at once (tracemalloc window),
and the progress judgement at quiescence.
"""
from __future__ import annotations

import asyncio
import base64
import functools
import json
import tracemalloc
import zlib
from urllib.parse import parse_qsl

from gen.http_gen import dec, enc
from props import _srv
from ref import codec as RC
from sim.net import SimResolver
from sim.peers import RawServerConn, parse_simple_request
from sim.world import World

PROP = "C09"
LEVEL = "exploration"
DESIGN_REF = "9/C09"
BUDGET = {"quick": 60, "thorough": 900}
BATCH = 80
ENUM_BATCH = 60
ENUM_SHARE = 0.3
ENUM_RULE = ("codec (gzip, zlib-deflate, raw deflate, br, zstd) x world (S, C) x framing (Content-Length, chunked, "
             "EOF-delimited for C) x compressed stream cut at every 1/16th (0..16, 16 = intact), fixed small payload; plus "
             "multipart part with its own Content-Encoding: decoding entry point (read(decode=True), text, json, form, "
             "decode_iter, forwarded as payload; client: decode_iter) x part coding (gzip, deflate) x encoded part below / above 4 KiB x "
             "(client_max_size 64 KiB, 4 MiB part) / (client_max_size 1 MiB, 600 KiB part); plus a line-oriented consumer (readline / "
             "readuntil / async for) on three lines followed by a separator-less run of 200 x read_bufsize: codec x world x "
             "(Content-Length, chunked)")
TECHNIQUE = ("deterministic simulation: real server / real client on a virtual-time loop and in-memory network, scripted "
             "raw peer, seeded segmentation x consumer schedule x buffer limits, reference decoding with the codec "
             "libraries, resident-bytes bound sampled after every loop step, blocked-consumer judgement at quiescence")
LEVEL_TEXT = (
    "Seeded exploration of payload shape (random, text, bombs at ratios 1e2..1e4, concatenated / empty members, "
    "truncation, bit flips, trailing garbage) x codec x framing x chunk sizes x segmentation x consumer API and "
    "schedule x read_bufsize 16 B..64 KiB x client_max_size, against the real server and the real client. Bytes read "
    "are compared with a one-shot reference decoding; decoded bytes resident are sampled after every loop step; "
    "a blocked consumer is judged at quiescence after the peer has sent everything. The 1/16th truncation grid is "
    "enumerated completely for every codec x framing x world. 8 % of the scenarios send a multipart/mixed document "
    "in which one part has its own Content-Encoding (gzip / deflate), an encoded size of 0.3..20 KiB (below and above "
    "the 4 KiB from which aiohttp inflates a part through the executor) and inflates to 0.3..8 MiB; the part is "
    "decoded through read(decode=True) / text() / json() / form() / decode_iter() / BodyPartReaderPayload.write() (server) "
    "or decode_iter() (client). "
    "10 % of the scenarios give a line-oriented consumer (readline / readuntil / async for) a body of ordinary lines and "
    "separator-less runs of 0.5 .. 4000 x read_bufsize (on and next to the 2 x read_bufsize at which a partial line is given "
    "up), decoded size <= 1 MiB; what had been fed and not handed over is also sampled when the consuming call ends. "
    "Sampling, not proof."
)
LEVEL_NOTE = (
    "Trusted: ref/codec.py (thin use of zlib / brotli / backports.zstd, self-tested on hand-checked vectors), SimNet's "
    "TCP model, the harness' own consumer code. Bound parameters (calibrated, DESIGN.md 9/C09): resident <= 4*L + "
    "largest transport read (+64 KiB for br, + two read_chunk windows for multipart()), L = max(read_bufsize, largest "
    "read size asked for, client_max_size for request.read()/post()). Decoded sizes <= 1 MiB (quick) / 16 MiB "
    "(thorough), parts with their own coding <= 8 MiB / 32 MiB; <= 300 members per body; one exchange per run. Part "
    "decoding: one decode_iter() piece <= 4 * max(256 KiB step, read_bufsize); bytes allocated and alive at once inside one "
    "part.read(decode=True)/text()/json()/form() call (tracemalloc peak between entering and leaving the call, everything "
    "the simulator and harness allocate meanwhile included) <= resident bound + 6 * client_max_size + 4 steps of 256 KiB "
    "+ 1 MiB; measured on the unchanged tree: <= 0.42 of that bound. At the end of a stream-consuming call (return or exception, e.g. LineTooLong) the resident bound carries one more piece (max(L, largest transport read)): line <= 2*limit + one piece, buffer <= 2*limit + one piece by construction; measured on the unchanged tree: exactly 6.0*L at most against 7*L + reads. Loop steps <= 1000 + 12 * (deliveries + consumer reads + peer writes + decoded/L). HttpPayloadParser._paused is read once per step only to *name* failures caused by the known stale-pause-flag defect (C09-F4), never to decide one."
)
RULE = (
    "Run = world (S request body / C response body) x codec x payload shape x mutation x framing (Content-Length, "
    "chunked with chunk sizes 1..4096, EOF-delimited) x write pieces with delays x segmentation policy x latency x "
    "net.hold window x consumer (API, read size, sleep pattern, stall, early stop) x read_bufsize x client_max_size x "
    "peer close after the last byte; part_bomb scenarios: decoding entry point x part coding x incompressible head "
    "0..12000 B x run 0.3..8 MiB x 0..2 further small parts x client_max_size 16 KiB..1 MiB; long_line scenarios: line API x 0..40 ordinary lines x 1..3 "
    "separator-less runs of read_bufsize x {0.5, 1, 2, 3, 8, .. 4000} (-1, 0, +1) x fill unit. Non-trivial: the body (or "
    "a part of it) was compressed and at least one of {transport paused, decoded size (of the body or of a part) >= 8*L, "
    "reference decoder failed, consumer slept between reads}. Distinct = interleaving signature."
)
COMPONENTS = {
    "real": ["aiohttp.http_parser HttpRequestParser/HttpResponseParser/HttpPayloadParser/DeflateBuffer (Python)",
             "aiohttp.compression_utils", "aiohttp.streams.StreamReader", "aiohttp.base_protocol", "aiohttp.client_proto",
             "aiohttp.web_protocol.RequestHandler", "aiohttp.web_request (read/post/multipart)", "aiohttp.multipart reader",
             "aiohttp.ClientSession/TCPConnector/ClientResponse", "zlib / Brotli / backports.zstd", "asyncio tasks, timers"],
    "stub": ["network (SimNet)", "peer (scripted raw client / raw server)", "threads (SimLoop.run_in_executor)", "DNS", "TLS"],
}
ASSUMPTIONS = [
    "TCP stream semantics of SimNet; nothing is delivered while the transport has paused reading",
    "one transport read is at most what SimNet hands over in one data_received call (it is part of the bound)",
    "a zero-length body with a Content-Encoding header decodes to nothing (both 'empty' and 'error' are accepted)",
    "concatenated zlib-deflate streams are not a standard shape: the full concatenation or an error after the first "
    "member's bytes are both accepted; more than 1024 members in one body are out of scope (documented cap)",
    "read() without a size is excluded from the resident bound (documented to lift the limit)",
    "a multipart part is inflated in steps of max_decompress_size = 256 KiB (request.multipart() and "
    "MultipartReader.from_response() leave the default); decode_iter() is a bare decoder without client_max_size, and a "
    "client-side part.read() has no limit at all, so only the piece size is judged for those",
    "tracemalloc counts every Python allocation of the process while a measured window is open: the simulator's and the "
    "harness' own allocations are inside the measured value and covered by a 1 MiB allowance",
    "a payload error on the server is the documented RequestPayloadError raised by the read call (or a 4xx HTTPException); "
    "the status of an *unhandled* RequestPayloadError is C01's question",
]

TICK = 0.001
LIMITS = [16, 32, 64, 100, 256, 1024, 4096, 8192, 16384, 65536]
SEGS = ["whole", "whole", "whole", "byte", "byte", "tiny", "tiny", "small", "small", "mss", "mixed", "mixed", "after_cr"]
PATTERNS = {"zero": b"\0", "a": b"a", "line": b"x" * 31 + b"\n", "kv": b"0123456789abcdef"}
BR_SLACK = 64 * 1024
WORDS = ("alpha beta gamma delta epsilon zeta eta theta iota kappa lambda mu nu xi omicron pi rho sigma tau upsilon "
         "phi chi psi omega lorem ipsum dolor sit amet").split()
S_MODES = ["read_n", "read_n", "iter_chunked", "iter_any", "readany", "readchunk", "req_read", "req_read", "post_url",
           "post_mp", "multipart", "multipart_read", "mp_decode", "readline"]
C_MODES = ["resp_read", "read_n", "read_n", "iter_chunked", "iter_chunked", "iter_any", "readany", "readchunk", "readline"]
FORM_MODES = ("post_url", "post_mp", "multipart", "multipart_read", "mp_decode")
MP_MODES = ("post_mp", "multipart", "multipart_read", "mp_decode")
ACC_MODES = ("req_read", "post_url", "post_mp", "multipart_read", "mp_decode")  # accumulate up to client_max_size by design
BOUNDARY = "c09bnd7f3a"
# multipart parts with their own Content-Encoding (scenario kind "part_bomb")
PART_STEP = 1 << 18  # the step in which a part is decoded (BodyPartReader max_decompress_size; request.multipart() leaves the default)
# part.read(decode=True) / text() / json() / form() / decode_iter() / the part forwarded as a payload (BodyPartReaderPayload.write)
PART_VIAS = ["read", "read", "text", "json", "form", "iter", "iter", "payload"]
PART_SHARE = 0.08
# a line-oriented consumer (readline / readuntil / `async for line in content`) facing separator-less runs whose length is
# set relative to the read buffer limit (scenario kind "long_line")
LINE_SHARE = 0.10
LINE_APIS = ["readline", "readline", "aiter", "readuntil"]
LINE_RUNS = [(1, 2), (1, 1), (2, 1), (2, 1), (3, 1), (8, 1), (20, 1), (50, 1), (100, 1), (400, 1), (1000, 1), (4000, 1)]  # run length = limit * a / b (+ -1, 0, 1)
MEM_NOISE = 1 << 20  # allocations of the harness and the simulator inside a measured window (event log, deliveries, first-use caches)


# =========================================================================== generation

@functools.lru_cache(maxsize=96)
def _bomb(codec: str, raw: bool, pattern: str, size: int) -> bytes:
    p = PATTERNS[pattern]
    return RC.compress(codec, (p * (size // len(p) + 1))[:size], raw=raw, level=6 if size <= (1 << 20) else 1)


def _text(rng, size: int) -> bytes:
    out = bytearray()
    line = 0
    while len(out) < size:
        w = rng.choice(WORDS)
        if line + len(w) > 56:
            out += b"\n"
            line = 0
        out += w.encode() + b" "
        line += len(w) + 1
    return bytes(out[:size])


def _case(rng, s: str) -> str:
    while True:
        t = "".join(c.upper() if rng.random() < 0.5 else c for c in s)
        if t != s:
            return t


def _mp_doc(parts, mixed=False) -> bytes:
    out = bytearray()
    for name, value, extra in parts:
        out += b"--" + BOUNDARY.encode() + b"\r\n"
        if mixed:
            out += b"Content-Type: application/octet-stream\r\nX-Name: " + name.encode() + b"\r\n"
        else:
            out += b'Content-Disposition: form-data; name="' + name.encode() + b'"\r\n'
        for k, v in extra:
            out += k.encode() + b": " + v.encode() + b"\r\n"
        out += b"\r\n" + value + b"\r\n"
    out += b"--" + BOUNDARY.encode() + b"--\r\n"
    return bytes(out)


def _form_plain(rng, mode: str, big: int, bomb: bool, codec: str):
    """Decoded document for the form-consuming modes.  -> (plain bytes, content-type)"""
    alnum = b"abcdefghijklmnopqrstuvwxyz0123456789"
    if mode == "post_url":
        pairs = [(b"k%d" % i, bytes(rng.choice(alnum) for _ in range(rng.choice([0, 1, 5, 40])))) for i in range(rng.randint(1, 5))]
        if bomb:
            pairs.insert(rng.randrange(len(pairs) + 1), (b"big", b"z" * big))
        return b"&".join(k + b"=" + v for k, v in pairs), "application/x-www-form-urlencoded"
    parts = []
    for i in range(rng.randint(1, 4)):
        if mode == "post_mp":
            val = bytes(rng.choice(alnum) for _ in range(rng.choice([0, 1, 10, 200])))
        else:
            # (6000 incompressible bytes: a part whose encoded form exceeds the 4 KiB sync limit goes through the executor)
            val = rng.randbytes(rng.choice([0, 1, 10, 200, 3000, 6000])) if rng.random() < 0.5 else _text(rng, rng.choice([1, 50, 2000]))
        parts.append((f"f{i}", val, []))
    if bomb:
        parts.insert(rng.randrange(len(parts) + 1), ("big", (b"z" if mode == "post_mp" else b"\0") * big, []))
    if mode == "mp_decode":
        enc_parts = []
        for name, val, _ in parts:
            pe = rng.choice(["gzip", "deflate", "none"])
            if pe == "none":
                enc_parts.append((name, val, []))
            else:
                enc_parts.append((name, RC.compress(pe, val, raw=True), [("Content-Encoding", pe)]))
        return _mp_doc(enc_parts, mixed=True), f"multipart/mixed; boundary={BOUNDARY}"
    return _mp_doc(parts), f"multipart/form-data; boundary={BOUNDARY}"


def _pb_segments(rng, via: str, head_n: int, fill_n: int, fill_first: bool) -> list:
    """One part value for the entry point `via`, as segments (bytes, or (byte, count) for a run of one byte): head_n
    incompressible bytes and a run of fill_n equal bytes, as a binary blob (read / iter), text, a JSON object or a
    url-encoded form."""
    if via in ("read", "iter", "payload"):
        head, fill = rng.randbytes(head_n), (b"\0", fill_n)
        return [fill, head] if fill_first else [head, fill]
    head = base64.urlsafe_b64encode(rng.randbytes(head_n * 3 // 4 + 3))[:head_n]
    fill = (b"z", fill_n)
    a, b = (fill, head) if fill_first else (head, fill)
    if via == "text":
        return [a, b]
    if via == "json":
        return [b'{"a": "', a, b'", "b": "', b, b'"}']
    return [b"a=", a, b"&b=", b]


_RUN = 1 << 16


def _pb_encode(pe: str, segments) -> bytes:
    """The segments as one gzip member / one raw-deflate stream (what a multipart part with Content-Encoding carries;
    aiohttp reads a part's deflate without zlib header).  Runs are fed block-wise: the plain value never exists in memory."""
    if pe == "none":
        return b"".join(x if isinstance(x, bytes) else x[0] * x[1] for x in segments)
    c = zlib.compressobj(6, zlib.DEFLATED, 31 if pe == "gzip" else -15)
    out = []
    for x in segments:
        if isinstance(x, bytes):
            out.append(c.compress(x))
        else:
            block = x[0] * min(_RUN, x[1])
            for _ in range(x[1] // _RUN if len(block) == _RUN else 1):
                out.append(c.compress(block))
            if len(block) == _RUN and x[1] % _RUN:
                out.append(c.compress(block[:x[1] % _RUN]))
    out.append(c.flush())
    return b"".join(out)


def _part_bomb_doc(rng, via: str, thorough: bool, spec=None):
    """multipart/mixed document in which one part carries its own Content-Encoding (gzip / deflate) and inflates to
    0.3 .. 8 MiB (32 MiB thorough); its encoded form lies below, near and above the size from which aiohttp hands
    the decoding of a part to the executor (an incompressible head lifts it).  -> (plain bytes, content-type)"""
    if spec is None:
        sizes = [300 << 10, 1 << 20, 2 << 20, 2 << 20, 4 << 20, 4 << 20, 8 << 20] + ([16 << 20, 32 << 20] if thorough else [])
        spec = {"head": rng.choice([0, 0, 3000, 4200, 4200, 6000, 6000, 12000]), "fill": rng.choice(sizes),
                "enc": rng.choice(["gzip", "deflate"]), "fill_first": rng.random() < 0.5,
                "others": rng.choice([0, 0, 1, 2]), "pos": rng.randrange(3)}
    parts = []
    for i in range(spec["others"]):
        segs = [] if rng.random() < 0.15 else _pb_segments(rng, via, rng.choice([0, 10, 200]), rng.choice([0, 50, 3000]), rng.random() < 0.5)
        pe = rng.choice(["gzip", "deflate", "none"])
        parts.append((f"f{i}", _pb_encode(pe, segs), [] if pe == "none" else [("Content-Encoding", pe)]))
    big = _pb_segments(rng, via, spec["head"], spec["fill"], spec["fill_first"])
    parts.insert(min(spec["pos"], len(parts)), ("big", _pb_encode(spec["enc"], big), [("Content-Encoding", spec["enc"])]))
    return _mp_doc(parts, mixed=True), f"multipart/mixed; boundary={BOUNDARY}"


def _ref_part(pe, data: bytes, keep_max: int = 0):
    """Reference decoding of one part's content, streamed: -> (ok, decoded length, crc32 of the decoded bytes, the
    decoded bytes themselves if there are at most keep_max of them, else None).  pe: "gzip", "deflate" (raw) or None."""
    if pe is None:
        return True, len(data), zlib.crc32(data), (data if len(data) <= keep_max else None)
    o = zlib.decompressobj(31 if pe == "gzip" else -15)
    n, crc, keep, buf = 0, 0, bytearray(), data
    try:
        while True:
            out = o.decompress(buf, _RUN)
            n += len(out)
            crc = zlib.crc32(out, crc)
            if keep is not None:
                keep += out
                if len(keep) > keep_max:
                    keep = None
            buf = o.unconsumed_tail
            if o.eof or (not out and not buf):
                break
    except zlib.error:
        return False, n, crc, None
    ok = o.eof and not o.unused_data
    return ok, n, crc, (bytes(keep) if keep is not None else None)


def _eff_L(scn) -> int:
    c = scn["consumer"]
    L = scn["limit"]
    m = c["mode"]
    if m in ("read_n", "iter_chunked"):
        L = max(L, c["n"])
    elif m == "multipart":
        L = max(L, c["n"])
    elif m in ("req_read", "post_url"):
        L = max(L, scn["cms"])
    elif m in ("post_mp", "multipart_read", "mp_decode"):
        # these accumulate one part (<= client_max_size) through read_chunk(8192) before handing it over
        L = max(L, scn["cms"], 8192)
    return L


def gen(rng, tier, index):
    scn = _gen(rng, tier, index, None)
    # Sampled after everything else was drawn, so that all other scenarios are exactly what they were before.
    if rng.random() < PART_SHARE:
        scn = _gen(rng, tier, index, "part_bomb")
    if rng.random() < LINE_SHARE:
        scn = _gen(rng, tier, index, "long_line")
    return scn


def _line_runs(rng, limit: int, cap: int) -> bytes:
    """Decoded body for a line-oriented consumer: a few ordinary lines, then one to three runs of one repeated unit without
    a line separator whose lengths are set relative to the read buffer limit (half of it .. thousands of times it,
    on and next to the 2 x limit at which a partial line is to be given up), each followed by a separator or the end
    of the body."""
    line = PATTERNS["line"]
    out = bytearray(line * rng.choice([0, 0, 1, 5, 40]))
    for _ in range(rng.choice([1, 1, 1, 2, 3])):
        a, b = rng.choice(LINE_RUNS)
        k = max(1, min(cap - len(out), limit * a // b + rng.choice([-1, 0, 0, 1])))
        unit = PATTERNS[rng.choice(["zero", "zero", "a", "kv"])]
        out += (unit * (k // len(unit) + 1))[:k]
        if rng.random() < 0.6:
            out += b"\n" + line * rng.choice([0, 0, 1, 5])
        if len(out) >= cap:
            break
    return bytes(out[:cap])


def _gen(rng, tier, index, force):
    thorough = tier == "thorough"
    ll = force == "long_line"
    force = force == "part_bomb"
    world = rng.choice("SC")
    codec = rng.choice(["gzip"] * 6 + ["deflate"] * 5 + ["br"] * 4 + ["zstd"] * 4 + ["identity"] * 2)
    if force and rng.random() < 0.5:
        codec = "identity"  # the part's own encoding is the subject; half of the documents travel without an outer coding
    raw = codec == "deflate" and rng.random() < 0.4
    limit = rng.choice(LIMITS)
    mode = rng.choice(S_MODES if world == "S" else C_MODES)
    if force:
        # (a client has no client_max_size: part.read() on a response is unlimited by design, so only decode_iter() there)
        world, mode = rng.choice("SSSC"), "mp_decode"
    if ll:
        mode = "readline"
        if codec == "identity" and rng.random() < 0.7:
            codec = rng.choice(["gzip", "deflate", "br", "zstd"])
    if mode == "readline" and limit < 64:
        limit = 64
    n = max(1, rng.choice([1, 3, 7, limit // 2, limit, limit + 1, 2 * limit, 4 * limit + 3, 1000, 4096, 65536]))
    if mode == "multipart":
        n = rng.choice([64, 100, 1024, 8192, 8192, 65536])
    cms = rng.choice([256, 1024, 4096, 16384, 65536, 1 << 20])
    framing = rng.choice(["cl", "chunked", "chunked"] + (["eof"] if world == "C" else []))
    consumer = {"mode": mode, "n": n, "every": [0, 0], "pauses": [], "stop_after": None}
    if ll:
        consumer["line_api"] = rng.choice(LINE_APIS)
    if force:
        cms = rng.choice([16384, 65536, 65536, 65536, 1 << 18, 1 << 20])
        consumer["via"] = rng.choice(PART_VIAS) if world == "S" else "iter"
        consumer["mem"] = True  # measure what the decoding call holds at once
    r = rng.random()
    if r < 0.35:
        consumer["every"] = [rng.choice([1, 1, 2, 5]), rng.choice([1, 1, 2, 5])]
    if rng.random() < 0.3:
        consumer["pauses"] = sorted([rng.randrange(0, 40), rng.choice([5, 20, 100, 1000])] for _ in range(rng.randint(1, 2)))
    if rng.random() < 0.06 and mode not in ("req_read", "resp_read", "post_url", "post_mp"):
        consumer["stop_after"] = rng.randint(0, 6)
    scn = {"world": world, "codec": codec, "raw": raw, "limit": limit, "cms": cms, "consumer": consumer}
    L = _eff_L(scn)
    n_eff = n if mode in ("read_n", "iter_chunked", "multipart") else (8192 if mode in ("multipart_read", "mp_decode") else max(L // 2, 16))
    if mode == "readline":
        n_eff = 32
    max_reads = 500
    cap = 16 << 20 if thorough else rng.choice([64 << 10] * 4 + [256 << 10] * 4 + [1 << 20] * 2)
    cap = max(256, min(cap, max_reads * n_eff))
    # ---------------------------------------------------------------- decoded payload
    kind = rng.choice(["bomb"] * 7 + ["text"] * 3 + ["random"] * 3 + ["members"] * 3 + ["many_members", "empty"])
    if mode == "readline" and kind == "random":
        kind = "text"
    if codec == "identity" and kind in ("members", "many_members"):
        kind = "text"
    ctype = "application/octet-stream"
    members = []
    pattern = None
    if force:
        plain, ctype = _part_bomb_doc(rng, consumer["via"], thorough)
        kind = "part_bomb"
        members = [RC.compress(codec, plain, raw=raw)]
    elif ll:
        # (few reads whatever the size: the cap on the number of 32-byte lines does not apply)
        plain = _line_runs(rng, limit, (16 << 20) if thorough else (64 << 10 if codec == "identity" else 1 << 20))
        kind = "long_line"
        members = [RC.compress(codec, plain, raw=raw)]
    elif mode in FORM_MODES:
        bomb = kind == "bomb"
        big = min(cap, 32 << 10 if codec == "identity" else cap, max(64, L * rng.choice([1, 2, 8, 20, 50, 200])))
        plain, ctype = _form_plain(rng, mode, big, bomb, codec)
        kind = "form_bomb" if bomb else "form"
        members = [RC.compress(codec, plain, raw=raw)]
    elif kind == "bomb":
        pattern = "line" if mode == "readline" else rng.choice(["zero", "zero", "a", "kv", "line"])
        size = min(cap, max(256, L * rng.choice([8, 20, 50, 100, 200, 400, 1000])))
        if codec == "identity":
            size = min(size, 64 << 10)
        members = [_bomb(codec, raw, pattern, size)]
    elif kind == "text":
        members = [RC.compress(codec, _text(rng, min(cap, rng.choice([1, 10, 100, 1000, 5000, 20000, 60000]))), raw=raw)]
    elif kind == "random":
        members = [RC.compress(codec, rng.randbytes(min(cap, 8192, rng.choice([1, 2, 10, 100, 1000, 4000, 8192]))), raw=raw)]
    elif kind == "members":
        for _ in range(rng.randint(2, 8)):
            k = rng.random()
            if k < 0.25:
                d = b""
            elif k < 0.5:
                d = _text(rng, min(max(1, cap // 4), rng.choice([1, 30, 700, 5000])))
            elif k < 0.7:
                d = rng.randbytes(min(max(1, cap // 4), rng.choice([1, 64, 65, 1000])))
            else:
                p = PATTERNS["line" if mode == "readline" else "zero"]
                sz = min(cap // 4, max(64, L * rng.choice([2, 8, 50])))
                d = (p * (sz // len(p) + 1))[:sz]
            members.append(RC.compress(codec, d, raw=raw))
    elif kind == "many_members":
        cnt = rng.choice([20, 64, 65, 130, 300])
        one = [RC.compress(codec, b"", raw=raw), RC.compress(codec, b"m\n", raw=raw)]
        members = [one[rng.random() < 0.5] for _ in range(cnt)]
    else:  # empty body, encoding header present
        members = []
    body = b"".join(members)
    # ---------------------------------------------------------------- mutation of the encoded stream
    mut = None
    if codec != "identity" and body:
        r = rng.random()
        if r < 0.12:
            i = rng.randint(1, 15)
            k = min(len(body) - 1, len(body) * i // 16)
            body, mut = body[:k], "trunc"
        elif r < 0.22:
            pos = rng.randrange(len(body))
            body = body[:pos] + bytes([body[pos] ^ (1 << rng.randrange(8))]) + body[pos + 1:]
            mut = "flip"
        elif r < 0.26:
            body, mut = body + rng.randbytes(rng.randint(1, 8)), "garbage"
    if ll and mut is not None and RC.decode_all(codec, body)["out"].count(b"\n") > 4000:
        # a flipped bit can turn a run into separators: up to 1 Mi one-byte lines, one read each - beyond a run's step budget
        body, mut = b"".join(members), None
    hdr = None if codec == "identity" else codec
    if hdr and rng.random() < 0.03:
        hdr = _case(rng, hdr)
    # ---------------------------------------------------------------- framing
    chunks = []
    if framing == "chunked":
        chunks = rng.choice([[1], [1, 2, 3], [7], [64], [512], [4096], [len(body) or 1],
                             [rng.choice([1, 2, 5, 17, 100, 1000, 4096]) for _ in range(rng.randint(2, 8))]])
        if chunks[0] < 7 and len(body) > 1500:
            chunks = [chunks[0]] * 40 + [512]  # many tiny chunks first, then bulk
        if len(body) // chunks[-1] > 300:
            chunks = chunks + [max(512, len(body) // 64)]
    head = _head(world, hdr, ctype, framing, len(body), rng.random() < 0.5)
    wire_len = len(head) + (len(RC.chunked_encode(body, chunks)) if framing == "chunked" else len(body))
    cut = None
    if rng.random() < 0.06:
        cut = rng.randrange(max(1, len(head) - 4), wire_len) if wire_len > len(head) else None
    nw = rng.choice([1, 1, 1, 2, 3, 5, 8])
    cuts = sorted(rng.randrange(1, max(2, wire_len)) for _ in range(nw - 1)) if wire_len > 1 else []
    if framing == "chunked" and body and rng.random() < 0.4:
        # adversarial write boundaries: right after the CRLF that ends a chunk, or inside the next chunk-size line
        bounds = _chunk_bounds(body, chunks)
        picks = [rng.choice(bounds) for _ in range(rng.randint(1, 4))]
        cuts = sorted({min(wire_len - 1, len(head) + b + rng.choice([0, 0, 0, 1, 2])) for b in picks} | ({len(head)} if rng.random() < 0.5 else set()))
        cuts = [c for c in cuts if 0 < c < wire_len]
    writes, prev = [], 0
    for c in cuts + [wire_len]:
        if c > prev:
            writes.append([rng.choice([0, 0, 1, 3, 10]), c - prev])
            prev = c
    end = "close" if (framing == "eof" or cut is not None) else rng.choice(["keep", "keep", "close"] if world == "C" else ["keep"] * 9 + ["close"])
    scn.update({
        "hdr": hdr, "kind": kind, "pattern": pattern, "mut": mut, "framing": framing, "chunks": chunks,
        "head": head, "body": dec(body), "cut": cut, "writes": writes, "end": end,
        "end_delay": rng.choice([0, 0, 1, 5, 50]) if (world == "C" or cut is not None) else rng.choice([0, 5, 2000, 5000]),
        "seg": rng.choice(SEGS), "lat": rng.choice([0, 0, 1, 3]),
        "hold": [rng.choice([0, 1, 5, 20]), rng.choice([5, 50, 500])] if rng.random() < 0.15 else None,
    })
    return scn


def _chunk_bounds(body: bytes, sizes) -> list:
    """Offsets (in the chunked framing of body) just after the CRLF that ends each chunk."""
    out, pos, off, i = [], 0, 0, 0
    while pos < len(body):
        n = min(max(1, sizes[min(i, len(sizes) - 1)]), len(body) - pos)
        off += len(b"%x" % n) + 2 + n + 2
        out.append(off)
        pos += n
        i += 1
    return out


def _head(world, hdr, ctype, framing, blen, conn_close) -> str:
    lines = ["POST /x HTTP/1.1", "Host: h.test"] if world == "S" else ["HTTP/1.1 200 OK"]
    lines.append("Content-Type: " + ctype)
    if hdr:
        lines.append("Content-Encoding: " + hdr)
    if framing == "cl":
        lines.append(f"Content-Length: {blen}")
    elif framing == "chunked":
        lines.append("Transfer-Encoding: chunked")
    if world == "C" and (framing == "eof" or conn_close):
        lines.append("Connection: close")
    return "\r\n".join(lines) + "\r\n\r\n"


def enumerate_cases(tier, seed):
    """The 1/16th truncation grid: every codec x framing x world, intact stream included."""
    import random as _r

    rr = _r.Random(909)
    plain = _text(rr, 3000) + bytes(range(256)) * 2 + b"\0" * 6000
    for world in "SC":
        for codec, raw in (("gzip", False), ("deflate", False), ("deflate", True), ("br", False), ("zstd", False)):
            full = RC.compress(codec, plain, raw=raw)
            for framing in ("cl", "chunked") + (("eof",) if world == "C" else ()):
                for i in range(0, 17):
                    body = full[:len(full) * i // 16]
                    chunks = [97] if framing == "chunked" else []
                    head = _head(world, codec, "application/octet-stream", framing, len(body), False)
                    wl = len(head) + (len(RC.chunked_encode(body, chunks)) if framing == "chunked" else len(body))
                    yield {
                        "world": world, "codec": codec, "raw": raw, "limit": 1024, "cms": 1 << 20,
                        "consumer": {"mode": "req_read" if (world == "S" and i % 2) else ("read_n" if i % 3 else "iter_any"),
                                     "n": 512, "every": [0, 0], "pauses": [], "stop_after": None},
                        "hdr": codec, "kind": "grid", "pattern": None, "mut": None if i == 16 else "trunc",
                        "framing": framing, "chunks": chunks, "head": head, "body": dec(body), "cut": None,
                        "writes": [[0, wl]], "end": "close" if framing == "eof" else "keep", "end_delay": 2000 if world == "S" else 1,
                        "seg": "small" if i % 2 else "whole", "lat": 0, "hold": None,
                    }
    # Multipart parts with their own Content-Encoding: decoding entry point x part coding x encoded size below / above
    # the size up to which aiohttp inflates a part inline x (client_max_size 64 KiB, part of 4 MiB: to be refused) /
    # (client_max_size 1 MiB, part of 600 KiB: to be returned).
    rr = _r.Random(910)
    for world, via in [("S", v) for v in ("read", "text", "json", "form", "iter", "payload")] + [("C", "iter")]:
        for pe in ("gzip", "deflate"):
            for head_n in (0, 6000):
                for cms in (65536, 1 << 20) if world == "S" else (65536,):
                    spec = {"head": head_n, "fill": 4 << 20 if cms == 65536 else 600 << 10, "enc": pe, "fill_first": False, "others": 0, "pos": 0}
                    plain, ctype = _part_bomb_doc(rr, via, False, spec)
                    head = _head(world, None, ctype, "cl", len(plain), False)
                    yield {
                        "world": world, "codec": "identity", "raw": False, "limit": 65536, "cms": cms,
                        "consumer": {"mode": "mp_decode", "n": 512, "every": [0, 0], "pauses": [], "stop_after": None,
                                     "via": via, "mem": True},
                        "hdr": None, "kind": "part_bomb", "pattern": None, "mut": None, "framing": "cl", "chunks": [],
                        "head": head, "body": dec(plain), "cut": None, "writes": [[0, len(head) + len(plain)]], "end": "keep",
                        "end_delay": 2000 if world == "S" else 1, "lat": 0, "hold": None,
                        # (a forwarded part is decoded chunk by chunk - known finding C09-F8 -: it travels in one read here)
                        "seg": "whole" if via == "payload" else "mss",
                    }
    # A line-oriented consumer and a separator-less run of 200 x read_bufsize after three ordinary lines: codec x world x
    # framing, the way of reading lines rotating.
    k = 0
    for world in "SC":
        for codec, raw in (("gzip", False), ("deflate", False), ("deflate", True), ("br", False), ("zstd", False)):
            plain = PATTERNS["line"] * 3 + b"\0" * (200 * 1024) + b"\n" + PATTERNS["line"]
            body = RC.compress(codec, plain, raw=raw)
            for framing in ("cl", "chunked"):
                chunks = [4096] if framing == "chunked" else []
                head = _head(world, codec, "application/octet-stream", framing, len(body), False)
                wl = len(head) + (len(RC.chunked_encode(body, chunks)) if framing == "chunked" else len(body))
                yield {
                    "world": world, "codec": codec, "raw": raw, "limit": 1024, "cms": 1 << 20,
                    "consumer": {"mode": "readline", "n": 512, "every": [0, 0], "pauses": [], "stop_after": None,
                                 "line_api": ("readline", "aiter", "readuntil")[k % 3]},
                    "hdr": codec, "kind": "long_line", "pattern": None, "mut": None, "framing": framing, "chunks": chunks,
                    "head": head, "body": dec(body), "cut": None, "writes": [[0, wl]], "end": "keep",
                    "end_delay": 2000 if world == "S" else 1, "seg": "whole" if k % 2 else "mss", "lat": 0, "hold": None,
                }
                k += 1


def shrink(scn):
    c = scn["consumer"]
    if scn["hold"] is not None:
        yield dict(scn, hold=None)
    if scn["lat"]:
        yield dict(scn, lat=0)
    if len(scn["writes"]) > 1:
        yield dict(scn, writes=[[0, sum(n for _, n in scn["writes"])]])
    if any(d for d, _ in scn["writes"]):
        yield dict(scn, writes=[[0, n] for _, n in scn["writes"]])
    if scn["seg"] != "whole":
        yield dict(scn, seg="whole")
    if c["pauses"]:
        yield dict(scn, consumer=dict(c, pauses=[]))
    if c["every"][0]:
        yield dict(scn, consumer=dict(c, every=[0, 0]))
    if c["stop_after"] is not None:
        yield dict(scn, consumer=dict(c, stop_after=None))
    if scn["cut"] is not None:
        yield dict(scn, cut=None, end="keep" if scn["framing"] != "eof" else "close")
    if scn["end"] == "close" and scn["framing"] != "eof" and scn["cut"] is None:
        yield dict(scn, end="keep")
    if scn["end_delay"] and scn["world"] == "C":
        yield dict(scn, end_delay=0)
    if scn["framing"] == "chunked" and len(scn["chunks"]) > 1:
        yield _reframe(scn, [scn["chunks"][0]])
        yield _reframe(scn, [max(scn["chunks"])])
    if scn["framing"] == "chunked" and scn["cut"] is None:
        yield _reframe(scn, None)
    if scn["limit"] != 65536:
        yield dict(scn, limit=65536)
    if c["mode"] in ("read_n", "iter_chunked") and c["n"] not in (1, 64):
        yield dict(scn, consumer=dict(c, n=64))
    if scn["world"] == "S" and scn["cms"] != 1 << 20:
        yield dict(scn, cms=1 << 20)
    if scn["kind"] == "part_bomb":
        yield from _shrink_parts(scn)
    if c.get("line_api", "readline") != "readline":
        yield dict(scn, consumer=dict(c, line_api="readline"))
    if scn["kind"] == "long_line":
        yield from _shrink_lines(scn)


def _shrink_lines(scn):
    """long_line bodies: the longest line alone; the same without its separator."""
    if scn["mut"] is not None or scn["cut"] is not None:
        return
    r = RC.decode_all(scn["codec"], enc(scn["body"]))
    if r["status"] != "ok" or not r["out"]:
        return
    lines = r["out"].splitlines(keepends=True) if b"\r" not in r["out"] else r["out"].split(b"\n")
    longest = max(lines, key=len)
    for plain in (longest, longest.rstrip(b"\n")):
        if plain and plain != r["out"]:
            body = dec(RC.compress(scn["codec"], plain, raw=scn["raw"]))
            if scn["framing"] == "eof":
                yield dict(scn, body=body, writes=[[0, len(scn["head"]) + len(body)]])
            else:
                yield _reframe(dict(scn, body=body), scn["chunks"] if scn["framing"] == "chunked" else None)


def _shrink_parts(scn):
    """part_bomb documents: without the outer coding; with one part only."""
    r = RC.decode_all(scn["codec"], enc(scn["body"]))
    parts = _ref_parts(r["out"]) if r["status"] == "ok" else None
    if parts is None:
        return
    ctype = f"multipart/mixed; boundary={BOUNDARY}"

    def redoc(plain):
        head = _head(scn["world"], None, ctype, "cl", len(plain), "connection: close" in scn["head"].lower())
        return dict(scn, codec="identity", raw=False, hdr=None, mut=None, framing="cl", chunks=[], head=head, body=dec(plain),
                    cut=None, writes=[[0, len(head) + len(plain)]], end="close" if scn["framing"] == "eof" else scn["end"])

    if scn["codec"] != "identity" or scn["framing"] != "cl":
        yield redoc(r["out"])
    if len(parts) > 1:
        for hd, body in parts:
            extra = [("Content-Encoding", hd["content-encoding"])] if "content-encoding" in hd else []
            yield redoc(_mp_doc([(hd.get("x-name", "p"), body, extra)], mixed=True))


def _reframe(scn, chunks):
    """Same body under another framing (Content-Length when chunks is None)."""
    body = enc(scn["body"])
    framing = "cl" if chunks is None else "chunked"
    lines = [ln for ln in scn["head"].split("\r\n") if ln and not ln.lower().startswith(("content-length", "transfer-encoding"))]
    lines.append(f"Content-Length: {len(body)}" if chunks is None else "Transfer-Encoding: chunked")
    head = "\r\n".join(lines) + "\r\n\r\n"
    wl = len(head) + (len(body) if chunks is None else len(RC.chunked_encode(body, chunks)))
    return dict(scn, framing=framing, chunks=chunks or [], head=head, writes=[[0, wl]])


# =========================================================================== expectations (pure)

def _ref_parts(doc: bytes):
    """Minimal RFC 2046 splitter for documents of the shape _mp_doc produces.
    -> list of (headers dict lower-cased, body) or None if doc is not of that shape."""
    delim = b"--" + BOUNDARY.encode()
    if not doc.startswith(delim + b"\r\n"):
        return None
    end = doc.find(b"\r\n" + delim + b"--")
    if end < 0:
        return None
    if doc[end:] not in (b"\r\n" + delim + b"--\r\n", b"\r\n" + delim + b"--"):
        return None
    segs = (b"\r\n" + doc[:end]).split(b"\r\n" + delim + b"\r\n")
    if segs[0] != b"":
        return None
    parts = []
    for seg in segs[1:]:
        i = seg.find(b"\r\n\r\n")
        if i < 0:
            return None
        hd = {}
        for ln in seg[:i].split(b"\r\n"):
            k, _, v = ln.partition(b":")
            hd[k.strip().lower().decode("latin-1")] = v.strip().decode("latin-1")
        parts.append((hd, seg[i + 4:]))
    return parts


def _part_name(hd):
    cd = hd.get("content-disposition", "")
    if 'name="' in cd:
        return cd.split('name="', 1)[1].split('"', 1)[0]
    return hd.get("x-name")


class _Exp:
    """What the reference says about one scenario."""

    def __init__(self, scn):
        self.body = enc(scn["body"])
        self.head = enc(scn["head"])
        framed = RC.chunked_encode(self.body, scn["chunks"]) if scn["framing"] == "chunked" else self.body
        if scn["framing"] == "chunked":
            st, b, used = RC.chunked_decode(framed)
            if (st, b, used) != ("ok", self.body, len(framed)):
                raise AssertionError("harness: chunked framing does not round-trip through the reference decoder")
        self.wire = self.head + framed
        cut = scn["cut"]
        self.http_cut = cut is not None and cut < len(self.wire)
        body_eff = self.body
        if self.http_cut:
            self.wire = self.wire[:cut]
            if scn["framing"] == "eof" and cut >= len(self.head):
                body_eff = self.wire[len(self.head):]
                self.http_cut = False  # an EOF-delimited body simply is what arrived
        self.codec = scn["codec"]
        self.ref = RC.decode_all(self.codec, body_eff)
        self.ok = self.ref["status"] in ("ok", "dontcare")
        self.dontcare = self.ref["status"] == "dontcare"
        self.out = self.ref["out"]
        self.alt = self.ref.get("alt")
        self.empty_dontcare = (self.codec != "identity" and not body_eff) or self.dontcare
        self.lenient_concat = self.codec == "deflate" and self.ok and self.ref["members"] > 1
        self.hdr_case = scn["hdr"] is not None and scn["hdr"] != scn["hdr"].lower()
        # form documents
        self.parts = None
        self.pairs = None
        mode = scn["consumer"]["mode"]
        self.want_parts = None
        self.parts_ok = True
        self.want_sig = None  # scenarios with consumer["via"]: [name, decoded length, crc32] per part, nothing large is kept
        self.part_lens = []
        via = scn["consumer"].get("via")
        if self.ok and via is not None:
            self.parts = _ref_parts(self.out)
            if self.parts is not None:
                self.want_sig = []
                for hd, body in self.parts:
                    pe = hd.get("content-encoding")
                    # (the content itself is needed for json / form only, and only when the call may succeed)
                    ok, n, crc, content = _ref_part(pe if pe in ("gzip", "deflate") else None, body,
                                                    scn["cms"] if via in ("json", "form") else 0)
                    self.parts_ok = self.parts_ok and ok
                    self.part_lens.append(n)
                    if ok and via in ("json", "form") and content is not None:
                        try:
                            content = _want_via(via, content)
                            n, crc = len(content), zlib.crc32(content)
                        except ValueError:
                            self.parts_ok = False
                    self.want_sig.append([_part_name(hd), n, crc])
        elif self.ok and mode in ("post_mp", "multipart", "multipart_read", "mp_decode"):
            self.parts = _ref_parts(self.out)
            if self.parts is not None:
                self.want_parts = []
                for hd, body in self.parts:
                    b = body
                    if mode == "mp_decode" and hd.get("content-encoding") in ("gzip", "deflate"):
                        r = RC.decode_all(hd["content-encoding"], body)
                        self.parts_ok = self.parts_ok and r["status"] == "ok"
                        b = r["out"]
                    self.want_parts.append([_part_name(hd), b])
        self.max_line = max((len(ln) for ln in self.out.split(b"\n")), default=0) + 1 if mode == "readline" else 0
        if self.ok and mode == "post_url":
            try:
                txt = self.out.rstrip().decode("utf-8")
                self.pairs = [tuple(kv.split("=", 1)) for kv in txt.split("&") if kv] if all(
                    c.isalnum() or c in "&=" for c in txt) and all("=" in kv for kv in txt.split("&") if kv) else None
            except UnicodeDecodeError:
                self.pairs = None


# =========================================================================== the run

class _St:
    def __init__(self):
        self.payload = None
        self.tr = None  # aiohttp-side transport
        self.active = False
        self.consumed = 0
        self.pos = 0
        self.mismatch = None
        self.use_alt = False
        self.reads = 0
        self.slept = 0
        self.stale_flag = False  # white-box, naming only: HttpPayloadParser._paused left set while nothing is paused
        self.close_tr = None  # peer-side transport to close once its out-pipe has drained
        self.peer_done = False
        self.max_res = 0
        self.max_res_step = 0
        self.max_call = 0  # the same quantity sampled at the moment a stream-consuming call sequence ends (returns or raises)
        self.max_call_step = 0
        self.max_idle = 0
        self.max_total_active = 0
        self.outcome = None
        self.detail = ""
        self.stopped = False
        self.result = None
        self.phase = "init"
        self.pending_input_seen = False
        self.status = None
        self.parts = None
        self.overhead = 0
        self.part_returned = 0  # largest value part.read(decode=True) / text() / json() / form() returned
        self.max_piece = 0  # largest piece a part's decode_iter() handed out
        self.mem_peak = 0  # most bytes allocated and alive at once inside one part-decoding call (measured windows)
        self.mem_windows = 0
        self.part_chunks = 0  # most pieces read_chunk() handed out for one forwarded part (only to name a failure)
        self.part_reject = None  # the part forwarded as a payload failed: (exception type, pieces read_chunk() had handed out)
        self.part_exec = False  # a part's encoded form was larger than what aiohttp decodes inline


def run(scn, ch, log=False):
    if _TRACING[0]:  # a window of an earlier run was never left (its task was still blocked when that world was torn down)
        _TRACING[0] = False
        tracemalloc.stop()
    exp = _Exp(scn)
    cons = scn["consumer"]
    mode = cons["mode"]
    world = scn["world"]
    limit = scn["limit"]
    L = _eff_L(scn)
    viols = []

    def violate(inv, key, msg):
        if not any(v["invariant"] == inv for v in viols):
            viols.append({"invariant": inv, "key": key, "message": msg})

    st = _St()
    use_size = mode == "multipart"
    ref_out = exp.out

    def take(b):
        """The consumer received b: compare with the reference at once, keep no copy."""
        n = len(b)
        if st.mismatch is None:
            p = st.pos
            if ref_out[p:p + n] != b and not (st.use_alt and exp.alt[p:p + n] == b):
                if exp.alt is not None and not st.use_alt and exp.alt[:p] == ref_out[:p] and exp.alt[p:p + n] == b:
                    st.use_alt = True
                else:
                    st.mismatch = (p, bytes(b[:40]), bytes(ref_out[p:p + 40]), len(ref_out))
        st.pos += n
        st.consumed += n

    pauses = {}
    for i, t in cons["pauses"]:
        pauses[i] = pauses.get(i, 0) + t
    ev_k, ev_t = cons["every"]
    stop_after = cons["stop_after"]

    async def after_read():
        i = st.reads
        st.reads += 1
        t = pauses.get(i, 0)
        if ev_k and i % ev_k == ev_k - 1:
            t += ev_t
        if t:
            st.slept += 1
            await asyncio.sleep(t * TICK)
        return stop_after is not None and st.reads > stop_after

    def sample_active():
        """Decoded bytes fed to the reader and not yet handed to the consumer, right now."""
        p = st.payload
        if p is not None and st.active and not use_size:
            r = p.total_bytes - st.consumed
            if r > st.max_call:
                st.max_call = r
                st.max_call_step = loop.steps

    async def consume_stream(content):
        try:
            await consume_stream_(content)
        finally:
            # The step hook samples between loop steps.  A call that ends inside one step (returns or raises) may have fed
            # and taken out of the buffer any amount within that step: what it holds at its end is sampled here, before
            # the exchange stops being 'active'.
            sample_active()

    async def consume_stream_(content):
        n = cons["n"]
        if mode == "read_n":
            while True:
                b = await content.read(n)
                if not b:
                    return
                if len(b) > n:
                    st.mismatch = (st.pos, b"read(n) returned more than n", b"", len(b))
                take(b)
                if await after_read():
                    st.stopped = True
                    return
        elif mode == "iter_chunked":
            async for b in content.iter_chunked(n):
                take(b)
                if await after_read():
                    st.stopped = True
                    return
        elif mode == "iter_any":
            async for b in content.iter_any():
                take(b)
                if await after_read():
                    st.stopped = True
                    return
        elif mode == "readany":
            while True:
                b = await content.readany()
                if not b:
                    return
                take(b)
                if await after_read():
                    st.stopped = True
                    return
        elif mode == "readline":
            api = cons.get("line_api", "readline")
            if api == "aiter":
                async for b in content:
                    take(b)
                    if await after_read():
                        st.stopped = True
                        return
                return
            while True:
                b = await (content.readuntil(b"\n") if api == "readuntil" else content.readline())
                if not b:
                    return
                take(b)
                if await after_read():
                    st.stopped = True
                    return
        elif mode == "readchunk":
            while True:
                b, eoc = await content.readchunk()
                if not b and (not eoc or content.at_eof()):
                    return
                take(b)
                if b and await after_read():
                    st.stopped = True
                    return
        else:
            raise AssertionError(mode)

    with World(ch, 0, log_events=log) as w:
        loop, net = w.loop, w.net
        net.max_latency_ticks = scn["lat"]
        wire = exp.wire
        pieces, pos = [], 0
        for d, k in scn["writes"]:
            if pos < len(wire):
                pieces.append([d, wire[pos:pos + k]])
            pos += k
        if pos < len(wire):
            pieces.append([0, wire[pos:]])
        done = loop.create_future()
        rx = {"max": 0}

        def arm(tr):
            """tr = aiohttp-side transport of the exchange."""
            st.tr = tr
            tr.inp.policy = scn["seg"]
            tr.recv_log = []
            if scn["hold"] is not None:
                t0, dur = scn["hold"]

                def hold():
                    if not tr._closed:
                        net.hold(tr.inp)
                        loop.faults["net_hold"] += 1
                        loop.sim_call_later(dur * TICK, net.release, tr.inp)
                loop.sim_call_later(t0 * TICK, hold)

        wire_len = len(wire)

        def hook():
            ct = st.close_tr
            if ct is not None and not ct.out.buf:
                # The scripted peer closes only after its last byte was delivered, as a separate event.
                # (SimNet would otherwise hand EOF over in the same call as the last data even if that
                # call made the receiver pause reading; a real transport notices EOF only after resume.)
                st.close_tr = None
                if not ct.is_closing():
                    loop.note("peer_close", ct.name)
                    ct.close()
            p = st.payload
            if p is None:
                return
            if st.active:
                # multipart(): boundary and header lines are consumed by the multipart reader itself, so what the
                # stream still buffers is read from the reader (the multipart window is part of the bound's slack)
                r = getattr(p, "_size", 0) if use_size else p.total_bytes - st.consumed
                if r > st.max_res:
                    st.max_res = r
                    st.max_res_step = loop.steps
            else:
                r = getattr(p, "_size", 0)
                if r > st.max_idle:
                    st.max_idle = r
            tr = st.tr
            if tr is not None:
                if tr._read_paused:
                    if not st.pending_input_seen and tr.inp.delivered >= wire_len:
                        st.pending_input_seen = True
                elif not st.stale_flag:
                    # Only used to *name* a failure (known finding C09-F4 and its other symptoms): the payload
                    # parser's pause flag is still set although the transport is reading again.
                    pp = getattr(getattr(tr.protocol, "_parser", None), "_payload_parser", None)
                    if pp is not None and getattr(pp, "_paused", False):
                        st.stale_flag = True

        loop.step_hooks.append(hook)
        reads_est = 50 + (len(ref_out) // max(1, cons["n"]) if mode in ("read_n", "iter_chunked", "multipart") else len(ref_out) // 8)
        if mode == "readline":  # one read per line: a body of very short lines (a bit flip can turn a run into separators)
            reads_est = max(reads_est, 50 + ref_out.count(b"\n"))
        sleep_budget = sum(t for _, t in cons["pauses"]) + (ev_t * (reads_est // ev_k + 1) if ev_k else 0)
        horizon = (sum(d for d, _ in pieces) + sleep_budget + (sum(scn["hold"]) if scn["hold"] else 0)) * TICK + 30.0
        decoded_len = len(ref_out)
        step_cap = 400_000

        if world == "S":
            runner_box = {}
            _run_server(scn, exp, st, w, pieces, arm, done, take, after_read, consume_stream, runner_box)
            loop.run_sim(done, vt_cap=loop.time() + horizon, step_cap=step_cap)
            finished = done.done()
            steps_at_done = loop.steps
            cl = runner_box["cl"]
            loop.run_sim(None, vt_cap=loop.time() + 1.0, step_cap=loop.steps + 50_000)
            peer_sent_all = cl.sent >= len(wire)
            m = bytes(cl.received[:12])
            st.status = int(m[9:12]) if m.startswith(b"HTTP/1.") and m[9:12].isdigit() else None
        else:
            box = {}
            task = _run_client(scn, exp, st, w, pieces, arm, take, after_read, consume_stream, box)
            loop.run_sim(task, vt_cap=loop.time() + horizon, step_cap=step_cap)
            finished = task.done()
            steps_at_done = loop.steps
            if finished and task.exception() is not None:
                raise task.exception()
            peer_sent_all = box["srv"].done_sending
        capped = loop.capped
        # ------------------------------------------------------------------ judge
        tr = st.tr
        if tr is not None and tr.recv_log:
            rx["max"] = max(len(c) for _, c in tr.recv_log)
        oc = st.outcome
        is_payload_err = oc in ("payload_error",) or (oc or "").startswith("http_4")
        form = mode in FORM_MODES
        cms = scn["cms"]

        # (1) transparency ---------------------------------------------------------
        if st.mismatch is not None:
            p, got, want, tot = st.mismatch
            violate("transparent", f"wrong_bytes:{world}:{'ref_ok' if exp.ok else 'ref_error'}",
                    f"consumer ({mode}) received bytes that differ from the reference decoding at decoded offset {p}: "
                    f"got {got!r}, reference has {want!r} (reference output {tot} bytes, reference status {exp.ref['status']}; "
                    f"codec={scn['codec']} hdr={scn['hdr']} framing={scn['framing']} limit={limit})")
        if finished and oc == "ok" and not st.stopped:
            complete = st.pos == len(ref_out) if not form else True
            if exp.http_cut and not (exp.ok and complete and not form):
                violate("error_reported", f"silent_eof:http_cut:{scn['framing']}",
                        f"the peer closed after {len(wire)} of the message's bytes (framing {scn['framing']}), yet the consumer "
                        f"({mode}) saw a clean end of body after {st.pos} decoded bytes")
            elif not exp.ok and not exp.empty_dontcare and mode not in MP_MODES:
                # (a multipart reader stops at the closing boundary and need not reach the end of the stream)
                violate("error_reported", f"silent_eof:{'truncated_stream' if 'truncated' in exp.ref['why'] else 'corrupt_stream'}:{scn['codec']}"
                        + (":header_case" if exp.hdr_case else ""),
                        f"the {scn['codec']} stream is not a complete valid stream ({exp.ref['why']}), but the consumer ({mode}, "
                        f"world {world}) got a clean end of body after {st.pos} decoded bytes and no payload error "
                        f"(body {len(exp.body)} bytes, framing {scn['framing']})")
            elif exp.ok and not form and not complete and not exp.lenient_concat:
                violate("transparent", f"short_read:{world}:{scn['codec']}",
                        f"clean end of body after {st.pos} decoded bytes, the reference decoding has {len(ref_out)} "
                        f"(codec={scn['codec']} framing={scn['framing']} mode={mode} limit={limit})")
        if finished and oc is not None and oc != "ok" and oc != "cancelled":
            over_cms = world == "S" and mode in ACC_MODES and (
                len(ref_out) > cms or (mode == "mp_decode" and exp.want_parts is not None and any(len(b) > cms for _, b in exp.want_parts))
                or any(k > cms for k in exp.part_lens))
            if is_payload_err or oc.startswith("client_error:"):
                # a mutated stream that still decodes gives a document the generator did not write: any refusal is fine
                garbage_doc = form and ((exp.parts is None and exp.pairs is None) or not exp.parts_ok or scn["mut"] is not None)
                legit = (not exp.ok) or exp.http_cut or exp.empty_dontcare or exp.lenient_concat or over_cms or garbage_doc
                if oc == "http_413" and not over_cms and exp.ok and not exp.http_cut and not garbage_doc:
                    violate("cms_exact", f"413_under_limit:{mode}",
                            f"{mode} raised 413 although the decoded body has {len(ref_out)} bytes <= client_max_size={cms}")
                elif not legit:
                    why = "header_case" if exp.hdr_case else f"{scn['codec']}:{scn['framing']}"
                    if scn["framing"] == "chunked" and "Not enough data to satisfy transfer length" in st.detail and st.stale_flag:
                        # every byte of a complete chunked message was delivered before the peer closed, yet the parser
                        # had not parsed all of it (input parked in _chunk_tail while nothing was paused)
                        why = "complete_chunked_body_reported_incomplete"
                    violate("transparent", f"valid_body_rejected:{why}",
                            f"the body is a valid {scn['codec']} stream (reference decodes {len(ref_out)} bytes) but the consumer "
                            f"({mode}, world {world}) got {oc} {st.detail} after {st.pos} correct bytes; "
                            f"Content-Encoding: {scn['hdr']}, framing {scn['framing']}, limit {limit}, seg {scn['seg']}")
            else:
                # neither clean end nor a payload error
                garbage_doc = form and (not exp.ok or (exp.parts is None and exp.pairs is None) or not exp.parts_ok
                                        or scn["mut"] is not None)
                long_line = mode == "readline" and oc == "other:LineTooLong" and exp.max_line > 2 * limit
                peer_gone = (exp.http_cut or (world == "S" and scn["end"] == "close")) and oc.startswith("other:Connection")
                if st.part_reject is not None and not (garbage_doc or peer_gone):
                    # a part that is a valid gzip / deflate stream, forwarded as a payload
                    violate("transparent", "valid_part_rejected:payload_write:" + ("part_read_in_several_chunks" if st.part_reject[1] > 1 else "one_chunk"),
                            f"BodyPartReaderPayload.write() failed with {oc} {st.detail} on a part whose content is a valid "
                            f"{[hd.get('content-encoding') for hd, _ in exp.parts or []]} stream (reference decodes {exp.part_lens} bytes); "
                            f"read_chunk() had handed the part out in {st.part_reject[1]} pieces (encoded sizes "
                            f"{[len(b) for _, b in exp.parts or []]}, seg {scn['seg']}, writes {len(scn['writes'])}, limit {limit})")
                elif not (garbage_doc or peer_gone or long_line):
                    violate("error_class", f"unexpected_exception:{world}:{oc.split(':', 1)[-1]}" + (":stale_pause_flag" if st.stale_flag else ""),
                            f"consumer ({mode}, world {world}) failed with {oc} {st.detail} after {st.pos} decoded bytes; reference "
                            f"status {exp.ref['status']} ({exp.ref['why']}); expected {'a payload error' if not exp.ok else 'the data'} "
                            f"(codec={scn['codec']} framing={scn['framing']} limit={limit} end={scn['end']})")
        # form results
        if finished and oc == "ok" and exp.ok and not exp.http_cut:
            if mode == "req_read" and st.result is not None and len(st.result) > cms:
                violate("cms_enforced", "read_returned_over_cms", f"request.read() returned {len(st.result)} bytes > client_max_size={cms}")
            if mode == "post_url":
                if len(ref_out) > cms:
                    violate("cms_enforced", "post_returned_over_cms", f"post() succeeded for a {len(ref_out)}-byte body, client_max_size={cms}")
                elif exp.pairs is not None and scn["mut"] is None and st.result != [list(p) for p in exp.pairs]:
                    violate("transparent", "post_fields_differ", f"post() fields {st.result!r:.200} != reference {exp.pairs!r:.200}")
            if exp.want_sig is not None and st.parts is not None and exp.parts_ok and not st.stopped and scn["mut"] is None:
                if st.parts != exp.want_sig:
                    violate("transparent", f"parts_differ:{mode}:{cons['via']}" + (":part_read_in_several_chunks" if st.part_chunks > 1 else ""),
                            f"{mode} via part.{cons['via']}: parts [name, decoded length, crc32] {st.parts} != reference {exp.want_sig}"
                            + (f" (read_chunk() handed a forwarded part out in {st.part_chunks} pieces; encoded sizes "
                               f"{[len(b) for _, b in exp.parts]}, codings {[hd.get('content-encoding') for hd, _ in exp.parts]})"
                               if cons["via"] == "payload" else ""))
                # (decode_iter() is a bare decoder, the caller's loop limits it; a forwarded part is streamed, not accumulated)
                if cons["via"] not in ("iter", "payload") and max(exp.part_lens, default=0) > cms:
                    violate("cms_enforced", f"part_over_cms:{mode}", f"part.{cons['via']}() returned the content of a part that decodes to "
                            f"{max(exp.part_lens)} bytes (largest value returned: {st.part_returned} bytes), client_max_size={cms}")
            elif mode in ("post_mp", "multipart", "multipart_read", "mp_decode") and exp.parts is not None and st.parts is not None \
                    and exp.parts_ok and not st.stopped and scn["mut"] is None and exp.want_parts is not None:
                want = exp.want_parts
                got = [[a, bytes(b) if not isinstance(b, str) else b.encode()] for a, b in st.parts]
                if got != want:
                    violate("transparent", f"parts_differ:{mode}",
                            f"{mode}: parts {[(a, len(b)) for a, b in got]} != reference {[(a, len(b)) for a, b in want]}")
                tot = sum(len(b) for _, b in got)
                if mode in ("post_mp", "multipart_read", "mp_decode") and any(len(b) > cms for _, b in got):
                    violate("cms_enforced", f"part_over_cms:{mode}", f"{mode} returned a part larger than client_max_size={cms} (total {tot})")
        # (2) memory ---------------------------------------------------------------
        slack = rx["max"] + (BR_SLACK if scn["codec"] == "br" else 0)
        if mode == "readline":
            slack += 2 * limit  # readline() itself accumulates one line, up to the high-water mark, before LineTooLong
        elif mode == "multipart":
            slack += 2 * cons["n"]
        elif mode in ("multipart_read", "mp_decode", "post_mp"):
            slack += 2 * 8192
        bound = 4 * L + slack
        unbounded = mode == "resp_read" or (mode in ("req_read", "post_url", "post_mp") and cms == 0)
        if not unbounded and st.max_res - st.overhead > bound:
            # exactly one more transport read than allowed is its own class: the parser swallowed a read into its
            # _chunk_tail without the transport being paused (stale pause flag, same root cause as
            # reader_blocked_parser_holds_input); anything beyond that is a lost cap
            one_extra = st.max_res - st.overhead <= bound + rx["max"] and st.stale_flag
            violate("resident_bound", "resident_over_bound:one_extra_transport_read" if one_extra else
                    f"resident_over_bound:{scn['codec']}:{'acc' if mode in ACC_MODES else 'stream'}",
                    f"{st.max_res - st.overhead} decoded bytes were resident (fed to the reader, not yet received by the consumer) at step "
                    f"{st.max_res_step}; bound 4*L + one read = 4*{L} + {slack} = {bound} (read_bufsize={limit}, mode={mode}, "
                    f"n={cons['n']}, client_max_size={cms if world == 'S' else None}, codec={scn['codec']}, decoded size {decoded_len}, "
                    f"body {len(exp.body)} bytes)")
        # at the end of the consuming call (clean end, payload error, LineTooLong, ...): what the call took out of the buffer
        # and has not handed over counts as resident, and popping the last piece may have refilled the buffer within the same
        # step; one more piece (a transport read or a decode step of L) than between steps.
        # By construction of the unchanged tree: line <= 2*limit + one piece, buffer <= 2*limit + one piece.
        call_bound = bound + max(rx["max"], L)
        if not unbounded and st.max_call - st.overhead > call_bound:
            violate("resident_bound", f"resident_over_bound_at_call_end:{scn['codec']}:{mode}",
                    f"{st.max_call - st.overhead} decoded bytes had been fed to the reader and not handed to the consumer when its "
                    f"{cons.get('line_api', mode)} call ended with {oc} {st.detail[:80]} (step {st.max_call_step}); bound 4*L + one read + one piece "
                    f"(a read or a decode step) = 4*{L} + {slack} + {max(rx['max'], L)} = {call_bound} (read_bufsize={limit}, mode={mode}, codec={scn['codec']}, "
                    f"decoded size {decoded_len}, longest line {exp.max_line}, body {len(exp.body)} bytes, seg {scn['seg']})")
        idle_bound = 4 * max(limit, L) + slack
        if st.max_idle > idle_bound and not unbounded:  # after read() the limit stays lifted
            one_extra_idle = st.max_idle <= idle_bound + rx["max"] and st.stale_flag
            violate("resident_bound", "resident_over_bound:one_extra_transport_read" if one_extra_idle else f"idle_buffer_over_bound:{scn['codec']}",
                    f"{st.max_idle} decoded bytes sat in the reader buffer while nobody was consuming (bound {idle_bound}, "
                    f"read_bufsize={limit}, codec={scn['codec']})")
        # parts with their own Content-Encoding: the step in which a part is inflated, and what one decoding call holds
        part_bound = 4 * max(PART_STEP, limit)
        if st.max_piece > part_bound:
            violate("resident_bound", "part_decode_step_over_bound:" + ("payload_write" if cons.get("via") == "payload" else "decode_iter"),
                    f"{'BodyPartReaderPayload.write()' if cons.get('via') == 'payload' else 'part.decode_iter()'} handed out one piece of {st.max_piece} decoded bytes; a part is to be inflated in steps of "
                    f"{PART_STEP} bytes, bound 4 * max(step, read_bufsize) = {part_bound} (largest decoded part "
                    f"{max(exp.part_lens, default=0)} bytes, part encoded sizes "
                    f"{[len(b) for _, b in exp.parts or []]}, client_max_size={cms})")
        # held at once by read(decode=True) / text() / json() / form(): the stream and the raw part (the resident bound above),
        # the decoded part up to client_max_size plus one step - twice while a growing buffer is copied -, one step being
        # inflated (zlib's output buffer grows by doubling), and up to four copies of a returned value for text / json / form
        mem_bound = bound + 6 * max(cms, 8192) + 4 * PART_STEP + MEM_NOISE
        if st.mem_peak > mem_bound:
            violate("resident_bound", f"part_decode_held_over_bound:{cons.get('via')}",
                    f"decoding one multipart part with part.{cons.get('via')}() held {st.mem_peak} bytes at once (allocated during the "
                    f"call and alive together); bound = resident bound {bound} + 6 * client_max_size {cms} + 4 decode steps of "
                    f"{PART_STEP} + {MEM_NOISE} = {mem_bound} (largest decoded part "
                    f"{max(exp.part_lens, default=0)} bytes, part encoded sizes "
                    f"{[len(b) for _, b in exp.parts or []]}, outcome {oc})")
        # (3) progress -------------------------------------------------------------
        held = tr is not None and tr.inp.held
        if capped == "steps":
            violate("progress", "step_cap_reached",
                    f"{loop.steps} loop steps without finishing (wire {len(wire)} bytes, decoded {decoded_len}, reads {st.reads})")
        elif not finished and world == "S" and st.phase == "init" and len(wire) < len(exp.head):
            pass  # the request head never arrived completely: no handler, nothing to judge
        elif not finished and peer_sent_all and not held and tr is not None and not (tr.inp.buf and not tr._read_paused):
            p = st.payload
            waiting = p is not None and getattr(p, "_waiter", None) is not None
            paused = tr is not None and tr._read_paused
            undelivered = len(tr.inp.buf) if tr is not None else -1
            # white-box, only to name the state: does the HTTP parser sit on input it was already given?
            parser = getattr(getattr(tr, "protocol", None), "_parser", None)
            pp = getattr(parser, "_payload_parser", None)
            holds = bool(getattr(parser, "_payload_has_more_data", False) or getattr(pp, "_chunk_tail", b"")
                         or getattr(pp, "_more_data_available", False))
            exc_set = p is not None and p.exception() is not None
            if waiting and exc_set:
                key = "reader_blocked_although_exception_set"
            elif waiting and not paused and holds and undelivered == 0 and st.stale_flag:
                key = "reader_blocked_parser_holds_input"
            else:
                key = (f"blocked_at_quiescence:{world}:{st.phase}:reader_waiting={int(waiting)}:transport_paused={int(paused)}"
                       f":parser_holds_input={int(holds)}" + (":stale_pause_flag" if st.stale_flag else ""))
            violate("progress", key,
                    f"the peer sent all {len(wire)} bytes (end={scn['end']}), virtual time ran {horizon:.1f}s past the script, and the "
                    f"consumer ({mode}, world {world}) is still blocked in phase {st.phase} after {st.pos} of {decoded_len} decoded bytes: "
                    f"reader waiting={waiting}, reader exception={p.exception() if p is not None else None!r}, transport paused={paused}, "
                    f"parser holds input it was given={holds} "
                    f"(parser._payload_has_more_data={getattr(parser, '_payload_has_more_data', None)}, payload parser _paused="
                    f"{getattr(pp, '_paused', None)}, _chunk_tail={len(getattr(pp, '_chunk_tail', b'') or b'')} bytes), undelivered "
                    f"bytes={undelivered}, reader eof={p.is_eof() if p is not None else None}, nothing scheduled "
                    f"(codec={scn['codec']} framing={scn['framing']} chunks={scn['chunks'][:4]} limit={limit} seg={scn['seg']})")
        n_events = (tr.inp.deliveries if tr is not None else 0) + st.reads + len(pieces) + decoded_len // max(1, min(L, 65536))
        step_bound = 1000 + 12 * n_events  # calibrated: <= 2.9 steps per event on the unchanged tree
        if finished and steps_at_done > step_bound:
            violate("progress", "steps_superlinear",
                    f"{steps_at_done} loop steps for {n_events} events (deliveries + reads + writes + decoded/L); bound {step_bound}")
        for c in loop.exc_contexts:
            violate("loop_exception", f"{c['exc_type']}@{c.get('frame')}",
                    f"exception reached the event loop: {c['message']} {c['exc']} frame={c.get('frame')}")
            break
        for name, msg_, et, ex in net.fatal_errors:
            violate("loop_exception", f"fatal:{et}", f"fatal protocol error on {name}: {msg_} {ex}")
            break
        if world == "S":
            t2 = loop.run_sim(runner_box["runner"].cleanup(), vt_cap=loop.time() + 200.0, step_cap=loop.steps + 100_000)
            if not t2.done():
                violate("progress", "cleanup_blocked", "AppRunner.cleanup() did not return within 200 virtual seconds")
        stats = w.stats()
        paused_n = stats["faults"].get("pause_reading", 0)
        part_max = max(exp.part_lens, default=0)
        compressed = scn["codec"] != "identity" or part_max > 0
        nontrivial = compressed and bool(paused_n or decoded_len >= 8 * L or part_max >= 8 * L or not exp.ok or st.slept)
        probes = {
            "world_" + world: 1, "finished": int(finished), "outcome_" + str(oc).split(":")[0]: 1,
            "transport_paused": int(paused_n > 0), "pending_input_path": int(st.pending_input_seen),
            "ref_error": int(not exp.ok), "http_cut": int(exp.http_cut), "bomb_ge_8L": int(decoded_len >= 8 * L),
            "bomb_ge_64L": int(decoded_len >= 64 * L), "decoded_ge_1MiB": int(decoded_len >= 1 << 20),
            "consumer_slept": int(st.slept > 0), "consumer_stopped": int(st.stopped), "net_hold": int(bool(stats["faults"].get("net_hold"))),
            "multi_member": int(exp.ref.get("members", 0) > 1), "members_ge_64": int(exp.ref.get("members", 0) >= 64),
            "resident_gt_2L": int(st.max_res - st.overhead > 2 * L), "resident_gt_3L": int(st.max_res - st.overhead > 3 * L),
            "executor_used": int(loop.executor_jobs > 0), "status_413": int(st.status == 413 or oc == "http_413"),
            "status_500": int(st.status == 500), "peer_closed_after_send": int(scn["end"] == "close"),
            "tiny_chunks": int(scn["framing"] == "chunked" and scn["chunks"][0] < 7),
            "stale_pause_flag_seen": int(st.stale_flag),
            "inconclusive_horizon": int(not finished and not viols and capped == "vtime"),
            "part_bomb": int(scn["kind"] == "part_bomb"), "part_over_sync_limit": int(st.part_exec),
            "part_ge_2MiB": int(part_max >= 2 << 20), "part_ge_8L": int(part_max >= 8 * L > 0),
            "part_mem_window": int(st.mem_windows > 0), "part_pieces_ge_2": int(st.max_piece > 0 and part_max > st.max_piece),
            "part_via_" + str(cons.get("via")): int("via" in cons),
            "long_line": int(scn["kind"] == "long_line"), "line_gt_2limit": int(mode == "readline" and exp.max_line > 2 * limit),
            "line_ge_8limit_compressed": int(mode == "readline" and compressed and exp.max_line >= 8 * limit),
            "line_too_long_raised": int(oc == "other:LineTooLong"), "line_api_" + str(cons.get("line_api")): int("line_api" in cons),
        }
        res = {
            "violations": viols, "nontrivial": bool(nontrivial), "sig": stats["sig"], "digest": stats["digest"],
            "steps": stats["steps"], "vtime": stats["vtime"], "faults": stats["faults"],
            "probes": {k: v for k, v in probes.items() if v},
            "shape": f"{world}-{scn['codec']}-{scn['framing']}-{scn['kind']}-{scn['mut']}-{mode}",
        }
        if log:
            res["event_log"] = loop.event_log
            res["debug"] = {"outcome": oc, "detail": st.detail, "pos": st.pos, "decoded": decoded_len, "max_res": st.max_res,
                            "bound": bound, "L": L, "reads": st.reads, "ref": exp.ref["status"], "why": exp.ref["why"],
                            "status": st.status, "steps_at_done": steps_at_done, "events": n_events, "rx_max": rx["max"],
                            "max_call": st.max_call, "call_bound": call_bound, "max_piece": st.max_piece, "mem_peak": st.mem_peak, "mem_bound": mem_bound, "part_lens": exp.part_lens}
        return res


_TRACING = [False]  # a measured window of this module switched tracemalloc on and has not switched it off yet


class _MemWindow:
    """Peak of the bytes allocated after entry and alive at the same time, until exit: what the awaited call (and
    whatever ran while it was suspended) held at once.  Memory allocated before entry is not counted."""

    def __init__(self, st, on):
        self.st = st
        self.on = bool(on)

    def __enter__(self):
        if self.on:
            self.own = not tracemalloc.is_tracing()
            if self.own:
                tracemalloc.start(1)
                _TRACING[0] = True
            tracemalloc.reset_peak()
            self.base = tracemalloc.get_traced_memory()[0]
        return self

    def __exit__(self, *a):
        if self.on and tracemalloc.is_tracing():
            peak = tracemalloc.get_traced_memory()[1] - self.base
            if self.own:
                tracemalloc.stop()
                _TRACING[0] = False
            self.st.mem_windows += 1
            if peak > self.st.mem_peak:
                self.st.mem_peak = peak
        return False


async def _via_parts(reader, cons, exp, st, after_read):
    """Parts with their own Content-Encoding through the decoding entry points of BodyPartReader: read(decode=True),
    text(), json(), form(), and decode_iter() over the raw part.  Only [name, decoded length, crc32] is kept."""
    via = cons["via"]
    st.parts = []
    while True:
        part = await reader.next()
        if part is None:
            return
        name = part.name or part.headers.get("X-Name")
        k = len(st.parts)
        raw_len = len(exp.parts[k][1]) if exp.parts is not None and k < len(exp.parts) else None
        if raw_len is not None and raw_len > 4096 and "content-encoding" in exp.parts[k][0]:
            st.part_exec = True
        if via == "iter":
            raw = await part.read()
            st.consumed += len(raw)
            n_dec = crc = 0
            async for piece in part.decode_iter(raw):
                if len(piece) > st.max_piece:
                    st.max_piece = len(piece)
                n_dec += len(piece)
                crc = zlib.crc32(piece, crc)
                del piece
                if await after_read():
                    st.stopped = True
                    return
            del raw
            st.parts.append([name, n_dec, crc])
            continue
        if via == "payload":
            # the part forwarded the way aiohttp does it when a BodyPartReader is given as (part of) a body to send
            from aiohttp import payload as _payload

            orig, pieces = part.read_chunk, [0]

            async def read_chunk(size=part.chunk_size, _orig=orig, _pieces=pieces):  # only counts, to *name* a failure
                c = await _orig(size)
                _pieces[0] += bool(c)
                return c

            part.read_chunk = read_chunk
            wr = _PieceWriter(st, after_read)
            try:
                await _payload.get_payload(part).write(wr)
            except (zlib.error, ValueError, RuntimeError) as e:
                st.part_reject = (type(e).__name__, pieces[0])
                raise
            st.part_chunks = max(st.part_chunks, pieces[0])
            st.consumed += raw_len if raw_len is not None else wr.n
            st.parts.append([name, wr.n, wr.crc])
            continue
        with _MemWindow(st, cons.get("mem")):
            if via == "text":
                b = (await part.text()).encode("utf-8")
            elif via == "json":
                b = _canon(await part.json())
            elif via == "form":
                b = _canon(await part.form())
            else:
                b = bytes(await part.read(decode=True))
        st.consumed += raw_len if raw_len is not None else len(b)
        st.parts.append([name, len(b), zlib.crc32(b)])
        if len(b) > st.part_returned:
            st.part_returned = len(b)
        del b
        await after_read()


class _PieceWriter:
    """What Payload.write() needs of a stream writer; keeps length and crc32 of what it is given and the largest piece."""

    def __init__(self, st, after_read):
        self.st, self.after_read, self.n, self.crc = st, after_read, 0, 0

    async def write(self, chunk, *, drain=True, LIMIT=0x10000):
        if len(chunk) > self.st.max_piece:
            self.st.max_piece = len(chunk)
        self.n += len(chunk)
        self.crc = zlib.crc32(chunk, self.crc)
        del chunk
        await self.after_read()  # a slow receiver

    async def write_eof(self, chunk=b""):
        if chunk:
            await self.write(chunk)

    async def drain(self):
        pass

    def enable_compression(self, *a, **kw):
        pass

    def enable_chunking(self):
        pass

    async def write_headers(self, status_line, headers):
        pass

    def send_headers(self):
        pass


def _canon(obj) -> bytes:
    """Comparable form of what part.json() / part.form() return."""
    return json.dumps(obj, sort_keys=True, separators=(",", ":")).encode()


def _want_via(via: str, b: bytes) -> bytes:
    """What the entry point `via` must hand back for a part whose decoded content is b."""
    if via == "json":
        return _canon(json.loads(b.decode("utf-8")) if b else None)
    if via == "form":
        return _canon(parse_qsl(b.rstrip().decode("utf-8"), keep_blank_values=True) if b else [])
    return b


# --------------------------------------------------------------------------- world S

def _run_server(scn, exp, st, w, pieces, arm, done, take, after_read, consume_stream, box):
    from aiohttp import web

    loop, net = w.loop, w.net
    cons = scn["consumer"]
    mode = cons["mode"]

    async def consume(request):
        if mode == "req_read":
            st.result = await request.read()
            take(st.result)
        elif mode == "post_url":
            data = await request.post()
            st.result = [[k, v] for k, v in data.items()]
        elif mode == "post_mp":
            data = await request.post()
            st.parts = [[k, v] for k, v in data.items()]
        elif mode in ("multipart", "multipart_read", "mp_decode"):
            reader = await request.multipart()
            if "via" in cons:
                await _via_parts(reader, cons, exp, st, after_read)
                return
            st.parts = []
            while True:
                part = await reader.next()
                if part is None:
                    break
                name = part.name or part.headers.get("X-Name")
                if mode == "multipart":
                    buf = bytearray()
                    while True:
                        c = await part.read_chunk(cons["n"])
                        if not c:
                            break
                        buf += c
                        st.consumed += len(c)
                        if await after_read():
                            st.stopped = True
                            return
                    st.parts.append([name, bytes(buf)])
                else:
                    b = await part.read(decode=(mode == "mp_decode"))
                    st.consumed += len(b)
                    st.parts.append([name, bytes(b)])
                    await after_read()
        else:
            await consume_stream(request.content)

    async def handler(request):
        st.payload = request.content
        st.active = True
        st.phase = "consuming"
        try:
            await consume(request)
            st.outcome = "ok"
            return web.Response(text="ok")
        except asyncio.CancelledError:
            st.outcome = "cancelled"
            raise
        except web.HTTPException as e:
            st.outcome = f"http_{e.status}"
            raise
        except web.RequestPayloadError as e:
            st.outcome = "payload_error"
            st.detail = repr(e)[:160]
            return web.Response(status=400, text="payload error")
        except Exception as e:
            st.outcome = "other:" + type(e).__name__
            st.detail = repr(e)[:200]
            return web.Response(status=400, text="bad body")
        finally:
            st.active = False
            st.phase = "handler_done"
            if not done.done():
                done.set_result(None)

    app = web.Application(client_max_size=scn["cms"])
    app.router.add_route("*", "/{tail:.*}", handler)
    t = loop.run_sim(_srv.start_app(loop, app, {"read_bufsize": scn["limit"], "lingering_time": 2.0}), vt_cap=10)
    box["runner"] = t.result()
    cl, ctr, str_ = _srv.connect_client(w, pieces, end="keep", end_delay=0)
    box["cl"] = cl
    arm(str_)
    if scn["end"] == "close":
        def want_close():
            if cl.sent >= sum(len(p) for _, p in pieces):
                st.close_tr = ctr
            else:
                loop.sim_call_later(10 * TICK, want_close)
        loop.sim_call_later((sum(d for d, _ in pieces) + scn["end_delay"]) * TICK, want_close)


# --------------------------------------------------------------------------- world C

class _RawSrv:
    """Scripted raw server: answers the first request of the first connection with the given pieces."""

    def __init__(self, loop, pieces, end, end_delay, st):
        self.loop = loop
        self.st = st
        self.pieces = pieces
        self.end = end
        self.end_delay = end_delay
        self.conns = []
        self.done_sending = False

    def factory(self):
        return RawServerConn(self)

    def on_connect(self, conn):
        pass

    def on_data(self, conn):
        if conn.requests:
            return
        r = parse_simple_request(conn.buf)
        if r is None:
            return
        # every connection gets the same scripted answer (aiohttp may retry a GET on a new connection)
        self.done_sending = False
        conn.requests.append(r[0])
        self._next(conn, 0)

    def _next(self, conn, i):
        if i < len(self.pieces):
            self.loop.sim_call_later(self.pieces[i][0] * TICK, self._send, conn, i)
        else:
            self.loop.sim_call_later(self.end_delay * TICK, self._finish, conn)

    def _send(self, conn, i):
        conn.send(self.pieces[i][1])
        self._next(conn, i + 1)

    def _finish(self, conn):
        self.done_sending = True
        tr = conn.transport
        if self.end == "close" and tr is not None and not tr.is_closing():
            self.st.close_tr = tr

    def on_eof(self, conn):
        pass

    def on_lost(self, conn):
        pass


def _run_client(scn, exp, st, w, pieces, arm, take, after_read, consume_stream, box):
    import aiohttp

    loop, net = w.loop, w.net
    mode = scn["consumer"]["mode"]
    srv = _RawSrv(loop, pieces, scn["end"], scn["end_delay"], st)
    box["srv"] = srv
    net.listen(srv.factory, "10.0.0.1", 80)
    net.dns["h.test"] = ["10.0.0.1"]
    net.on_connect = lambda ctr, str_: arm(ctr)

    async def main():
        conn = aiohttp.TCPConnector(resolver=SimResolver(net))
        session = aiohttp.ClientSession(connector=conn, read_bufsize=scn["limit"], timeout=aiohttp.ClientTimeout(total=None))
        try:
            st.phase = "request"
            try:
                resp = await session.get("http://h.test/x")
            except aiohttp.ClientError as e:
                st.outcome = "client_error:" + type(e).__name__
                st.detail = repr(e)[:200]
                return
            st.status = resp.status
            st.payload = resp.content
            st.active = True
            st.phase = "consuming"
            try:
                if mode == "resp_read":
                    st.result = await resp.read()
                    take(st.result)
                elif "via" in scn["consumer"]:
                    await _via_parts(aiohttp.MultipartReader.from_response(resp), scn["consumer"], exp, st, after_read)
                else:
                    await consume_stream(resp.content)
                st.outcome = "ok"
            except aiohttp.ClientPayloadError as e:
                st.outcome = "payload_error"
                st.detail = repr(e)[:200]
            except aiohttp.ClientError as e:
                st.outcome = "client_error:" + type(e).__name__
                st.detail = repr(e)[:200]
            except asyncio.CancelledError:
                st.outcome = "cancelled"
                raise
            except Exception as e:
                st.outcome = "other:" + type(e).__name__
                st.detail = repr(e)[:200]
            finally:
                st.active = False
                st.phase = "closing"
                resp.close()
        finally:
            await session.close()
            st.phase = "closed"

    return loop.create_task(main(), name="main")


def oracle_selftest():
    RC.oracle_selftest()
    # the multipart splitter used for expectations
    doc = _mp_doc([("a", b"1\r\n2", []), ("b", b"", [("Content-Encoding", "gzip")])])
    parts = _ref_parts(doc)
    assert parts is not None and [(_part_name(h), b) for h, b in parts] == [("a", b"1\r\n2"), ("b", b"")], parts
    assert parts[1][0]["content-encoding"] == "gzip"
    assert _ref_parts(doc[:-9]) is None and _ref_parts(b"x" + doc) is None
    framed = RC.chunked_encode(b"abcdefghij", [3, 2])
    assert _chunk_bounds(b"abcdefghij", [3, 2]) == [8, 15, 22, 29, 35] and framed[35:] == b"0\r\n\r\n", framed
    # block-wise part encoder and streamed part reference against the one-shot library calls
    segs = [b"head", (b"z", 3 * _RUN + 5), b"tail", (b"q", 7), (b"e", 0)]
    plain = b"head" + b"z" * (3 * _RUN + 5) + b"tail" + b"q" * 7
    assert _pb_encode("none", segs) == plain
    assert zlib.decompress(_pb_encode("gzip", segs), 31) == plain and zlib.decompress(_pb_encode("deflate", segs), -15) == plain
    for pe in ("gzip", "deflate"):
        z = _pb_encode(pe, segs)
        assert _ref_part(pe, z) == (True, len(plain), zlib.crc32(plain), None)
        assert _ref_part(pe, z, len(plain)) == (True, len(plain), zlib.crc32(plain), plain)
        assert _ref_part(pe, z[:-3])[0] is False and _ref_part(pe, z + b"x")[0] is False
    hello_gz = bytes.fromhex("1f8b08000000000002ffcb48cdc9c9070086a6103605000000")  # gzip of b"hello" (hand-checked in ref/codec.py)
    assert _ref_part("gzip", hello_gz, 10) == (True, 5, 0x3610A686, b"hello")
    assert _ref_part(None, b"abc", 3) == (True, 3, zlib.crc32(b"abc"), b"abc")
    assert _want_via("json", b'{"b": 1, "a": "x"}') == b'{"a":"x","b":1}' and _want_via("json", b"") == b"null"
    assert _want_via("form", b"a=1&b=&a=2\n") == b'[["a","1"],["b",""],["a","2"]]' and _want_via("text", b"t") == b"t"
