"""C16 - cookies are sent only where RFC 6265 scoping allows (DESIGN.md 9, C16).

World U: a real aiohttp.CookieJar on the simulated clock (time.time() inside
aiohttp.cookiejar is epoch0 + virtual loop time + wall_clock_skew), driven
through histories of update_cookies_from_headers / update_cookies /
filter_cookies / clear / clear(predicate) / clear_domain / iteration / len /
save -> fresh jar -> load, with clock advances and wall-clock jumps in between
(including landing exactly on an expiry instant).  ref.cookies.Store (written
from RFC 6265 5.1-5.4, aiohttp's documented deviations as configuration) runs
in lock-step; after an operation the (name, value) pairs returned by
filter_cookies for query URLs of the host/path/scheme lattice are compared
with the reference.  Over-sending and under-sending are separate invariants.

World C (sampled, small): the Cookie header a real ClientSession sends through
the simulated network equals what filter_cookies returned for that URL, and a
Set-Cookie in the real response has the effect the reference predicts.
"""
from __future__ import annotations

import os
import re

from ref import cookies as R
from sim.world import World

PROP = "C16"
LEVEL = "exploration"
DESIGN_REF = "9/C16"
BUDGET = {"quick": 45, "thorough": 600}
BATCH = 600
TECHNIQUE = ("deterministic simulation: real CookieJar on a virtual wall clock driven through seeded histories "
             "(set / query / clear / save+load / clock advance and jump), RFC 6265 reference store in lock-step, "
             "differential comparison over a host/path/scheme lattice")
LEVEL_TEXT = (
    "Seeded exploration of operation histories (<= 12 operations, plus directed regression histories) against an "
    "independent RFC 6265 section 5.3/5.4 reference store; every observation compares what the jar would attach to "
    "a request with what the reference attaches. Sampling, not proof."
)
LEVEL_NOTE = (
    "Trusted: ref/cookies.py (self-tested with hand-checked vectors), yarl URL parsing, the virtual time seam. "
    "Bounds: 9 hosts x 5 request paths x 4 schemes, 3 cookie names, <= 12 operations per history, <= 3 Set-Cookie "
    "headers per response that set a cookie plus <= 4 that are ignored as a whole. filter_cookies returns a name-keyed mapping, so for several same-name cookies that the "
    "RFC would all send, any one of them is accepted. The ClientSession sample uses plain http only (TLS is not "
    "simulated)."
)
RULE = (
    "History = seeded sequence of <= 12 operations over {Set-Cookie headers (Domain none/host/parent/child/"
    "sibling/lookalike/public suffix, with leading or trailing dot; Path; Secure; Max-Age incl. 0 and negative; "
    "Expires in several date formats; both) from a response URL of the lattice, update_cookies (shared cookies, "
    "pairs, SimpleCookie), clear(), clear(predicate), clear_domain, iteration, len, save->fresh jar->load, "
    "loop.advance, wall-clock jump (forward/backward), move exactly onto (or 0.25 s around) a pending expiry "
    "instant} x jar configuration (unsafe, quote_cookie, treat_as_secure_origin); after an operation 0..6 query "
    "URLs (biased to the hosts in use and their parent/child/lookalike hosts) and a final query set are compared "
    "with the reference. About one history in six also uses one kind of off-lattice spelling (upper-case Domain, "
    "Max-Age that is not [-]digits, Path ending in '//', Expires dates outside the three HTTP formats). In 12% of histories some responses also carry, before / between / "
    "after their Set-Cookie fields, one or two fields that are ignored as a whole (name-value pair without '=' or "
    "without a name, empty field, cookie-name that is an attribute name - bare Secure/HttpOnly, domain=, path=, "
    "max-age=, expires=, ... - each followed by 0-2 ordinary attributes): they must change nothing. In 8% of histories some Set-Cookie fields "
    "get an Expires date whose year sits at an edge of the RFC 6265 5.1.1 year rule (two-digit 68/69/70/71/99/00/01, "
    "three-digit, four-digit 1600/1601/1969/1970/2000/2038/2068..2070/2100, years around the virtual 'now') in the "
    "IMF / RFC 850 / asctime / Netscape spellings or as a quoted string of the four tokens in any order the algorithm "
    "reads, separated by ' ', '-', '/' or ','; one in five of those histories also uses a year standing before the day of "
    "month, or a day the month does not have (off-lattice spellings like the four above). 2% end "
    "with real ClientSession requests through the simulated network (the first response sets one cookie, in 40% of "
    "them next to an ignored field). 23 directed histories run first. "
    "Non-trivial: the reference both attached a cookie to some query and withheld a live "
    "cookie from some query (scoping mattered). Distinct = sequence of operation classes (kind, host-only/domain, "
    "expiry class, acceptance)."
)
ENUM_RULE = ("24 hand-written minimal histories, one per scoping rule (host-only, domain, lookalike host, cross-site set, "
             "Secure, treat_as_secure_origin, path-match, IP hosts, Expires/Max-Age, the year rule of Expires dates, delete, clear_domain, shared cookies, "
             "save/load), one per finding of round 1 and two responses mixing Set-Cookie fields that are ignored as a "
             "whole with fields that set cookies, each judged on the full 9x5x2 query lattice")
ENUM_IS_EXHAUSTIVE = False
COMPONENTS = {
    "real": ["aiohttp.cookiejar.CookieJar", "aiohttp._cookie_helpers.parse_set_cookie_headers", "yarl.URL",
             "json save/load through a real file", "sample: aiohttp.ClientSession/TCPConnector/ClientRequest"],
    "stub": ["wall clock (virtual)", "sample: network (SimNet), DNS (SimResolver), server (scripted raw peer)"],
}
ASSUMPTIONS = [
    "a cookie is expired when its expiry-time <= now (RFC 6265 says 'in the past'; a Max-Age=N cookie has lived N s)",
    "documented aiohttp deviations are configuration of the reference: IP-literal hosts are refused/ignored unless "
    "unsafe=True; no public-suffix list; cookies added without a response URL are 'shared' (sent with every "
    "request); a Domain attribute ending in '.' is ignored (tested behaviour); save() persists session cookies; a "
    "Set-Cookie whose cookie-name is the name of a cookie attribute (path, domain, max-age, expires, secure, httponly, "
    "samesite, partitioned, version, comment) is ignored as a whole (tested behaviour, tests/test_cookie_helpers.py; "
    "RFC 6265 would store a cookie of that name)",
    "filter_cookies returns a mapping keyed by name: of several same-name cookies the RFC would send, any one is accepted",
    "before a backward wall-clock jump an observation is forced, so both stores have evicted what had expired",
]

EPOCH0 = 1_700_000_000.0  # sim.seams epoch (asserted in run())

HOSTS = ["example.com", "sub.example.com", "a.sub.example.com", "other.com", "badexample.com",
         "example.com.", "com", "127.0.0.1", "[::1]"]
REF_HOSTS = [h.strip("[]") for h in HOSTS]
PATHS = ["/", "/p", "/p/", "/p/q", "/pq"]
RESP_PATHS = PATHS + ["/p/q/r", "", "/p/q/"]
SCHEMES = ["http", "https", "ws", "wss"]
NAMES = ["a", "b", "sid"]
NEIGH = {
    0: [1, 4, 5, 6, 2], 1: [0, 2], 2: [1, 0], 3: [6, 0], 4: [0], 5: [0], 6: [0, 3], 7: [8], 8: [7],
}
TAS_CHOICES = [
    ["str", ["http://example.com"]],
    ["url", ["http://sub.example.com"]],
    ["list", ["http://example.com", "ws://sub.example.com"]],
    ["list", ["http://127.0.0.1", "http://example.com:8080"]],
    ["url", ["ws://example.com"]],
]

_URLS: dict = {}


def _url(s: int, h: int, path: str):
    k = (s, h, path)
    u = _URLS.get(k)
    if u is None:
        from yarl import URL

        u = _URLS[k] = URL(f"{SCHEMES[s]}://{HOSTS[h]}{path}")
    return u


# --------------------------------------------------------------------------
# scenario generation

_WD = ["Mon", "Tue", "Wed", "Thu", "Fri", "Sat", "Sun"]
_WDL = ["Monday", "Tuesday", "Wednesday", "Thursday", "Friday", "Saturday", "Sunday"]
_MON = ["Jan", "Feb", "Mar", "Apr", "May", "Jun", "Jul", "Aug", "Sep", "Oct", "Nov", "Dec"]


def fmt_date(ts: int, fmt: int) -> str:
    import datetime

    d = datetime.datetime(1970, 1, 1) + datetime.timedelta(seconds=ts)
    wd, mon = d.weekday(), _MON[d.month - 1]
    hms = f"{d.hour:02d}:{d.minute:02d}:{d.second:02d}"
    if fmt == 0:  # IMF-fixdate
        return f"{_WD[wd]}, {d.day:02d} {mon} {d.year:04d} {hms} GMT"
    if fmt == 1:  # RFC 850 (two-digit year: only 1970..2069)
        return f"{_WDL[wd]}, {d.day:02d}-{mon}-{d.year % 100:02d} {hms} GMT"
    if fmt == 2:  # asctime
        return f"{_WD[wd]} {mon} {d.day:2d} {hms} {d.year:04d}"
    if fmt == 3:  # numeric zone
        return f"{_WD[wd]}, {d.day:02d} {mon} {d.year:04d} {hms} -0000"
    if fmt == 4:  # Netscape style with 4-digit year
        return f"{_WD[wd]}, {d.day:02d}-{mon}-{d.year:04d} {hms} GMT"
    if fmt == 5:  # quoted, no week day
        return f'"{d.day:02d} {mon} {d.year:04d} {hms} GMT"'
    if fmt == 6:  # no week day (accepted by the RFC 6265 5.1.1 algorithm)
        return f"{d.day} {mon} {d.year:04d} {hms} GMT"
    return f"{_WD[wd].lower()}, {d.day:02d} {mon.lower()} {d.year:04d} {hms} gmt"  # 7: lower case


_STD_DATE = re.compile(
    r"(?:[A-Z][a-z]{2}, \d\d[ -][A-Z][a-z]{2}[ -]\d{4} \d\d:\d\d:\d\d (?:GMT|[+-]0000)"
    r"|[A-Z][a-z]+day, \d\d-[A-Z][a-z]{2}-\d\d \d\d:\d\d:\d\d GMT"
    r"|[A-Z][a-z]{2} [A-Z][a-z]{2} [ \d]\d \d\d:\d\d:\d\d \d{4}"
    r'|"\d\d [A-Z][a-z]{2} \d{4} \d\d:\d\d:\d\d GMT")\Z')


# Further spellings of a date that RFC 6265 5.1.1 reads and that are ordinary on the wire (so they are
# no "extras"): the Netscape form with an abbreviated week day and a two- or four-digit year, and a quoted
# string holding the four tokens (time, day of month, month, year - the day before the year, as 5.1.1 gives a
# one- or two-digit token to the day of month first) in any order, separated by spaces, '-', '/' or ','.
_STD_DATE2 = re.compile(
    r"(?:[A-Z][a-z]{2}, \d\d[ -][A-Z][a-z]{2}[ -]\d{2,4} \d\d:\d\d:\d\d GMT"
    r'|"[A-Za-z\d:,/ -]+")\Z')

# years at the edges of RFC 6265 5.1.1: two-digit years 70..99 are 19xx and 0..69 are 20xx (step 3/4 of the
# year rule), a year below 1601 fails the parse (the attribute is ignored); plus years around "now" of the
# virtual clock (2023) and the end of 32-bit time
YEARS_2 = ["68", "69", "69", "70", "70", "71", "99", "00", "01", "22", "23", "24", "38", "50"]
YEARS_3 = ["069", "070", "100", "999"]
YEARS_4 = ["1600", "1601", "1601", "1900", "1969", "1970", "1999", "2000", "2022", "2024", "2038", "2068", "2069",
           "2070", "2100", "0069", "0070"]
_ORDERS = [o for o in ("tdmy", "tdym", "tmdy", "dtmy", "dtym", "dmty", "dmyt", "dytm", "dymt", "mtdy", "mdty", "mdyt")]


def full_year(tok: str) -> int:
    """The year a year-token means (RFC 6265 5.1.1): used for the week day, which no parser reads."""
    y = int(tok)
    return y + 1900 if 70 <= y <= 99 else y + 2000 if 0 <= y <= 69 else y


def spell_date(ytok: str, month: int, day: int, h: int, mi: int, sec: int, shape: int, order: str = "dmyt",
               sep: str = " ", short_time: bool = False) -> str:
    """A date with the year written as `ytok`, in one of the shapes both RFC 6265 5.1.1 and an HTTP date
    tokenizer read.  shape 0 IMF-fixdate, 1 RFC 850 (full week day), 2 asctime, 3 Netscape (abbreviated week
    day, dashes), 4 the same with spaces, 5 quoted tokens in `order` joined by `sep`."""
    import datetime

    fy = full_year(ytok)
    try:
        wd = datetime.date(fy, month, day).weekday() if fy >= 1 else 0
    except ValueError:
        wd = 0
    mon = _MON[month - 1]
    hms = f"{h:02d}:{mi:02d}:{sec:02d}"
    if shape == 0:
        return f"{_WD[wd]}, {day:02d} {mon} {ytok} {hms} GMT"
    if shape == 1:
        return f"{_WDL[wd]}, {day:02d}-{mon}-{ytok} {hms} GMT"
    if shape == 2:
        return f"{_WD[wd]} {mon} {day:2d} {hms} {ytok}"
    if shape == 3:
        return f"{_WD[wd]}, {day:02d}-{mon}-{ytok} {hms} GMT"
    if shape == 4:
        return f"{_WD[wd]}, {day:02d} {mon} {ytok} {hms} GMT"
    tok = {"t": f"{h}:{mi}:{sec}" if short_time else hms, "d": f"{day:02d}", "m": mon, "y": ytok}
    return '"' + sep.join(tok[c] for c in order) + '"'


_ORDERS_YEAR_FIRST = ["ydmt", "ymdt", "ytdm", "tymd", "mydt", "ytmd"]
_NO_SUCH_DATE = [("2000", 2, 30), ("2024", 2, 31), ("2023", 2, 29), ("1900", 2, 29), ("2100", 2, 29), ("2069", 4, 31),
                 ("1999", 6, 31), ("2038", 9, 31), ("2022", 11, 31), ("99", 2, 29), ("69", 2, 29), ("01", 2, 30)]


def date_class(v: str):
    """Two spellings of an Expires date that RFC 6265 5.1.1 decides in a way of its own: a year of three or four
    digits standing before the day of month (such a token is no day-of-month: that is 1*2DIGIT followed by a
    non-digit or the end), and a day the month does not have ("the date does not exist": the parse fails)."""
    seen_time = False
    for tok in R._TOKEN_RE.findall(v):
        if not seen_time and R._TIME_RE.match(tok):
            seen_time = True
            continue
        if R._DAY_RE.match(tok):
            break
        if re.match(r"\d{3,4}(?:\D|\Z)", tok):
            return "expires_year_before_day_of_month"
    m = re.search(r"(?<![\d:])(29|30|31)(?![\d:])", v)
    if m and R.parse_cookie_date(v) is None and R.parse_cookie_date(v[:m.start()] + "01" + v[m.end():]) is not None:
        return "expires_no_such_date"
    return None


def _gen_spelt_expires(rng, odd=None):
    if odd == "year_first":
        ytok = rng.choice(YEARS_4 + YEARS_3)
        return spell_date(ytok, rng.randint(1, 12), rng.randint(1, 28), rng.randint(0, 23), rng.randint(0, 59),
                          rng.randint(0, 59), 5, rng.choice(_ORDERS_YEAR_FIRST), rng.choice([" ", " ", "-", "/", ", "]))
    if odd == "no_such_date":
        ytok, mo, d = rng.choice(_NO_SUCH_DATE)
        shape = rng.choice([1, 3, 4, 5] if len(ytok) == 2 else [0, 2, 3, 4, 5])
        return spell_date(ytok, mo, d, rng.randint(0, 23), rng.randint(0, 59), rng.randint(0, 59), shape,
                          rng.choice(_ORDERS), rng.choice([" ", "-", "/"]))
    r = rng.random()
    if r < 0.5:
        ytok = rng.choice(YEARS_2)
    elif r < 0.9:
        ytok = rng.choice(YEARS_4)
    else:
        ytok = rng.choice(YEARS_3)
    if len(ytok) == 2:
        shape = rng.choice([1, 1, 3, 3, 4, 5])
    elif len(ytok) == 4:
        shape = rng.choice([0, 0, 2, 3, 4, 5])
    else:
        shape = rng.choice([3, 4, 5])
    return spell_date(ytok, rng.randint(1, 12), rng.randint(1, 28), rng.randint(0, 23), rng.randint(0, 59),
                      rng.randint(0, 59), shape, rng.choice(_ORDERS), rng.choice([" ", " ", "-", "/", ", "]),
                      rng.random() < 0.2)


def _add_date_spellings(rng, scn):
    """Post-pass of gen() (drawn after every other draw): some Set-Cookie fields of the history get an Expires
    date whose year sits at an edge of the RFC 6265 5.1.1 year rule, in one of the spellings of spell_date();
    most of them lose a Max-Age (which would take precedence)."""
    specs = [spec for op in scn["ops"] if op["k"] == "set" for spec in op["c"] if not spec.get("ign")]
    if not specs:
        return
    chosen = [spec for spec in specs if rng.random() < 0.5] or [rng.choice(specs)]
    # one history in five of these also uses one kind of date that 5.1.1 decides in a way of its own (date_class)
    odd = rng.choice(["year_first", "no_such_date"]) if rng.random() < 0.2 else None
    for spec in chosen:
        drop = ("expires", "max-age") if rng.random() < 0.8 else ("expires",)
        lower = bool(spec["a"]) and all(a[0] == a[0].lower() for a in spec["a"])
        attrs = [a for a in spec["a"] if a[0].lower() not in drop]
        attrs.insert(rng.randint(0, len(attrs)), ["expires" if lower else "Expires", _gen_spelt_expires(rng, odd if odd and rng.random() < 0.6 else None)])
        spec["a"] = attrs
        spec["ds"] = 1


def _attrs_of(hdr: str, name: str):
    out = []
    for part in hdr.split(";")[1:]:
        a, _, v = part.partition("=")
        if a.strip().lower() == name:
            out.append(v.strip())
    return out


def syntax_class(hdr: str):
    """Off-lattice spelling of a Set-Cookie string (the 'extras' of gen()), or None."""
    if any(R._delta_seconds(m) is None for m in _attrs_of(hdr, "max-age")):
        return "max_age_not_rfc_syntax"
    exps = _attrs_of(hdr, "expires")
    if exps and not _STD_DATE.match(exps[-1]) and not _STD_DATE2.match(exps[-1]):
        return "expires_nonstandard_date_format"
    # (year-before-day and no-such-date spellings were classes of their own, C16-F10/F11, until the jar's date
    # parser was repaired; such histories are now judged like any other)
    paths = _attrs_of(hdr, "path")
    if paths and paths[-1].endswith("//"):
        return "path_multiple_trailing_slashes"
    return None


def _parent(h: str):
    if h in ("com", "127.0.0.1", "[::1]", "example.com."):
        return None
    return h.split(".", 1)[1]


EXTRAS = ["domain_case", "max_age", "date", "slashes"]


def _domain_choices(hi: int, extras):
    h = HOSTS[hi]
    out = [h, h, "." + h]
    p = _parent(h)
    if p:
        out += [p, p, "." + p, p + "."]
        pp = _parent(p)
        if pp:
            out += [pp, "." + pp]
    out += [h + "."]
    if hi == 0:
        out += ["sub.example.com", "badexample.com", "other.com"]
    elif hi == 4:
        out += ["example.com", "example.com", ".example.com"]
    elif hi == 3:
        out += ["example.com"]
    elif hi == 1:
        out += ["a.sub.example.com", "other.com"]
    elif hi == 5:
        out += ["example.com", "example.com.", "com."]
    elif hi == 7:
        out = ["127.0.0.1", "0.0.1", "127.0.0.1", "[::1]"]
    elif hi == 8:
        out = ["::1", "[::1]", "1"]
    if extras == "domain_case" and hi not in (7, 8):
        out += [h.upper(), (p or h).capitalize()]
    return out


def _gen_cookie(rng, hi, names, t_approx, counter, extras, simple=False):
    name = rng.choice(names)
    counter[0] += 1
    value = f"v{counter[0]}"
    attrs = []
    if rng.random() < 0.5:
        attrs.append(["Domain", rng.choice(_domain_choices(hi, extras))])
    if rng.random() < 0.6:
        pc = ["/", "/p", "/p", "/p/", "/p/q", "/pq", "p", ""]
        if extras == "slashes":
            pc.append("/p//")
        attrs.append(["Path", rng.choice(pc)])
    if rng.random() < 0.2:
        attrs.append(["Secure", None])
    r = rng.random()
    ma = ["0", "-1", "1", "2", "5", "5", "10", "60", "3600", "10000000000"]
    if extras == "max_age":
        ma += ["abc", "1.5", "+5"]
    if r < 0.25:
        attrs.append(["Max-Age", rng.choice(ma)])
    elif r < 0.45 and not simple:
        attrs.append(["Expires", _gen_expires(rng, t_approx, extras)])
    elif r < 0.55 and not simple:
        attrs.append(["Max-Age", rng.choice(ma)])
        attrs.append(["Expires", _gen_expires(rng, t_approx, extras)])
    if not simple:
        if rng.random() < 0.1:
            attrs.append(["HttpOnly", None])
        if rng.random() < 0.1:
            attrs.append(["SameSite", "Lax"])
    rng.shuffle(attrs)
    # a date aiohttp's tokenizer cannot read is put last, so that it costs only the Expires attribute
    attrs.sort(key=lambda a: a[0] == "Expires" and not _STD_DATE.match(a[1]))
    if rng.random() < 0.1:
        attrs = [[a.lower(), v] for a, v in attrs]
    return {"n": name, "v": value, "a": attrs}


def _gen_expires(rng, t_approx, extras):
    off = rng.choice([-10 ** 9, None, -1, 0, 1, 2, 3, 5, 5, 10, 60, 86400 * 400])
    ts = 0 if off is None else int(EPOCH0 + int(t_approx) + off)
    fmts = [0, 0, 0, 1, 2, 3, 4, 5]
    if extras == "date":
        fmts += [6, 7]
    return fmt_date(ts, rng.choice(fmts))


def render(spec) -> str:
    s = spec["n"] if spec["v"] is None else f"{spec['n']}={spec['v']}"
    for a, v in spec["a"]:
        s += f"; {a}" if v is None else f"; {a}={v}"
    return s


IGNORED_FORMS = ["domain", "domain", "path", "path", "max-age", "expires", "flag", "flag", "other",
                 "no_equals", "no_equals", "no_name", "empty"]


def _gen_ignored_field(rng, hi, names, t_approx, tag):
    """A Set-Cookie field value that is ignored as a whole (it stores nothing and changes nothing): its
    name-value pair has no '=' or no name (RFC 6265 5.2 steps 2 and 5), or its cookie-name is the name of a
    cookie attribute (aiohttp's tested refusal, Config.reserved_names_refused).  What follows the first
    ';' are ordinary attributes from the lattice - which must stay without effect.  {"ign": form} marks the
    spec; "t" is its tag for the oracle's book-keeping (nothing on the wire is unique to it)."""
    form = rng.choice(IGNORED_FORMS)
    cap = rng.choice([str, str, str.title, str.upper])
    if form == "domain":
        n, v = cap("domain"), rng.choice(_domain_choices(hi, None))
    elif form == "path":
        n, v = cap("path"), rng.choice(["/", "/", "/p", "/p/q", "/pq"])
    elif form == "max-age":
        n, v = cap("max-age"), rng.choice(["0", "0", "-1", "5", "3600"])
    elif form == "expires":
        n, v = cap("expires"), _gen_expires(rng, t_approx, None)
    elif form == "flag":
        n, v = cap(rng.choice(["secure", "secure", "httponly", "partitioned"])), None
    elif form == "other":
        n, v = rng.choice([("SameSite", "Lax"), ("samesite", "None"), ("Version", "1"), ("comment", "x")])
    elif form == "no_equals":
        n, v = rng.choice(list(names) + ["x"]), None
    elif form == "no_name":
        n, v = "", tag
    else:
        n, v = "", None
    attrs = []
    if form != "empty":
        for _ in range(rng.choice([0, 1, 1, 2])):
            a = rng.choice(["Domain", "Path", "Secure", "Max-Age"])
            if a == "Domain":
                attrs.append([a, rng.choice(_domain_choices(hi, None))])
            elif a == "Path":
                attrs.append([a, rng.choice(["/", "/p", "/p/", "/p/q", "/pq"])])
            elif a == "Secure":
                attrs.append([a, None])
            else:
                attrs.append([a, rng.choice(["0", "-1", "5", "3600"])])
    return {"n": n, "v": v, "a": attrs, "t": tag, "ign": form}


def _add_ignored_fields(rng, scn, names):
    """Post-pass of gen() (all its draws come after every other draw of the scenario, so the rest of the
    scenario is what it would have been): some responses carry, between / before / after their Set-Cookie
    fields, one or two fields that are ignored as a whole."""
    sets = [op for op in scn["ops"] if op["k"] == "set"]
    if not sets:
        return
    chosen = [op for op in sets if rng.random() < 0.5] or [rng.choice(sets)]
    k = 0
    t = 0.0
    for op in scn["ops"]:
        if op["k"] in ("adv", "jump"):
            t += op["dt"]
        elif op["k"] == "toexp":
            t += 3
        if not any(op is o for o in chosen):
            continue
        for _ in range(rng.choice([1, 1, 1, 2])):
            k += 1
            spec = _gen_ignored_field(rng, op["u"][1], names, t, f"ign{k}")
            # mostly after a field that does set a cookie
            pos = rng.randint(1, len(op["c"])) if rng.random() < 0.8 else rng.randint(0, len(op["c"]))
            op["c"] = op["c"][:pos] + [spec] + op["c"][pos:]


def _gen_queries(rng, used, k):
    out = []
    pool = []
    for h in used:
        pool.append(h)
        pool.extend(NEIGH[h])
    for _ in range(k):
        if pool and rng.random() < 0.8:
            h = rng.choice(pool)
        else:
            h = rng.randrange(len(HOSTS))
        out.append([rng.choice([0, 0, 1, 1, 2, 3]), h, rng.randrange(len(PATHS))])
    return out


def gen(rng, tier, index):
    unsafe = rng.random() < 0.3
    # at most one kind of off-lattice spelling per history (upper-case Domain, Max-Age that is not
    # [-]digits, '/p//', dates outside the three HTTP formats): divergences they cause stay attributable
    extras = rng.choice(EXTRAS) if rng.random() < 0.16 else None
    cfg = {"unsafe": unsafe, "quote": rng.random() < 0.8, "tas": None}
    if rng.random() < 0.2:
        cfg["tas"] = rng.choice(TAS_CHOICES)
    hw = [6, 5, 2, 1, 2, 1, 1, 1, 1]
    if unsafe:
        hw[7] = hw[8] = 3
    names = rng.sample(NAMES, rng.choice([1, 1, 2, 3]))
    nops = rng.randint(1, 12 if tier == "quick" else 20)
    ops = []
    used = []
    counter = [0]
    t = 0.0
    kinds = ["set"] * 46 + ["api"] * 6 + ["adv"] * 9 + ["jump"] * 5 + ["toexp"] * 9 + ["clear"] * 2 + \
        ["clearp"] * 6 + ["cleard"] * 5 + ["iter"] * 3 + ["len"] * 1 + ["reload"] * 8
    for i in range(nops):
        k = "set" if i == 0 and rng.random() < 0.8 else rng.choice(kinds)
        op = {"k": k}
        if k == "set":
            hi = rng.choices(range(len(HOSTS)), hw)[0]
            if hi not in used:
                used.append(hi)
            op["u"] = [rng.choice([0, 0, 0, 1, 1, 2, 3]), hi, rng.choice(RESP_PATHS)]
            op["c"] = [_gen_cookie(rng, hi, names, t, counter, extras) for _ in range(rng.choice([1, 1, 1, 2, 3]))]
            prior = [o for o in ops if o["k"] == "set"]
            if prior and rng.random() < 0.15:
                # the same cookie issued again - same URL, name, value, Domain and Path - with other attributes
                # (a Secure upgrade or downgrade, another lifetime): it replaces the stored one (5.3 step 11).
                # "t" is its own tag for the oracle's book-keeping; the value on the wire is the old one.
                o = rng.choice(prior)
                spec = rng.choice(o["c"])
                keep = [list(a_) for a_ in spec["a"] if a_[0].lower() in ("domain", "path")]
                had_secure = any(a_[0].lower() == "secure" for a_ in spec["a"])
                more = [] if had_secure and rng.random() < 0.7 else [["Secure", None]] if rng.random() < 0.7 else []
                if rng.random() < 0.3:
                    more.append(["Max-Age", rng.choice(["5", "60", "3600"])])
                if rng.random() < 0.2:
                    more.append(["HttpOnly", None])
                counter[0] += 1
                op["u"] = list(o["u"])
                op["c"] = [{"n": spec["n"], "v": spec["v"], "a": keep + more, "t": f"{spec['v']}#r{counter[0]}"}]
        elif k == "api":
            form = rng.choice(["shared", "shared", "pairs", "simple", "simple_nourl"])
            op["form"] = form
            hi = rng.choices(range(len(HOSTS)), hw)[0]
            if form in ("pairs", "simple"):
                if hi not in used:
                    used.append(hi)
                op["u"] = [rng.choice([0, 1]), hi, rng.choice(RESP_PATHS)]
            if form in ("shared", "pairs"):
                counter[0] += 1
                op["c"] = [{"n": rng.choice(names), "v": f"v{counter[0]}", "a": []}]
            elif form == "simple":
                op["c"] = [_gen_cookie(rng, hi, names, t, counter, None, simple=True)]
            else:
                counter[0] += 1
                attrs = [["Domain", rng.choice(["example.com", "sub.example.com", ".example.com", "other.com"])]]
                if rng.random() < 0.5:
                    attrs.append(["Path", rng.choice(["/", "/p", "/p/"])])
                if rng.random() < 0.3:
                    attrs.append(["Max-Age", rng.choice(["5", "0", "60"])])
                if 0 not in used:
                    used.append(0)
                op["c"] = [{"n": rng.choice(names), "v": f"v{counter[0]}", "a": attrs}]
        elif k == "adv":
            op["dt"] = rng.choice([0.25, 0.5, 1, 1, 2, 4.75, 5, 5, 5.25, 10, 60, 3600])
            t += op["dt"]
        elif k == "jump":
            op["dt"] = rng.choice([1, 5, 10, 3600, 86400, -1, -5, -3600])
            t += op["dt"]
        elif k == "toexp":
            op["i"] = rng.randrange(3)
            op["off"] = rng.choice([0, 0, 0, -0.25, 0.25])
            op["how"] = rng.choice(["adv", "adv", "jump"])
            t += 3
        elif k == "clearp":
            by = rng.choice(["name", "value", "path", "secure", "domain", "none"])
            op["by"] = by
            if by == "name":
                op["arg"] = rng.choice(names)
            elif by == "value":
                op["arg"] = f"v{rng.randint(1, max(1, counter[0]))}"
            elif by == "path":
                op["arg"] = rng.choice(["/", "/p", "/p/", "/p/q"])
            elif by == "domain":
                op["arg"] = rng.choice(REF_HOSTS[:7])
            else:
                op["arg"] = None
        elif k == "cleard":
            op["d"] = rng.choice(["example.com", "example.com", "sub.example.com", "a.sub.example.com", "com",
                                  "other.com", "badexample.com", "ple.com", "example.com.", "127.0.0.1"])
        if rng.random() < 0.75:
            op["q"] = _gen_queries(rng, used, rng.randint(1, 6))
        ops.append(op)
    if rng.random() < 0.12:
        final = [[s, h, p] for h in range(len(HOSTS)) for p in range(len(PATHS))
                 for s in (rng.choice([0, 2]), rng.choice([1, 3]))]
    else:
        final = _gen_queries(rng, used, 12)
    scn = {"cfg": cfg, "ops": ops, "final": final, "wire": []}
    if rng.random() < 0.02:
        scn["wire"] = [[h, p] for _, h, p in _gen_queries(rng, used, 2)]
        ws = _gen_cookie(rng, scn["wire"][0][0], names, t, [counter[0] + 100], None, simple=True)
        ws["a"] = [a for a in ws["a"] if a[0].lower() != "max-age"]  # arrival time of the response is not exact
        scn["wire_set"] = ws
    # --- features added later: drawn last, so that a scenario without them is the scenario it was before
    if rng.random() < 0.12:
        _add_ignored_fields(rng, scn, names)
    if scn.get("wire_set") and rng.random() < 0.4:
        # the real response carries a second Set-Cookie field, one that is ignored as a whole
        j = _gen_ignored_field(rng, scn["wire"][0][0], names, t, "ignw")
        scn["wire_ignored"] = {"spec": j, "first": rng.random() < 0.2}
    if rng.random() < 0.08:
        _add_date_spellings(rng, scn)
    return scn


def _set(hi, path, *cookies, scheme=0, q=None):
    op = {"k": "set", "u": [scheme, hi, path], "c": [c for c in cookies]}
    if q:
        op["q"] = q
    return op


def _ck(n, v, *attrs):
    return {"n": n, "v": v, "a": [[a[0], a[1] if len(a) > 1 else None] for a in attrs]}


def _ig(tag, n, v, *attrs):
    form = ("empty" if v is None else "no_name") if not n else "no_equals" if n.lower() not in R.RESERVED_NAMES \
        else "flag" if v is None else n.lower()
    return {"n": n, "v": v, "a": [[a[0], a[1] if len(a) > 1 else None] for a in attrs], "t": tag, "ign": form}


def enumerate_cases(tier, seed):
    """Directed regression histories (each a minimal trigger of one scoping rule)."""
    cfg = {"unsafe": False, "quote": True, "tas": None}
    full = [[s, h, p] for h in range(len(HOSTS)) for p in range(len(PATHS)) for s in (0, 1)]

    def scn(ops, **c):
        cc = dict(cfg)
        cc.update(c)
        return {"cfg": cc, "ops": ops, "final": full, "wire": []}

    # DESIGN.md 11(e): host-only mark keyed by (domain, name)
    yield scn([_set(0, "/", _ck("a", "v1", ["Path", "/"])),
               _set(0, "/", _ck("a", "v2", ["Path", "/p"], ["Max-Age", "5"])),
               {"k": "adv", "dt": 10}])
    yield scn([_set(0, "/", _ck("a", "v1", ["Path", "/"])),
               _set(0, "/", _ck("a", "v2", ["Path", "/p"], ["Domain", "example.com"]))])
    # host-only / domain / lookalike / cross-site
    yield scn([_set(0, "/p/x", _ck("a", "v1")), _set(1, "/", _ck("b", "v2", ["Domain", "example.com"])),
               _set(4, "/", _ck("b", "v3", ["Domain", "example.com"])),
               _set(0, "/", _ck("sid", "v4", ["Domain", "sub.example.com"]))])
    # save/load keeps host-only and deadline
    yield scn([_set(0, "/", _ck("a", "v1", ["Max-Age", "5"])), _set(0, "/", _ck("b", "v2", ["Domain", "example.com"])),
               {"k": "reload"}, {"k": "adv", "dt": 4.75}, {"k": "adv", "dt": 0.25}])
    # secure, treat_as_secure_origin
    yield scn([_set(0, "/", _ck("a", "v1", ["Secure"]), scheme=1)])
    yield scn([_set(0, "/", _ck("a", "v1", ["Secure"]), scheme=1)], tas=["str", ["http://example.com"]])
    # paths
    yield scn([_set(0, "/", _ck("a", "v1", ["Path", "/p"])), _set(0, "/", _ck("b", "v2", ["Path", "/p/"])),
               _set(0, "/p/q/r", _ck("sid", "v3"))])
    # IP hosts
    yield scn([_set(7, "/", _ck("a", "v1")), _set(8, "/", _ck("b", "v2"))])
    yield scn([_set(7, "/", _ck("a", "v1")), _set(8, "/", _ck("b", "v2")),
               _set(7, "/", _ck("sid", "v3", ["Domain", "0.0.1"]))], unsafe=True)
    # expiry by Expires, Max-Age over Expires, delete
    yield scn([_set(0, "/", _ck("a", "v1", ["Expires", fmt_date(int(EPOCH0) + 5, 0)])),
               _set(0, "/", _ck("b", "v2", ["Expires", fmt_date(int(EPOCH0) - 5, 1)], ["Max-Age", "10"])),
               {"k": "toexp", "i": 0, "off": 0, "how": "adv"}, {"k": "toexp", "i": 0, "off": 0, "how": "jump"}])
    yield scn([_set(0, "/", _ck("a", "v1")), _set(0, "/", _ck("a", "v2", ["Max-Age", "0"]))])
    # clear_domain / predicate
    yield scn([_set(0, "/", _ck("a", "v1")), _set(1, "/", _ck("b", "v2")), _set(4, "/", _ck("sid", "v3")),
               {"k": "cleard", "d": "example.com"}])
    # shared cookies
    yield scn([{"k": "api", "form": "shared", "c": [_ck("a", "v1")]}, {"k": "reload"}])
    # minimal histories of the findings of round 1 (see the report / known_findings.json)
    yield scn([_set(0, "/", _ck("a", "v1", ["Max-Age", "5"])), _set(0, "/", _ck("a", "v2")), {"k": "adv", "dt": 5}])
    yield scn([_set(0, "/", _ck("a", "v1", ["Path", "/p"])), _set(0, "/", _ck("a", "v2", ["Path", "/p/"]))])
    yield scn([_set(0, "/", _ck("a", "v1")), _set(0, "/", _ck("a", "v2", ["Expires", fmt_date(0, 0)]))])
    yield scn([_set(0, "/", _ck("a", "v1", ["Domain", "EXAMPLE.COM"]))])
    yield scn([_set(0, "/", _ck("a", "v1", ["Max-Age", "+5"])), {"k": "adv", "dt": 5}])
    yield scn([_set(0, "/", _ck("a", "v1", ["Max-Age", "abc"], ["Expires", fmt_date(int(EPOCH0) - 60, 0)]))])
    yield scn([_set(0, "/", _ck("a", "v1", ["Expires", fmt_date(int(EPOCH0) - 60, 6)]))])
    yield scn([_set(0, "/", _ck("a", "v1", ["Path", "/p//"]))])
    # a response whose Set-Cookie fields are partly ignored as a whole (no '=', no name, empty, cookie-name that
    # is an attribute name): the fields around them mean what they mean alone
    yield scn([_set(1, "/p/x", _ig("ign1", "Secure", None), _ck("a", "v1"), _ig("ign2", "secure", None, ["Path", "/"]),
                    _ck("b", "v2", ["Path", "/p"], ["Domain", "sub.example.com"]),
                    _ig("ign3", "path", "/", ["Max-Age", "0"]), _ig("ign4", "", "ign4", ["Domain", "example.com"]),
                    _ck("sid", "v3", ["Max-Age", "60"]), _ig("ign5", "Domain", "example.com", ["Path", "/"]),
                    _ig("ign6", "sid", None, ["Domain", "example.com"]), _ig("ign7", "", None)),
               {"k": "adv", "dt": 5}, {"k": "reload"}])
    yield scn([_set(0, "/", _ck("a", "v1", ["Secure"], ["Domain", "example.com"]), scheme=1),
               _set(1, "/p/q", _ck("a", "v2", ["Expires", fmt_date(int(EPOCH0) + 60, 0)]), _ig("ign1", "max-age", "0"),
                    _ig("ign2", "Expires", fmt_date(int(EPOCH0) - 60, 0), ["Domain", "example.com"]),
                    _ck("b", "v3", ["Domain", "example.com"]), _ig("ign3", "HttpOnly", None, ["Secure"]),
                    _ig("ign4", "SameSite", "Lax", ["Path", "/p/q"]), scheme=1),
               {"k": "adv", "dt": 10}])


    # Expires dates whose year sits at an edge of the RFC 6265 5.1.1 year rule (two-digit 70..99 = 19xx, 0..69 =
    # 20xx; below 1601 the date - hence the attribute - is void), each replacing a live cookie of its name
    yield scn([_set(0, "/", _ck("a", "v1"), _ck("b", "v2"), _ck("sid", "v3")),
               _set(0, "/", _ck("a", "v4", ["Expires", spell_date("69", 1, 1, 0, 0, 0, 3)]),
                    _ck("b", "v5", ["Expires", spell_date("70", 1, 1, 0, 0, 0, 1)]),
                    _ck("sid", "v6", ["Expires", spell_date("68", 12, 31, 23, 59, 59, 4)])),
               _set(1, "/", _ck("a", "v7", ["Expires", spell_date("99", 12, 31, 23, 59, 59, 1)]),
                    _ck("b", "v8", ["Expires", spell_date("00", 1, 1, 0, 0, 0, 5, "mdyt", "/")]),
                    _ck("sid", "v9", ["Expires", spell_date("1600", 6, 15, 12, 0, 0, 0)])),
               _set(3, "/", _ck("a", "v10", ["Expires", spell_date("1601", 1, 1, 0, 0, 0, 2)]),
                    _ck("b", "v11", ["Expires", spell_date("2069", 1, 1, 0, 0, 0, 0)]),
                    _ck("sid", "v12", ["Expires", spell_date("069", 7, 4, 1, 2, 3, 5, "tdmy", "-", True)])),
               {"k": "reload"}, {"k": "jump", "dt": 86400}])


def shrink(scn):
    ops = scn["ops"]
    n = len(ops)
    if scn.get("wire"):
        c = dict(scn)
        c["wire"] = []
        yield c
        if scn.get("wire_ignored"):
            c = dict(scn)
            del c["wire_ignored"]
            yield c
    if sum(1 for op in ops for spec in op.get("c", ()) if spec.get("ign")) > 1:
        # every field that is ignored as a whole, at once
        c = dict(scn)
        c["ops"] = [dict(op, c=[spec for spec in op["c"] if not spec.get("ign")]) if op.get("c") else op for op in ops]
        c["ops"] = [op for op in c["ops"] if op.get("c") or op["k"] not in ("set", "api")]
        yield c
    if any(spec.get("ds") for op in ops for spec in op.get("c", ())):
        # every specially spelt Expires date at once
        c = dict(scn)
        c["ops"] = [dict(op, c=[{k_: ([a for a in v_ if a[0].lower() != "expires"] if k_ == "a" else v_)
                                 for k_, v_ in spec.items() if k_ != "ds"} if spec.get("ds") else spec
                                for spec in op["c"]]) if op.get("c") else op for op in ops]
        yield c
    size = n // 2
    while size >= 1:
        for i in range(0, n, size):
            c = dict(scn)
            c["ops"] = ops[:i] + ops[i + size:]
            if len(c["ops"]) < n:
                yield c
        size //= 2
    cfg = scn["cfg"]
    for key, simple in (("tas", None), ("unsafe", False), ("quote", True)):
        if cfg.get(key) != simple:
            c = dict(scn)
            c["cfg"] = dict(cfg)
            c["cfg"][key] = simple
            yield c
    if len(scn["final"]) > 1:
        h = len(scn["final"]) // 2
        for part in (scn["final"][:h], scn["final"][h:]):
            c = dict(scn)
            c["final"] = part
            yield c
    for i, op in enumerate(ops):
        if op.get("q"):
            c = dict(scn)
            c["ops"] = list(ops)
            c["ops"][i] = {k: v for k, v in op.items() if k != "q"}
            yield c
        if op["k"] in ("set", "api") and len(op.get("c", [])) > 1:
            for j in range(len(op["c"])):
                c = dict(scn)
                c["ops"] = list(ops)
                c["ops"][i] = dict(op)
                c["ops"][i]["c"] = op["c"][:j] + op["c"][j + 1:]
                yield c
        if op["k"] in ("set", "api"):
            for j, spec in enumerate(op.get("c", [])):
                for a in range(len(spec["a"])):
                    c = dict(scn)
                    c["ops"] = list(ops)
                    c["ops"][i] = dict(op)
                    c["ops"][i]["c"] = list(op["c"])
                    ns = dict(spec)
                    ns["a"] = spec["a"][:a] + spec["a"][a + 1:]
                    c["ops"][i]["c"][j] = ns
                    yield c


# --------------------------------------------------------------------------
# the run

_TMP = "/dev/shm" if os.path.isdir("/dev/shm") and os.access("/dev/shm", os.W_OK) else None


def _tmp_path():
    import tempfile

    return os.path.join(_TMP or tempfile.gettempdir(), f"verif-c16-{os.getpid()}.json")


def describe_op(op) -> str:
    k = op["k"]
    if k == "set":
        s, h, p = op["u"]
        return f"Set-Cookie from {SCHEMES[s]}://{HOSTS[h]}{p}: " + " | ".join(render(c) for c in op["c"])
    if k == "api":
        u = op.get("u")
        us = f"{SCHEMES[u[0]]}://{HOSTS[u[1]]}{u[2]}" if u else "no URL"
        return f"update_cookies[{op['form']}] ({us}): " + " | ".join(render(c) for c in op["c"])
    if k in ("adv", "jump"):
        return f"{'advance' if k == 'adv' else 'wall-clock jump'} {op['dt']} s"
    if k == "toexp":
        return f"move clock ({op['how']}) to pending expiry #{op['i']} {op['off']:+} s"
    if k == "clearp":
        return f"clear(predicate {op['by']}={op['arg']!r})"
    if k == "cleard":
        return f"clear_domain({op['d']!r})"
    return {"clear": "clear()", "iter": "list(jar)", "len": "len(jar)", "reload": "save -> fresh jar -> load"}[k]


def _frame_of(exc) -> str:
    tb = exc.__traceback__
    last = "?"
    while tb is not None:
        fn = tb.tb_frame.f_code.co_filename
        if "/aiohttp/" in fn:
            last = f"{fn.rsplit('/', 1)[-1]}:{tb.tb_frame.f_code.co_name}"
        tb = tb.tb_next
    return last


def run(scn, ch, log=False):
    from http.cookies import SimpleCookie

    from aiohttp import CookieJar
    from sim import seams

    assert seams._state["epoch0"] == EPOCH0
    viols = []
    seen_keys = set()
    tainted = set()  # (domain, name) families with a reported divergence
    probes = {}

    def probe(k, n=1):
        probes[k] = probes.get(k, 0) + n

    cfg = scn["cfg"]
    tas = cfg.get("tas")

    def new_jar():
        from yarl import URL

        kw = {"unsafe": cfg["unsafe"], "quote_cookie": cfg["quote"]}
        if tas:
            form, origins = tas
            if form == "str":
                kw["treat_as_secure_origin"] = origins[0]
            elif form == "url":
                kw["treat_as_secure_origin"] = URL(origins[0])
            else:
                kw["treat_as_secure_origin"] = [URL(o) if i % 2 else o for i, o in enumerate(origins)]
        return CookieJar(**kw)

    sec_origins = []
    if tas:
        for o in tas[1]:
            sch, rest = o.split("://", 1)
            host, _, port = rest.partition(":")
            sec_origins.append((sch, host, int(port) if port else R.DEFAULT_PORTS[sch]))
    ref = R.Store(R.Config(unsafe=cfg["unsafe"], secure_origins=sec_origins, reserved_names_refused=True))

    with World(ch, scn.get("seed", 0), log_events=log) as w:
        loop = w.loop
        state = {"jar": new_jar(), "opi": -1, "attached": False, "withheld": False, "tmax": EPOCH0}
        info = {}  # tag -> {"op": index, "hdr": str, "host": ref host or None}
        family = {}  # (domain, name) -> [tags of accepted set operations]
        removed_op = {}  # tag -> op index at which it left the reference store
        family_syntax = {}  # (domain, name) -> off-lattice spelling used by a Set-Cookie of that family
        val_tags = {}  # value -> tags carrying it, in order of issue
        val_keys = {}  # value -> (domain, path, name) keys it was accepted under
        pred = {}  # tag -> tag of the cookie it replaced (same name, domain, path)
        ops = scn["ops"]

        def now():
            return EPOCH0 + loop._vnow + loop.wall_clock_skew

        def history(upto):
            lines = [f"jar: unsafe={cfg['unsafe']} quote_cookie={cfg['quote']} treat_as_secure_origin={tas and tas[1]}"]
            for i, op in enumerate(ops[: upto + 1]):
                lines.append(f"  {i}: {describe_op(op)}")
            if upto >= len(ops) and scn.get("wire"):
                ws = scn.get("wire_set")
                lines.append("  then ClientSession(cookie_jar=jar) GET "
                             + ", ".join(f"http://{HOSTS[h]}{PATHS[p]}" for h, p in scn["wire"])
                             + (f"; first response carries Set-Cookie: {render(ws)}" if ws else "")
                             + (f" and ({'before' if scn['wire_ignored']['first'] else 'after'} it) Set-Cookie: "
                                f"{render(scn['wire_ignored']['spec'])}" if ws and scn.get("wire_ignored") else ""))
            return "\n".join(lines)

        def violate(inv, key, msg, fam=None):
            if fam is not None:
                if fam in tainted:
                    return
                tainted.add(fam)
            if (inv, key) in seen_keys or len(viols) >= 8:
                return
            seen_keys.add((inv, key))
            viols.append({"invariant": inv, "key": key,
                          "message": msg + "\nhistory:\n" + history(state["opi"])})

        def guarded(what, fn, *a):
            try:
                return fn(*a)
            except Exception as e:  # an aiohttp operation of the history must not raise
                violate("no_exception", f"{what}:{type(e).__name__}@{_frame_of(e)}",
                        f"{what} raised {e!r}")
                return None

        # ---- classification ------------------------------------------------
        def cookie_of(tag):
            for c in ref.cookies.values():
                if c.tag == tag:
                    return c
            return ref.graveyard.get(tag)

        def members(c):
            return [x for x in (cookie_of(t) for t in family.get((c.domain, c.name), ())) if x is not None]

        def family_class(c, mem):
            """Known way in which the jar's handling of this (domain, name) family has already left
            RFC 6265 - every later divergence inside the family is attributed to it (normal form of the
            history), whatever its symptom:
              * a Set-Cookie of the family used an off-lattice spelling (extras of gen()) or an Expires
                date equal to the epoch (family_syntax, noted when the cookie was set);
              * two cookies of the family have paths differing only by trailing slashes.
            (A session cookie that replaced a cookie with a deadline was a third class, C16-F3, until
            the jar was repaired; such histories are now judged like any other.)"""
            syn = family_syntax.get((c.domain, c.name))
            if syn:
                return syn
            for i, x in enumerate(mem):
                for y in mem[i + 1:]:
                    if x.path != y.path and x.path.rstrip("/") == y.path.rstrip("/"):
                        return "same_name_path_differs_by_trailing_slash"
            return None

        def oversend_key(c, fate, why):
            """why: first failing test of 5.4 for a live cookie, or None."""
            if fate is None:
                return "unknown_value"
            if c is None:  # a Set-Cookie string that is ignored as a whole leaves no cookie behind
                return fate.split(":", 1)[1] if fate.startswith("rejected:") else "unknown_value"
            if fate.startswith("rejected:"):
                key = fate.split(":", 1)[1]
            elif fate in ("expired", "replaced", "cleared"):
                key = fate
            else:
                key = why or "selected_by_reference"
            mem = members(c)
            fc = family_class(c, mem)
            if fc:
                return key + ":" + fc
            if why == "host_only_to_subdomain":
                # normal form of DESIGN.md 11(e): another cookie of the same (domain, name), stored under
                # another (name, domain, path) key, expired or was cleared.  (No ordering condition: the
                # jar evicts lazily, so a cookie that expired before this one was set may be evicted -
                # taking the host-only mark with it - during or after the call that set this one.)
                for sc in mem:
                    if sc.key() != c.key() and ref.fate.get(sc.tag) in ("expired", "cleared"):
                        return key + ":same_name_cookie_removed"
            return key

        def undersend_key(c, host):
            if c.shared:
                rel = "shared"
            elif host == c.domain:
                rel = "exact_host"
            else:
                rel = "subdomain"
            mem = members(c)
            fc = family_class(c, mem)
            if fc:
                return rel + ":" + fc
            if rel == "subdomain" and any(x.host_only for x in mem if x is not c):
                return rel + ":same_name_host_only_cookie"
            return rel

        # ---- observation ---------------------------------------------------
        def observe(qs):
            jar = state["jar"]
            t_now = now()
            if t_now > state["tmax"]:
                state["tmax"] = t_now
            ref.evict(t_now)
            track_fates(state["opi"])
            for s, h, p in qs:
                path = PATHS[p]
                url = _url(s, h, path)
                try:
                    got = jar.filter_cookies(url)
                except Exception as e:
                    violate("no_exception", f"filter_cookies:{type(e).__name__}@{_frame_of(e)}",
                            f"filter_cookies({url}) raised {e!r}")
                    continue
                host = REF_HOSTS[h]
                exp = ref.select(SCHEMES[s], host, None, path, t_now)
                by_name = {}
                for c in exp:
                    by_name.setdefault(c.name, []).append(c)
                if exp:
                    state["attached"] = True
                if len(exp) < len(ref.cookies):
                    state["withheld"] = True
                gl = []
                for name, m in got.items():
                    val = m.value
                    gl.append((name, val))
                    cands = by_name.get(name)
                    if cands is not None and any(c.value == val for c in cands):
                        continue
                    # over-send
                    vt = val_tags.get(val, [val])[-1]  # the latest issue of that value
                    fate = ref.fate.get(vt)
                    c = cookie_of(vt)
                    why = None
                    if fate == "live" and c is not None:
                        why = ref.why_not(c, host, path, ref.is_secure_channel(SCHEMES[s], host, None))
                    key = oversend_key(c, fate, why)
                    fam = (c.domain, c.name) if c is not None else None
                    violate("no_oversend", "oversend:" + key,
                            f"filter_cookies({url}) returned {name}={val} but the RFC 6265 reference forbids it "
                            f"({key}); reference cookie: {c!r} fate={fate}; set by: "
                            f"{info.get(vt, {}).get('hdr')!r} from host {info.get(vt, {}).get('host')!r}; "
                            f"reference would send {[(x.name, x.value) for x in exp]}", fam)
                for name, cands in by_name.items():
                    if name in got:
                        # either one of the candidates, or a cookie already reported as over-sent which
                        # shadows the candidates in the name-keyed mapping
                        continue
                    keyed = sorted(((undersend_key(c, host), i) for i, c in enumerate(cands)),
                                   key=lambda x: (x[0].count(":") == 0, x[1]))
                    key, i = keyed[0]
                    c = cands[i]
                    violate("no_undersend", "undersend:" + key,
                            f"filter_cookies({url}) returned {sorted((k, v.value) for k, v in got.items())} but the "
                            f"RFC 6265 reference sends {name}={c.value} ({key}); reference cookie: {c!r}; set by: "
                            f"{info[c.tag]['hdr']!r} from host {info[c.tag]['host']!r}", (c.domain, c.name))
                gl.sort()
                loop.note("q", f"{s}{h}{p}:{gl}")
            probe("queries", len(qs))

        def track_fates(opi):
            for tag, f in ref.fate.items():
                if f != "live" and tag not in removed_op:
                    removed_op[tag] = opi
                    if f == "expired":
                        probe("ref_expired")
                    elif f == "replaced":
                        probe("ref_replaced")
                    elif f.startswith("rejected:"):
                        probe(f)

        # ---- operations ----------------------------------------------------
        def register(c, tag, hdr, opi):
            """Book-keeping for attribution after the reference accepted cookie c."""
            fam = (c.domain, c.name)
            for t2 in family.get(fam, ()):
                f2 = ref.fate.get(t2)
                if f2 == "replaced" and t2 not in removed_op:
                    pred[tag] = t2
                    removed_op[t2] = opi
                    probe("ref_replaced")
                elif f2 == "expired" and cookie_of(t2).key() == c.key():
                    # expired, but the jar evicts lazily (at the end of the update_cookies call at the
                    # earliest): it may still have held that cookie when this one arrived
                    pred[tag] = t2
            family.setdefault(fam, []).append(tag)
            if len(family[fam]) > 1:
                probe("same_name_in_domain")
            doms = _attrs_of(hdr, "domain")
            if doms and doms[-1] != doms[-1].lower():
                # (was a divergence class of its own, C16-F6, until aiohttp was repaired)
                probe("extra_domain_attribute_not_lower_case")
            syn = syntax_class(hdr)
            if syn:
                family_syntax.setdefault(fam, syn)
                probe("extra_" + syn)
            elif c.persistent and c.expiry == 0.0:
                # (was a divergence class of its own, C16-F5, until aiohttp was repaired)
                probe("expires_at_epoch_zero")

        def do_set(op, opi):
            jar = state["jar"]
            t_now = now()
            u = op.get("u")
            host = REF_HOSTS[u[1]] if u else None
            rpath = u[2] if u else ""
            url = _url(u[0], u[1], u[2]) if u else None
            hdrs = [render(c) for c in op["c"]]
            cls = []
            cookie_before = False
            for spec, hdr in zip(op["c"], hdrs):
                tag = spec.get("t", spec["v"])
                info[tag] = {"op": opi, "hdr": hdr, "host": host}
                c = ref.set_from_header(hdr, host, rpath, t_now, tag)
                if spec.get("ign"):
                    if c is not None:
                        raise RuntimeError(f"C16: the reference stored a cookie for the ignored field {hdr!r} (harness)")
                    probe("ignored_field")
                    probe("ignored_field_" + spec["ign"])
                    if cookie_before:
                        probe("ignored_field_after_cookie_field")
                    if spec["v"] is not None:
                        val_tags.setdefault(spec["v"], []).append(tag)
                    cls.append("ign")
                    continue
                cookie_before = True
                if spec.get("ds"):
                    probe("spelt_expires")
                    e_ = _attrs_of(hdr, "expires")
                    if e_ and not _attrs_of(hdr, "max-age"):
                        ts_ = R.parse_cookie_date(e_[-1])
                        probe("spelt_expires_decides_" + ("void" if ts_ is None else "past" if ts_ <= t_now else "future"))
                        if re.search(r"(?<![\d:])\d\d(?![\d:])[^\d]*(?<![\d:])\d\d(?![\d:])", e_[-1]):
                            probe("spelt_expires_two_digit_year")
                cookie_before = True
                if c is not None:
                    # a value is carried by several tags only when a cookie is issued again (gen), i.e. under one
                    # (domain, path, name); a history where they differ (the shrinker can make one) is ambiguous
                    ks = val_keys.setdefault(spec["v"], set())
                    ks.add(c.key())
                    if len(ks) > 1:
                        state["ambiguous"] = True
                val_tags.setdefault(spec["v"], []).append(tag)
                if c is None:
                    cls.append("rej")
                else:
                    cls.append(("sh" if c.shared else "ho" if c.host_only else "dom")
                               + ("" if not c.persistent else "+exp") + ("+sec" if c.secure else ""))
                    register(c, tag, hdr, opi)
            if op["k"] == "set":
                guarded("update_cookies_from_headers", jar.update_cookies_from_headers, hdrs, url)
            else:
                form = op["form"]
                spec = op["c"][0]
                if form == "shared":
                    guarded("update_cookies", jar.update_cookies, {spec["n"]: spec["v"]})
                elif form == "pairs":
                    guarded("update_cookies", jar.update_cookies, [(spec["n"], spec["v"])], url)
                elif form == "simple":
                    guarded("update_cookies", jar.update_cookies, SimpleCookie(hdrs[0]), url)
                else:
                    guarded("update_cookies", jar.update_cookies, SimpleCookie(hdrs[0]))
            loop.note(op["k"] + ":" + ",".join(cls), "|".join(hdrs))

        def do_clock(op):
            k = op["k"]
            if k == "toexp":
                t_now = now()
                pend = sorted({c.expiry for c in ref.cookies.values() if c.persistent and t_now < c.expiry < 1e15})
                if not pend:
                    dt, how = 1.0, "adv"
                else:
                    target = pend[op["i"] % len(pend)] + op["off"]
                    dt, how = target - t_now, op["how"]
                    if dt < 0:
                        dt = 0.0
                    if op["off"] == 0:
                        probe("landed_on_expiry_instant")
            else:
                dt, how = op["dt"], ("adv" if k == "adv" else "jump")
            if dt < 0:
                # forced observation: both stores evict what is expired before time goes back
                observe([[0, 0, 0]])
                ref.evict(now())
                probe("backward_jump")
            if how == "adv" and dt > 100000:
                how = "jump"  # SimLoop timers stop firing once virtual time exceeds ~1.6e7 s (float resolution)
            if how == "adv":
                loop.advance(dt)
            else:
                loop.wall_clock_skew += dt
                loop.faults["clock_jump"] += 1
            loop.note("clock:" + how, repr(dt))

        def do_reload():
            jar = state["jar"]
            path = _tmp_path()
            try:
                if guarded("save", jar.save, path) is None and not os.path.exists(path):
                    return
                j2 = new_jar()
                guarded("load", j2.load, path)
                state["jar"] = j2
            finally:
                try:
                    os.unlink(path)
                except OSError:
                    pass
            if any(c.host_only for c in ref.cookies.values()):
                probe("reload_with_host_only")
            if any(c.persistent for c in ref.cookies.values()):
                probe("reload_with_deadline")
            ref.restart(now())
            loop.faults["restart"] += 1
            loop.note("reload", "")

        def do_clearp(op):
            by, arg = op["by"], op["arg"]
            if by == "name":
                pj, pr = (lambda m: m.key == arg), (lambda c: c.name == arg)
            elif by == "value":
                pj, pr = (lambda m: m.value == arg), (lambda c: c.value == arg)
            elif by == "path":
                pj, pr = (lambda m: m["path"] == arg), (lambda c: c.path == arg)
            elif by == "secure":
                pj, pr = (lambda m: bool(m["secure"])), (lambda c: c.secure)
            elif by == "domain":
                pj, pr = (lambda m: m["domain"] == arg), (lambda c: c.domain == arg)
            else:
                pj, pr = (lambda m: False), (lambda c: False)
            guarded("clear(predicate)", state["jar"].clear, pj)
            ref.clear_where(pr, now())
            loop.note("clearp:" + by, repr(arg))

        for opi, op in enumerate(ops):
            state["opi"] = opi
            k = op["k"]
            probe("op_" + k)
            if k in ("set", "api"):
                do_set(op, opi)
            elif k in ("adv", "jump", "toexp"):
                do_clock(op)
            elif k == "clear":
                guarded("clear", state["jar"].clear)
                ref.clear(now())
                loop.note("clear", "")
            elif k == "clearp":
                do_clearp(op)
            elif k == "cleard":
                guarded("clear_domain", state["jar"].clear_domain, op["d"])
                ref.clear_domain(op["d"], now())
                loop.note("cleard", op["d"])
            elif k == "iter":
                vals = guarded("iteration", lambda: sorted((m.key, m.value) for m in state["jar"]))
                ref.evict(now())
                loop.note("iter", repr(vals))
            elif k == "len":
                guarded("len", len, state["jar"])
                loop.note("len", "")
            elif k == "reload":
                do_reload()
            track_fates(opi)
            q = op.get("q")
            if q:
                observe(q)
                track_fates(opi)
        state["opi"] = len(ops) - 1
        observe(scn["final"])
        if scn.get("wire"):
            state["opi"] = len(ops)
            _wire_sample(w, scn, state, ref, now, info, register, violate, probe)
            track_fates(len(ops))
            observe(scn["final"][:12])
        if loop.exc_contexts:
            c = loop.exc_contexts[0]
            violate("loop_exception", f"{c['exc_type']}@{c.get('frame')}", f"exception reached the loop: {c}")
        st = w.stats()
        nontrivial = bool(state["attached"] and state["withheld"])
        if state.get("ambiguous"):
            # not a history gen() produces: values are no longer attributable to one cookie
            del viols[:]
            nontrivial = False
            probe("ambiguous_history_not_judged")
        if any(sum(1 for t_ in v_ if not t_.startswith("ign")) > 1 for v_ in val_tags.values()):
            probe("reissued_same_value")
        if nontrivial:
            probe("nontrivial")
        res = {
            "violations": viols, "nontrivial": nontrivial,
            "sig": st["sig"], "digest": st["digest"], "steps": st["steps"], "vtime": st["vtime"],
            "faults": st["faults"], "probes": probes,
            "shape": f"n{len(ops)}-{'u' if cfg['unsafe'] else 's'}{'t' if tas else ''}{'w' if scn.get('wire') else ''}",
        }
        if log:
            res["event_log"] = loop.event_log
        return res


# --------------------------------------------------------------------------
# world C sample


class _CookieServer:
    """Scripted raw HTTP server: records the Cookie header of every request."""

    def __init__(self, loop, set_cookie=None):
        self.loop = loop
        self.conns = []
        self.seen = []  # (target, [Cookie header values])
        self.set_cookie = set_cookie

    def on_connect(self, conn):
        pass

    def on_eof(self, conn):
        if conn.transport is not None:
            conn.transport.close()

    def on_lost(self, conn):
        pass

    def on_data(self, conn):
        from sim.peers import parse_simple_request

        while True:
            r = parse_simple_request(conn.buf)
            if r is None:
                return
            req, used = r
            del conn.buf[:used]
            cookies = [v.decode("latin-1") for k, v in req["headers"] if k.lower() == b"cookie"]
            self.seen.append((req["target"].decode("latin-1"), cookies))
            extra = b""
            if self.set_cookie:
                for f in self.set_cookie:
                    extra += b"Set-Cookie: " + f.encode("latin-1") + b"\r\n"
                self.set_cookie = None  # only the first response sets it
            conn.send(b"HTTP/1.1 200 OK\r\nContent-Length: 0\r\n" + extra + b"\r\n")


def _wire_sample(w, scn, state, ref, now, info, register, violate, probe):
    import aiohttp
    from sim.net import SimResolver
    from sim.peers import RawServerConn

    loop, net = w.loop, w.net
    jar = state["jar"]
    spec = scn.get("wire_set")
    hdr = render(spec) if spec else None
    fields = [hdr] if hdr is not None else []
    ign = scn.get("wire_ignored") if fields else None
    if ign:  # a Set-Cookie field that is ignored as a whole, before or after the one that sets a cookie
        fields.insert(0 if ign["first"] else 1, render(ign["spec"]))
    srv = _CookieServer(loop, fields)
    net.listen(lambda: RawServerConn(srv), "0.0.0.0", 80)
    results = []

    async def client():
        conn = aiohttp.TCPConnector(resolver=SimResolver(net))
        async with aiohttp.ClientSession(connector=conn, cookie_jar=jar) as sess:
            for h, p in scn["wire"]:
                url = _url(0, h, PATHS[p])
                expected = sorted((m.key, m.coded_value) for m in jar.filter_cookies(url).values())
                n0 = len(srv.seen)
                t_set = now()
                async with sess.get(url, allow_redirects=False) as resp:
                    await resp.read()
                seen = srv.seen[n0:]
                results.append((url, expected, seen))
                if hdr is not None and len(results) == 1:
                    info[spec["v"]] = {"op": len(scn["ops"]), "hdr": hdr, "host": REF_HOSTS[h]}
                    c = ref.set_from_header(hdr, REF_HOSTS[h], PATHS[p], t_set, spec["v"])
                    if c is not None:
                        register(c, spec["v"], hdr, len(scn["ops"]))
                    if ign:
                        ref.set_from_header(render(ign["spec"]), REF_HOSTS[h], PATHS[p], t_set, ign["spec"]["t"])

    task = loop.run_sim(client(), vt_cap=loop.time() + 30.0, step_cap=loop.steps + 20000)
    if not task.done():
        raise RuntimeError("C16 wire sample did not finish (harness)")
    if task.exception() is not None:
        e = task.exception()
        violate("no_exception", f"client_request:{type(e).__name__}@{_frame_of(e)}", f"ClientSession.get raised {e!r}")
        return
    for url, expected, seen in results:
        probe("wire_requests")
        if len(seen) != 1:
            raise RuntimeError(f"C16 wire sample: server saw {len(seen)} requests for {url}")
        target, cookie_hdrs = seen[0]
        sent = []
        for v in cookie_hdrs:
            for part in v.split(";"):
                part = part.strip()
                if part:
                    n, _, val = part.partition("=")
                    sent.append((n, val))
        sent.sort()
        if len(cookie_hdrs) > 1:
            violate("wire_cookie_header_matches_filter", "multiple_cookie_headers",
                    f"request to {url} carried {len(cookie_hdrs)} Cookie header fields: {cookie_hdrs}")
        elif sent != expected:
            kind = "extra_on_wire" if set(sent) - set(expected) else "missing_on_wire"
            violate("wire_cookie_header_matches_filter", kind,
                    f"request to {url} carried Cookie {cookie_hdrs} but filter_cookies returned {expected}")
        if sent:
            probe("wire_cookie_sent")
    if hdr is not None:
        probe("wire_set_cookie")
    if ign:
        probe("wire_ignored_field")


def oracle_selftest():
    R.oracle_selftest()
    # the date formats the generator uses mean what the generator thinks they mean
    for ts in (0, int(EPOCH0), int(EPOCH0) + 5, int(EPOCH0) - 10 ** 9, int(EPOCH0) + 86400 * 400):
        for f in range(8):
            s = fmt_date(ts, f)
            got = R.parse_cookie_date(s)
            if got != ts:
                raise AssertionError(f"fmt_date({ts},{f}) = {s!r} parses to {got}")
            if (f <= 5) != bool(_STD_DATE.match(s)):
                raise AssertionError(f"date shape classifier wrong for {s!r}")
    # hand-checked: the year rule of RFC 6265 5.1.1 in the spellings of spell_date()
    #   2069-01-01 = 99 years and 25 leap days after the epoch; 2068-01-01 = 98 years and 24 leap days;
    #   1601-01-01 is the Windows FILETIME epoch, 11644473600 s before 1970
    for s, want in (
        ("Tue, 01-Jan-69 00:00:00 GMT", (99 * 365 + 25) * 86400),
        ("Tuesday, 01-Jan-69 00:00:00 GMT", 3124224000),
        ("Sun, 01 Jan 68 00:00:00 GMT", (98 * 365 + 24) * 86400),
        ("Thursday, 01-Jan-70 00:00:00 GMT", 0),
        ("Fri, 31-Dec-99 23:59:59 GMT", 946684799),
        ('"Jan/01/00/00:00:00"', 946684800),
        ('"0:0:1, 01, Jan, 070"', 1),
        ('"1:2:3-04-Jul-069"', 3124224000 + (31 + 28 + 31 + 30 + 31 + 30 + 3) * 86400 + 3723),
        ("Mon Jan  1 00:00:00 1601", -11644473600),
        ("Thu, 15 Jun 1600 12:00:00 GMT", None),
        ("Thu, 01 Jan 0070 00:00:00 GMT", 0),  # the rule reads the value of the year, not its digits
        ("Tue, 01 Jan 2069 00:00:00 GMT", 3124224000),
    ):
        got = R.parse_cookie_date(s)
        if got != want:
            raise AssertionError(f"parse_cookie_date({s!r}) = {got}, hand-checked {want}")
        if not (_STD_DATE.match(s) or _STD_DATE2.match(s)):
            raise AssertionError(f"date shape classifier wrong for {s!r}")
    for s, ts, cls in (
        ('"2069 Jan 05 00:00:00"', 3124224000 + 4 * 86400, "expires_year_before_day_of_month"),
        ('"00:00:00 2069-Jan-05"', 3124224000 + 4 * 86400, "expires_year_before_day_of_month"),
        ('"Jan 069 05 00:00:00"', 3124224000 + 4 * 86400, "expires_year_before_day_of_month"),
        ('"05 2069 Jan 00:00:00"', 3124224000 + 4 * 86400, None),
        ("Wed, 30 Feb 2000 00:00:00 GMT", None, "expires_no_such_date"),
        ("Mon Feb 29 00:00:00 1900", None, "expires_no_such_date"),
        ("Tuesday, 29-Feb-00 00:00:00 GMT", 946684800 + (31 + 28) * 86400, None),
        ("Thu, 15 Jun 1600 12:00:00 GMT", None, None),
    ):
        if R.parse_cookie_date(s) != ts or date_class(s) != cls:
            raise AssertionError(f"{s!r}: parse_cookie_date {R.parse_cookie_date(s)} (hand-checked {ts}), "
                                 f"date_class {date_class(s)} (hand-checked {cls})")
    for args, want in (
        (("69", 1, 1, 0, 0, 0, 3), "Tue, 01-Jan-69 00:00:00 GMT"), (("70", 1, 1, 0, 0, 0, 1), "Thursday, 01-Jan-70 00:00:00 GMT"),
        (("1601", 1, 1, 0, 0, 0, 2), "Mon Jan  1 00:00:00 1601"), (("00", 1, 1, 0, 0, 0, 5, "mdyt", "/"), '"Jan/01/00/00:00:00"'),
        (("069", 7, 4, 1, 2, 3, 5, "tdmy", "-", True), '"1:2:3-04-Jul-069"'),
    ):
        if spell_date(*args) != want:
            raise AssertionError(f"spell_date{args} = {spell_date(*args)!r}")
    if fmt_date(0, 0) != "Thu, 01 Jan 1970 00:00:00 GMT" or fmt_date(1700000000, 2) != "Tue Nov 14 22:13:20 2023":
        raise AssertionError("fmt_date")


# --------------------------------------------------------------------------
# Proposed known_findings.json entries (round 1).  Not read by the runner; kept here so that the keys
# produced above and the entries stay next to each other.  Each was confirmed by hand on the unchanged
# tree with plain aiohttp calls (no simulator) and judged against the text of RFC 6265.

PROPOSED_KNOWN_FINDINGS = [
    {
        "id": "C16-F1", "property": "C16", "status": "known", "invariant": "no_oversend",
        "key_regex": "oversend:host_only_to_subdomain:same_name_cookie_removed",
        "summary": "CookieJar keeps its host-only marks per (domain, name) instead of per (domain, path, name): when "
                   "any cookie of that name and domain expires or is cleared (_delete_cookies), the mark is discarded "
                   "and a surviving host-only cookie of the same name at another path is from then on sent to every "
                   "sub-domain (and persisted as a domain cookie by save())",
        "example": "Set-Cookie 'a=1; Path=/' and 'a=2; Path=/p; Max-Age=5' from http://example.com/, advance 10 s: "
                   "filter_cookies(http://sub.example.com/) returns a=1. Also: 'a=1; Path=/' then 'a=x; Path=/p; Max-Age=0'.",
    },
    {
        "id": "C16-F2", "property": "C16", "status": "known", "invariant": "no_undersend",
        "key_regex": "undersend:subdomain:same_name_host_only_cookie",
        "summary": "same (domain, name) keying of host-only marks: a domain cookie (Domain=example.com) that shares its "
                   "name with a host-only cookie of example.com (other path, or the cookie it replaced) is treated as "
                   "host-only and withheld from sub-domains",
        "example": "Set-Cookie 'a=1; Path=/' then 'a=2; Path=/p; Domain=example.com' from http://example.com/: "
                   "filter_cookies(http://sub.example.com/p) returns nothing; RFC 6265 sends a=2.",
    },
    {
        "id": "C16-F3", "property": "C16", "status": "known",
        "key_regex": "(oversend|undersend):[a-z_]+:replaced_cookie_deadline_passed",
        "summary": "update_cookies never drops the (domain, path, name) entry of CookieJar._expirations when a cookie is "
                   "overwritten by one without Max-Age/Expires: the session cookie that replaced a persistent one is "
                   "deleted when the *old* deadline passes (RFC 6265 5.3 step 11: the new cookie has no expiry). Within "
                   "one response, 'a=x; Max-Age=0' followed by 'a=y' deletes a=y at once. (The wrong deletion also "
                   "discards the host-only mark of C16-F1, hence the over-send variants.)",
        "example": "Set-Cookie 'a=1; Max-Age=5' then 'a=2' from http://example.com/, advance 5 s: "
                   "filter_cookies(http://example.com/) returns nothing; RFC 6265 sends a=2.",
    },
    {
        "id": "C16-F4", "property": "C16", "status": "known",
        "key_regex": "(oversend|undersend):[a-z_]+:same_name_path_differs_by_trailing_slash",
        "summary": "the jar keys cookies by path.rstrip('/'), so 'a; Path=/p' and 'a; Path=/p/' are one cookie to it "
                   "(the later replaces the earlier, deleting one deletes the other) although RFC 6265 5.3 step 11 "
                   "compares the path exactly; after 'Path=/p/' replaced 'Path=/p' nothing is sent to /p",
        "example": "Set-Cookie 'a=1; Path=/p' then 'a=2; Path=/p/' from http://example.com/: "
                   "filter_cookies(http://example.com/p) returns nothing; RFC 6265 sends a=1.",
    },
    {
        "id": "C16-F5", "property": "C16", "status": "known",
        "key_regex": "(oversend|undersend):[a-z_]+:expires_at_epoch_zero",
        "summary": "update_cookies tests the parsed Expires date for truth ('if expire_time := self._parse_date(expires)'): "
                   "the date 'Thu, 01 Jan 1970 00:00:00 GMT' parses to 0 and is treated as unparsable, so the usual "
                   "delete-this-cookie idiom stores a *session* cookie (with the placeholder value) instead of "
                   "deleting; one second later (00:00:01) works",
        "example": "Set-Cookie 'a=1' then 'a=gone; Expires=Thu, 01 Jan 1970 00:00:00 GMT' from http://example.com/: "
                   "filter_cookies(http://example.com/) returns a=gone for ever.",
    },
    {
        "id": "C16-F6", "property": "C16", "status": "known",
        "key_regex": "(oversend|undersend):[a-z_]+:domain_attribute_not_lower_case",
        "summary": "the Domain attribute is not lower-cased (RFC 6265 5.2.3) before it is domain-matched against the "
                   "lower-case request host: 'Domain=Example.COM' from example.com is refused as a cross-site cookie",
        "example": "Set-Cookie 'a=1; Domain=EXAMPLE.COM' from http://example.com/: nothing is stored.",
    },
    {
        "id": "C16-F7", "property": "C16", "status": "known",
        "key_regex": "(oversend|undersend):[a-z_]+:max_age_not_rfc_syntax",
        "summary": "Max-Age is parsed with int(): values RFC 6265 5.2.2 ignores are honoured ('+5', '5_0'), and "
                   "when int() fails ('abc', '1.5') the Expires attribute of the same cookie is ignored as well "
                   "(elif), so an already expired cookie is kept as a session cookie",
        "example": "'a=1; Max-Age=abc; Expires=Tue, 14 Nov 2000 22:13:20 GMT' is stored and sent; "
                   "'a=1; Max-Age=+5' expires after 5 s although RFC 6265 makes it a session cookie.",
    },
    {
        "id": "C16-F8", "property": "C16", "status": "known",
        "key_regex": "(oversend|undersend):[a-z_]+:expires_nonstandard_date_format",
        "summary": "parse_set_cookie_headers only tokenises an unquoted Expires value in three fixed shapes; any other "
                   "date that the RFC 6265 5.1.1 algorithm accepts (no week day: '14 Nov 2030 22:13:25 GMT'; lower "
                   "case 'gmt') ends parsing of that Set-Cookie: Expires is lost and so is every attribute after it, "
                   "including Secure, Path and Domain (the check puts such dates last, so only the lost Expires is "
                   "counted under this key)",
        "example": "'a=1; Expires=14 Nov 2030 22:13:25 GMT; Secure; Path=/p' from https://example.com/ is stored as a "
                   "non-Secure host-only session cookie with path / and sent to http://example.com/.",
    },
    {
        "id": "C16-F9", "property": "C16", "status": "known",
        "key_regex": "(oversend|undersend):[a-z_]+:path_multiple_trailing_slashes",
        "summary": "all trailing slashes are stripped from the cookie path for indexing and only the length is compared "
                   "when selecting: a cookie with Path=/p// is sent to /p/q although '/p//' is not a prefix of '/p/q'",
        "example": "Set-Cookie 'a=1; Path=/p//' from http://example.com/: filter_cookies(http://example.com/p/q) returns a=1.",
    },
]
