"""C05 - server connection: each request answered once, in order, or closed.

World S: real aiohttp.web Application/AppRunner/TCPSite/RequestHandler behind
SimNet; one scripted raw client per run.  See DESIGN.md section 9, C05.
"""
from __future__ import annotations

from gen import http_gen as G
from props import _srv
from ref import http1
from sim.world import World

PROP = "C05"
LEVEL = "exploration"
DESIGN_REF = "9/C05"
BUDGET = {"quick": 60, "thorough": 900}
BATCH = 60
TECHNIQUE = ("deterministic simulation: real server on a virtual-time loop and in-memory network, scripted hostile "
             "client, seeded segmentation/pause/disconnect faults, independent response splitter as oracle")
LEVEL_TEXT = (
    "Seeded exploration of byte streams x handler behaviours x segmentation x client read pauses x disconnect points "
    "against the real web server; the server's output is cut by an independent strict response splitter and the "
    "connection's end state is judged at quiescence after faults stop. Sampling, not proof."
)
LEVEL_NOTE = (
    "Trusted: ref/http1.py (request framer used only to count requests and find their methods; response splitter), "
    "SimNet's TCP model. Bounds: <=80 pipelined requests, <=64 KiB per stream, one connection per run. "
    "The parsed-but-unhandled cap is cross-checked white-box against RequestHandler._messages."
)
RULE = (
    "Run = request stream from the C01 grammar (valid pipelines up to depth 80, smuggling mutations, byte mutations, "
    "truncation) x per-request handler behaviour (read/ignore/partial/sleep/raise/timeout/cancel/non-response/stream/"
    "write-then-raise/lazy attributes/upgrade) x segmentation policy per direction x client read pause x kill "
    "(reset/eof/half-close at byte k or before loop step k); 12 %: one handler fails after it started a streamed response "
    "(stage prepare/write/short Content-Length body/suspended/completed x end exception/timeout/cancel/HTTPException/"
    "non-response); 7 %: a client keeps one handler busy and sends 12-100 separate writes of unparsable input (some mixed "
    "with well-formed requests); 10 %: handlers answer with web.Response(body=<BytesIO / StringIO / buffered reader / Payload "
    "instance / async generator>) with status 200/204/304, half of them on a short pipeline rich in HEAD. Non-trivial: >=2 requests reached a handler and at least "
    "one of {error response, transport pause, kill fired, client read pause}. Distinct = interleaving signature."
)
COMPONENTS = {
    "real": ["aiohttp.web.Application/AppRunner/TCPSite", "web_protocol.RequestHandler", "http_parser (Python)",
             "http_writer.StreamWriter (Python)", "web_request/web_response", "asyncio tasks, timers"],
    "stub": ["network (SimNet)", "client peer (scripted RawClient)", "TLS", "access log disabled"],
}
ASSUMPTIONS = [
    "TCP stream semantics of SimNet (no loss/reorder inside a direction)",
    "a close by the server is seen by the client as EOF after the bytes in flight (no RST race modelled)",
    "handler code is the harness' own; 'handler running' is taken from middleware entry/exit counters",
]

BEHAVIOURS = ["read", "read", "read", "ignore", "partial", "sleep:1", "sleep:5", "sleep:40", "http403", "http204",
              "exc", "timeout", "cancelled", "nonresp", "stream", "stream:cl", "write_then_raise", "lazy", "ws",
              "readchunks", "bigresp:70000"]
HOSTILE_TARGETS = ["http://a:65536/", "http://[::1/", "http://[v1]/", "a://[", "http://[::1]:x/", "//[", "/\x00",
                   "http://h.test:0x50/", "http://%zz/", "HTTP://H.TEST/../..", "/" + "%" * 9, "http:///p", "?q",
                   "http://h.test:/", "http://h.test:80:80/", "http://\xff\xfe/", "/a?b#c", "h.test:443"]
HOSTILE_HOSTS = ["[::1", "a:99999", "a:b", "\xff", "", " ", "a b", "a,b", "[v1.x]", "a:-1", "xn--\x80"]


def gen(rng, tier, index):
    mode = rng.random()
    if mode < 0.25:
        # deep valid pipeline (around the queue limit of 32 and its low-water mark)
        n = rng.choice([20, 31, 32, 33, 34, 48, 64, 65, 80])
        s = G.gen_stream(rng, nreq=n, mutate=False, body_max=40)
    elif mode < 0.40:
        # hostile targets / Host values inside an otherwise valid pipeline
        n = rng.randint(1, 4)
        reqs = [G.gen_request(rng, i, body_max=60) for i in range(n)]
        k = rng.randrange(n)
        if rng.random() < 0.7:
            reqs[k]["target"] = rng.choice(HOSTILE_TARGETS)
            if rng.random() < 0.3:
                reqs[k]["method"] = "CONNECT"
        else:
            reqs[k]["headers"] = [h for h in reqs[k]["headers"] if h[0].lower() != "host"] + [["Host", rng.choice(HOSTILE_HOSTS)]]
        s = {"stream": "".join(G.serialize(r) for r in reqs), "nreq": n, "mutation": "hostile", "mut_index": k, "bytemut": None}
    elif mode < 0.50:
        # an Upgrade request (accepted or declined by the handler) followed by a tail: the parser
        # stops at the upgrade, buffers the tail, and re-parses it if the upgrade is declined
        n = rng.randint(0, 2)
        pre = "".join(G.serialize(G.gen_request(rng, i, body_max=40)) for i in range(n))
        up = ("GET /ws HTTP/1.1\r\nHost: h.test\r\nUpgrade: websocket\r\nConnection: Upgrade\r\n"
              "Sec-WebSocket-Key: dGhlIHNhbXBsZSBub25jZQ==\r\nSec-WebSocket-Version: 13\r\nX-Tag: up\r\n\r\n")
        tail = rng.choice([
            "", "GET /after HTTP/1.1\r\nHost: h.test\r\n\r\n", "garbage line without structure\r\n\r\n",
            "GET /" + "t" * 9000 + " HTTP/1.1\r\nHost: h.test\r\n\r\n", "\x88\x80\x00\x00\x00\x00", "\x00\xff\xfe",
            "GET /x HTTP/1.1\r\nHost: h.test\r\nBad Header\r\n\r\n",
            "POST /p HTTP/1.1\r\nHost: h.test\r\nContent-Length: 3\r\n\r\nabcGET /q HTTP/1.1\r\nHost: h.test\r\n\r\n"])
        s = {"stream": pre + up + tail, "nreq": n + 1, "mutation": "upgrade_tail", "mut_index": n, "bytemut": None}
    else:
        s = G.gen_stream(rng, max_req=8, bytemut=0.15, truncate=0.1)
    stream = s["stream"]
    # cut into writes
    nw = rng.choice([1, 1, 2, 3, 5])
    cuts = sorted(rng.randrange(1, max(2, len(stream))) for _ in range(nw - 1)) if len(stream) > 1 else []
    lockstep = rng.random() < 0.3
    if lockstep:
        # a well-behaved client: one write per request, the next one only after a pause (so that whatever
        # state the previous exchange left behind - paused reading, timers - is what the next request meets)
        ends = [m["end"] for m in http1.parse_requests(G.enc(stream))[0]]
        cuts = sorted(set(e for e in ends if 0 < e < len(stream) and rng.random() < 0.8))
    writes = []
    prev = 0
    for c in cuts + [len(stream)]:
        if c > prev:
            writes.append([rng.choice([3, 10, 30] if lockstep and prev else [0, 0, 1, 3, 10]), c - prev])
            prev = c
    nb = rng.randint(1, 6)
    behaviours = [rng.choice(BEHAVIOURS) for _ in range(nb)]
    kill = None
    r = rng.random()
    if r < 0.12:
        kill = {"dir": "c2s", "at": rng.randrange(1, max(2, len(stream))), "kind": rng.choice(["reset", "eof", "half_close"])}
    elif r < 0.2:
        kill = {"dir": "s2c", "at": rng.randrange(1, 400), "kind": "reset"}
    elif r < 0.27:
        kill = {"dir": "step", "at": rng.randrange(3, 200), "kind": rng.choice(["reset", "eof"])}
    rd_pause = None
    if rng.random() < 0.2:
        rd_pause = [rng.choice([0, 1, 5]), rng.choice([5, 50, 500])]
    scn = {
        "stream": stream, "writes": writes, "behaviours": behaviours, "kill": kill, "rd_pause": rd_pause,
        "end": rng.choice(["keep", "keep", "close", "half_close"]), "end_delay": rng.choice([0, 5, 50]),
        "pol_c2s": rng.choice(["whole", "whole", "byte", "tiny", "small", "mixed", "after_cr"]),
        "pol_s2c": rng.choice(["whole", "whole", "small", "mixed", "mss"]),
        "lat": rng.choice([0, 1, 3]),
        "server_kw": {"keepalive_timeout": rng.choice([75, 75, 0.05, 1]), "lingering_time": rng.choice([10.0, 0.0, 0.5]),
                      "max_line_size": rng.choice([8190, 8190, 200]), "max_field_size": rng.choice([8190, 8190, 300]),
                      "max_headers": rng.choice([128, 128, 20]), "read_bufsize": rng.choice([65536, 64, 16])},
        "meta": {"mutation": s["mutation"], "nreq": s["nreq"]},
    }
    # --- features added after the third round of seeded changes; drawn last so that every other scenario
    # stays what it was
    extra = rng.random()
    if extra < 0.12:
        # a handler that fails (or ends oddly) AFTER it has started a streamed response: every stage of the
        # response x every way of ending.  Only the started response may be on the wire for that request.
        stage, how = rng.choice(FAIL_STAGES), rng.choice(FAIL_HOWS)
        if stage == "clwrite" and how == "none":
            # (returning normally with a body shorter than the announced Content-Length is a handler that
            # breaks its own framing, not a failing one: left out)
            how = "exc"
        beh = "fail_after:" + stage + "-" + how
        scn["behaviours"][rng.randrange(len(scn["behaviours"]))] = beh
    elif extra < 0.19:
        _flood(rng, scn)
    elif extra < 0.29:
        # --- added after the fifth round: plain web.Response objects whose body is a Payload (file-like object,
        # text stream, async generator, Payload instance) instead of bytes, including where the response must
        # not have a body at all (status 204 / 304, answer to HEAD)
        _payload_bodies(rng, scn)
    return scn


FAIL_STAGES = ["prepare", "write", "write", "clwrite", "pause", "eof"]
FAIL_HOWS = ["none", "exc", "timeout", "timeout", "realtimeout", "cancelled", "http403", "nonresp"]
JUNK = ["this is not http %d\r\n\r\n", "GET /j%d HTTP/9.9\r\nHost: h.test\r\n\r\n",
        "GET /j%d HTTP/1.1\r\nHost: h.test\r\nBad Header\r\n\r\n", "G\x00T /%d HTTP/1.1\r\n\r\n",
        "POST /j%d HTTP/1.1\r\nHost: h.test\r\nContent-Length: x\r\n\r\n", "%d\r\n\r\n"]


PAYLOAD_FORMS = ["bytesio", "bytesio", "strio", "bufrd", "bytespl", "agen", "agen"]


def _payload_beh(rng):
    return "payload:%s-%d-%d" % (rng.choice(PAYLOAD_FORMS), rng.choice([200, 200, 204, 304]), rng.choice([0, 0, 40, 3000]))


def _payload_bodies(rng, scn):
    """Handlers answer with web.Response(body=<object converted to a Payload>).  Half of the time the stream is
    what it was (any method; 204 / 304 statuses make body-less responses), otherwise a short valid keep-alive
    pipeline in which HEAD is frequent, so that a HEAD request meets such a handler and is followed by more."""
    nb = rng.randint(1, 3)
    behs = [_payload_beh(rng) if rng.random() < 0.7 else rng.choice(["read", "ignore", "stream", "http204"]) for _ in range(nb)]
    behs[rng.randrange(nb)] = _payload_beh(rng)
    if rng.random() < 0.5:
        n = rng.randint(1, 5)
        reqs = []
        for i in range(n):
            r = G.gen_request(rng, i, body_max=40)
            if rng.random() < 0.6:
                r["method"] = "HEAD"
            reqs.append(r)
        stream = "".join(G.serialize(r) for r in reqs)
        scn["stream"] = stream
        scn["writes"] = [[0, len(stream)]] if rng.random() < 0.6 else \
            [[rng.choice([0, 3, 10]), m["end"] - m["start"]] for m in http1.parse_requests(G.enc(stream))[0]]
        if sum(w_[1] for w_ in scn["writes"]) != len(stream):
            scn["writes"] = [[0, len(stream)]]
        scn["meta"] = {"mutation": "payload_head", "nreq": n}
    else:
        scn["meta"] = dict(scn["meta"], mutation="payload_" + str(scn["meta"]["mutation"]))
    scn["behaviours"] = behs
    if rng.random() < 0.6:
        scn["kill"] = None


def _flood(rng, scn):
    """A client that keeps one handler busy and meanwhile sends many separate pieces - unparsable input,
    mixed with a few well-formed requests - each in its own write: whatever the server queues for them
    (requests waiting for a handler, errors waiting for their 400) has to stay bounded."""
    p = rng.randint(0, 2)
    pre = "".join(G.serialize(G.gen_request(rng, i, body_max=30)) for i in range(p))
    slow = "GET /slow HTTP/1.1\r\nHost: h.test\r\nX-Tag: slow\r\n\r\n"
    k = rng.choice([12, 31, 33, 40, 64, 100])
    style = rng.choice(["junk", "junk", "mixed", "one"])
    kind = rng.choice(JUNK)
    pieces = []
    for i in range(k):
        if style == "mixed" and rng.random() < 0.3:
            pieces.append("GET /ok%d HTTP/1.1\r\nHost: h.test\r\n\r\n" % i)
        else:
            pieces.append((kind if style == "one" else rng.choice(JUNK)) % i)
    first = pre + slow
    scn["stream"] = first + "".join(pieces)
    scn["writes"] = [[0, len(first)]] + [[rng.choice([0, 1, 1, 2, 3]), len(x)] for x in pieces]
    scn["behaviours"] = [rng.choice(["read", "ignore", "http204", "lazy"]) for _ in range(p)] + \
        [rng.choice(["sleep:400", "sleep:3000"]), rng.choice(BEHAVIOURS)]
    scn["meta"] = {"mutation": "flood_" + style, "nreq": p + 1}
    if rng.random() < 0.7:
        scn["kill"] = None


def shrink(scn):
    # fewer writes, no pauses/kill, simpler policies, fewer behaviours, shorter stream (drop whole requests)
    if scn["kill"] is not None:
        yield dict(scn, kill=None)
    if scn["rd_pause"] is not None:
        yield dict(scn, rd_pause=None)
    if len(scn["writes"]) > 1:
        yield dict(scn, writes=[[0, len(scn["stream"])]])
    for k in ("pol_c2s", "pol_s2c"):
        if scn[k] != "whole":
            yield dict(scn, **{k: "whole"})
    if scn["lat"]:
        yield dict(scn, lat=0)
    if len(scn["behaviours"]) > 1:
        for i in range(len(scn["behaviours"])):
            yield dict(scn, behaviours=scn["behaviours"][:i] + scn["behaviours"][i + 1:])
    for i, b in enumerate(scn["behaviours"]):
        if b != "read":
            yield dict(scn, behaviours=scn["behaviours"][:i] + ["read"] + scn["behaviours"][i + 1:])
    if scn["end"] != "keep":
        yield dict(scn, end="keep")
    # fewer pieces: drop the last writes together with their bytes (floods of many small writes)
    if len(scn["writes"]) > 2:
        for keep in sorted({len(scn["writes"]) // 2, len(scn["writes"]) - 1}):
            nbytes = sum(w_[1] for w_ in scn["writes"][:keep])
            yield dict(scn, stream=scn["stream"][:nbytes], writes=[list(w_) for w_ in scn["writes"][:keep]])
    # a handler failing after it started a response: the plainest stage / the shortest sleep that still fails
    for i, b in enumerate(scn["behaviours"]):
        if b.startswith("fail_after:") and not b.startswith("fail_after:write-"):
            yield dict(scn, behaviours=scn["behaviours"][:i] + ["fail_after:write-" + b.partition("-")[2]] + scn["behaviours"][i + 1:])
        if b == "sleep:3000":
            yield dict(scn, behaviours=scn["behaviours"][:i] + ["sleep:400"] + scn["behaviours"][i + 1:])
        # a Payload body: the plainest form (an in-memory binary file), the shortest text
        if b.startswith("payload:"):
            form, st_, size = (b[len("payload:"):].split("-") + ["200", "0"])[:3]
            for cand in ("payload:bytesio-%s-%s" % (st_, size), "payload:%s-%s-0" % (form, st_)):
                if cand != b:
                    yield dict(scn, behaviours=scn["behaviours"][:i] + [cand] + scn["behaviours"][i + 1:])
    # drop one request (cut at reference message boundaries)
    data = G.enc(scn["stream"])
    msgs, verdict = http1.parse_requests(data, _limits(scn))
    bounds = [m["start"] for m in msgs] + [msgs[-1]["end"]] if msgs else []
    for i in range(len(bounds) - 1):
        cand = data[:bounds[i]] + data[bounds[i + 1]:]
        if cand:
            yield dict(scn, stream=G.dec(cand), writes=[[0, len(cand)]])
    kw = scn["server_kw"]
    dflt = {"keepalive_timeout": 75, "lingering_time": 10.0, "max_line_size": 8190, "max_field_size": 8190,
            "max_headers": 128, "read_bufsize": 65536}
    for k, v in dflt.items():
        if kw.get(k) != v:
            yield dict(scn, server_kw=dict(kw, **{k: v}))


import re as _re

_STATUS_LINE = _re.compile(rb"HTTP/\d\.\d (\d\d\d) ")  # aiohttp echoes the request's version, whatever it is (e.g. HTTP/2.0)
# judgments made on the response stream: meaningless (consequences only) once a started response has been
# overwritten by another one - that is reported once, under its cause, as one_response_once_started
WIRE_RULES = ("well_formed_responses", "in_order_once", "at_most_one_response", "complete_responses", "reject_closes",
              "no_orphan_request")


def _limits(scn):
    kw = scn["server_kw"]
    return {"max_line_size": kw["max_line_size"], "max_field_size": kw["max_field_size"], "max_headers": kw["max_headers"]}


def run(scn, ch, log=False):
    from aiohttp import web_protocol

    viols = []

    corrupt = []  # set once a second response head was found inside a started response (see below)

    def violate(inv, key, msg):
        if corrupt and inv in WIRE_RULES:
            return
        if not any(v["invariant"] == inv for v in viols):
            viols.append({"invariant": inv, "key": key, "message": msg})

    with World(ch, 0, log_events=log) as w:
        loop, net = w.loop, w.net
        net.max_latency_ticks = scn["lat"]
        obs = _srv.Obs()
        app = _srv.make_app(loop, obs, scn["behaviours"])
        kw = dict(scn["server_kw"])
        t = loop.run_sim(_srv.start_app(loop, app, kw), vt_cap=10)
        runner = t.result()
        data = G.enc(scn["stream"])
        pieces = []
        pos = 0
        for d, n in scn["writes"]:
            pieces.append([d, data[pos:pos + n]])
            pos += n
        cl, ctr, str_ = _srv.connect_client(w, pieces, end=scn["end"], end_delay=scn["end_delay"])
        ctr.out.policy = scn["pol_c2s"]
        str_.out.policy = scn["pol_s2c"]
        kill = scn["kill"]
        if kill is not None:
            if kill["dir"] == "c2s":
                ctr.out.kill_at, ctr.out.kill_kind = kill["at"], kill["kind"]
            elif kill["dir"] == "s2c":
                # the client dies after having received k bytes
                str_.out.kill_at, str_.out.kill_kind = kill["at"], "peer_reset"
            else:
                def do_kill(kind=kill["kind"]):
                    if not ctr._closed:
                        loop.faults["kill_step_" + kind] += 1
                        net.kill(ctr, kind)
                loop.at_step.setdefault(loop.steps + kill["at"], []).append(do_kill)
        if scn["rd_pause"] is not None:
            t0, dur = scn["rd_pause"]

            def hold():
                net.hold(str_.out)
                loop.faults["client_rd_pause"] += 1
                loop.sim_call_later(dur * 0.001, net.release, str_.out)
            loop.sim_call_later(t0 * 0.001, hold)
        cap = getattr(web_protocol, "MAX_MSG_QUEUE_SIZE", 32)
        proto = str_.protocol
        state = {"maxq": 0, "maxall": 0, "maxerr": 0}

        ErrInfo = getattr(web_protocol, "_ErrInfo", ())

        def step_inv():
            q = getattr(proto, "_messages", None)
            if q is not None and len(q) > state["maxall"]:
                # everything the connection holds for later: parsed requests waiting for a handler and
                # parse errors waiting for their 400 (one entry per read that hit unparsable input).
                # Error entries are no requests, so by themselves they do not count towards the cap
                # (re-parsing an over-long buffered line while reading is paused can add a few); but a
                # server that has more than the cap queued and still reads on lets the peer grow the
                # queue for as long as one handler stays busy.
                state["maxall"] = len(q)
                nerr = sum(1 for m_, _ in q if isinstance(m_, ErrInfo))
                state["maxerr"] = max(state["maxerr"], nerr)
                if len(q) > cap and len(q) - nerr <= cap and not str_._read_paused \
                        and not (str_._closed or str_._closing):
                    violate("pipeline_cap", "queue_over_cap_and_still_reading",
                            f"{len(q)} entries queued behind the running handler ({nerr} of them parse errors "
                            f"waiting for their 400; cap {cap}) and the server has not stopped reading")
            if q is not None and len(q) > state["maxq"]:
                n = sum(1 for m_, _ in q if not isinstance(m_, ErrInfo))
                if n > state["maxq"]:
                    state["maxq"] = n
                    if n > cap:
                        violate("pipeline_cap", "queue_over_cap", f"{n} parsed-but-unhandled requests queued (cap {cap})")
            if loop.exc_contexts:
                c = loop.exc_contexts[0]
                violate("loop_exception", f"{c['exc_type']}@{c.get('frame')}",
                        f"exception reached the event loop: {c['message']} {c['exc']} frame={c.get('frame')}")

        loop.step_hooks.append(step_inv)
        horizon = sum(d for d, _ in scn["writes"]) * 0.001 + scn["end_delay"] * 0.001 + 12.0 + kw["lingering_time"]
        if scn["rd_pause"]:
            horizon += sum(scn["rd_pause"]) * 0.001
        loop.run_sim(None, vt_cap=loop.time() + min(horizon, 60.0), step_cap=400_000)
        step_capped = loop.capped == "steps"  # harness bound reached: end state is not judged

        # ------------------------------------------------------------- judge
        delivered = data[:ctr.out.delivered]
        limits = _limits(scn)
        msgs, verdict = http1.parse_requests(delivered, limits)
        # HEAD detection from what the handlers saw (independent of the reference framing)
        methods = [rec["method"].upper().encode("latin-1") for rec in obs.seen]
        client_gone = ctr._closed or ctr._closing or cl.lost is not None or cl.eof  # close() stops the reading side at once
        server_closed = str_._closed or str_._closing
        resps, rest = http1.split_responses(bytes(cl.received), methods=methods, closed=client_gone)
        killed = any(k.startswith("kill_") for k in loop.faults) or step_capped
        finals = [r for r in resps if not r.get("interim")]
        complete_finals = [r for r in finals if r["complete"]]
        # A request whose handler has started a response gets that response and nothing else: between the
        # moment its handler was called and the moment the next handler is called, the server writes one
        # final response head.  Judged textually on the bytes the client received (the bodies these handlers
        # write are the harness' own and contain no status line), so it also holds when the second head sits
        # inside the unfinished body of the first, where the splitter can only say "malformed".
        rx = bytes(cl.received)
        for i, rec in enumerate(obs.seen):
            how = rec.get("started")
            if how is None or rec.get("out0") is None:
                continue
            lo = rec["out0"]
            hi = obs.seen[i + 1]["out0"] if i + 1 < len(obs.seen) and obs.seen[i + 1].get("out0") is not None else len(rx)
            heads = [m for m in _STATUS_LINE.finditer(rx, lo, min(hi, len(rx))) if m.group(1)[:1] != b"1"]
            if len(heads) > 1:
                corrupt.append(i)
                key = "second_head_after_started_response:" + {"http403": "http_exception", "nonresp": "non_response_returned"}.get(how, how)
                if not any(v["key"] == key for v in viols):
                    viols.append({"invariant": "one_response_once_started", "key": key, "message":
                                  f"handler call #{i} ({scn['behaviours'][i % len(scn['behaviours'])] if scn['behaviours'] else '?'}) "
                                  f"started a response and then ended with '{how}'; the server wrote {len(heads)} response "
                                  f"heads for this one request (statuses {[int(m.group(1)) for m in heads]}): "
                                  f"{rx[lo:min(hi, len(rx))][:300]!r}"})
        for r in resps:
            if r["framing"] == "eof" and not killed:
                nxt = b"\r\nX-Resp: " in r["body"]
                if nxt or (not server_closed and obs.handler_running == 0):
                    violate("well_formed_responses", "close_delimited_response_not_followed_by_close",
                            f"response {r['status']} (HTTP/{r['version'][0]}.{r['version'][1]}) has neither Content-Length nor "
                            f"chunked framing, so only closing the connection can end it, but the server "
                            f"{'sent another response after it' if nxt else 'left the connection open'}")

        def bodyless_then_bytes():
            """the last complete response must not carry a body (HEAD / 204 / 304) and bytes follow it"""
            done = [r for r in resps if r["complete"]]
            if not done:
                return None
            r = done[-1]
            i = len([x for x in done if not x.get("interim")]) - 1
            meth = methods[i] if 0 <= i < len(methods) else b"?"
            if r["framing"] == "none" and len(cl.received) > r["end"] and not cl.received[r["end"]:r["end"] + 5] == b"HTTP/":
                return f"{meth.decode('latin-1')}/{r['status']}"
            return None

        if isinstance(rest, tuple) and rest[0] == "malformed":
            bb = bodyless_then_bytes()
            if bb is not None:
                violate("well_formed_responses", f"body_bytes_after_bodyless_response:{bb.split('/')[0] if bb.startswith('HEAD') else bb.split('/')[1]}",
                        f"response to {bb} must not have a body but is followed by bytes that are not a response: "
                        f"{rest}; handler behaviours={scn['behaviours']}")
            else:
                violate("well_formed_responses", "malformed_output",
                        f"server output is not a sequence of well-formed responses: {rest}; output head={bytes(cl.received[:200])!r}")
        upgraded = isinstance(rest, tuple) and rest[0] == "upgraded"
        # order / at most one response per request: the i-th response answers the i-th handler call
        for i, r in enumerate(finals):
            tag = next((v for n, v in r["headers"] if n.lower() == b"x-resp"), None)
            if tag is not None and int(tag) != i:
                violate("in_order_once", "tag_mismatch",
                        f"response #{i} carries handler tag {tag!r}: responses out of order, duplicated or skipped")
        if len(finals) > obs.handler_started and not upgraded:
            violate("at_most_one_response", "more_responses_than_handler_calls",
                    f"{len(finals)} responses but only {obs.handler_started} requests reached a handler")
        # (no count against the reference framer here: whether the server finds the same
        # requests as a strict reading is C01's question, not C05's)
        if rest == "partial" and not killed and not client_gone and not server_closed and obs.handler_running == 0 \
                and not (scn["rd_pause"] and str_.out.held) and not (resps and resps[-1]["framing"] == "eof"):
            bb = bodyless_then_bytes()
            if bb is not None:
                violate("well_formed_responses", f"body_bytes_after_bodyless_response:{bb.split('/')[0] if bb.startswith('HEAD') else bb.split('/')[1]}",
                        f"response to {bb} must not have a body but is followed by stray bytes {bytes(cl.received[-40:])!r}; "
                        f"handler behaviours={scn['behaviours']}")
            else:
                violate("complete_responses", "incomplete_at_quiescence",
                        f"server left an incomplete response at quiescence: {bytes(cl.received[-120:])!r}")
        # what the server itself found unparsable (its parser error path) must end the connection:
        # the 400 is the last response and the transport is closed
        for rec in obs.seen:
            if rec["pre_error"] and not killed and not upgraded:
                i = rec["n"]
                if len(finals) > i + 1:
                    violate("reject_closes", "response_after_parse_error",
                            f"parser error answered as response #{i} but {len(finals) - i - 1} more responses followed")
                elif len(complete_finals) > i:
                    if not 400 <= finals[i]["status"] < 500:
                        violate("reject_closes", "parse_error_not_4xx", f"parser error answered with {finals[i]['status']}")
                    if not server_closed and not client_gone:
                        violate("reject_closes", "open_after_parse_error",
                                "parser error answered but the server left the connection open")
                break
        # a declined upgrade: the buffered tail is re-parsed as HTTP; unparsable bytes there must be
        # answered with a 4xx like any other unparsable input
        SAFE = ("no_colon", "request_line_shape", "bad_version", "bad_method", "bad_name", "limit_line")
        if verdict[0] == "DONT_CARE" and verdict[2] == "upgrade_requested" and not upgraded and not killed \
                and scn["end"] == "keep" and obs.handler_running == 0 and delivered.isascii():
            tailb = delivered[verdict[1]:]
            _tm, tv = http1.parse_requests(tailb, limits)
            # the answer to the declined upgrade and to every well-formed request of the tail: any of them may
            # legitimately have ended the connection (Connection: close, HTTP/1.0, an error answer)
            upresps = finals[len(msgs) - 1:] if 0 < len(msgs) <= len(complete_finals) else None
            said_close = upresps is None or any(
                any(n.lower() == b"connection" and b"close" in v.lower() for n, v in r_["headers"])
                or r_["version"] == (1, 0) or r_["status"] >= 500 or not r_["complete"] or r_["framing"] == "eof"
                for r_ in upresps)
            # premise of this rule: the tail mechanism is involved at all - an upgrade aiohttp knows (any other
            # offer is simply ignored and the pipeline rules above apply) on a request without a body (with an
            # unread body the server may close instead of reading on: lingering)
            # ... or a handler call from the declined upgrade on ended in a failure (exception, timeout, cancellation,
            # bad return value), possibly after its response was complete: the server then gives the connection up
            _behs = scn["behaviours"] or ["read"]
            _FAIL = ("fail_after", "exc", "timeout", "cancelled", "nonresp", "write_then_raise")
            if any(_behs[k_ % len(_behs)].split(":")[0] in _FAIL for k_ in range(max(0, len(msgs) - 1), len(obs.seen))):
                said_close = True
            um = msgs[-1] if msgs else None
            uval = b"".join(v for n, v in (um["headers"] if um else ()) if n.lower() == b"upgrade").strip().lower()
            tail_rule = um is not None and uval in (b"websocket", b"tcp") and not um["body"] and not um.get("chunked")
            if tail_rule and tv[0] == "REJECT" and tv[2] in SAFE and b"\r\n\r\n" in tailb[tv[1]:] and len(complete_finals) >= len(msgs) and not said_close:
                last = finals[-1]["status"] if finals else None
                if server_closed and (last is None or not 400 <= last < 500):
                    violate("reject_closes", f"unparsable_tail_after_declined_upgrade_without_4xx",
                            f"the handler declined an Upgrade request; the bytes behind it are unparsable ({tv[2]}) but the "
                            f"connection was closed without a 4xx: statuses={[r['status'] for r in finals]}")
        # forbidden end state: open, a complete request (head) received but neither answered nor
        # being handled.  Judged on what is syntactically a complete header block, whatever the
        # reference thinks of its validity: the server must dispatch it or refuse it.
        if not server_closed and not client_gone and not upgraded and obs.handler_running == 0 and not killed \
                and not (scn["rd_pause"] and str_.out.held):
            k = len(complete_finals)
            tunnel = verdict[0] == "DONT_CARE" and verdict[2] in ("connect_tunnel", "upgrade_requested")
            if k >= obs.handler_started and k <= len(msgs) and not (tunnel and k == len(msgs)):
                offset = msgs[k - 1]["end"] if k > 0 else 0
                restb = delivered[offset:].lstrip(b"\r\n")
                if b"\r\n\r\n" in restb:
                    _m, v1 = http1.parse_requests(restb, limits)
                    cls = v1[0] + (":" + str(v1[2]) if len(v1) > 2 else "")
                    violate("no_orphan_request", f"open_unanswered_no_handler:{cls}",
                            f"connection open, a complete request head {restb[:80]!r} was received but is neither "
                            f"answered nor being handled (responses={len(finals)}, handler calls={obs.handler_started}, "
                            f"reference says {v1})")
        # second forbidden end state: open, nothing being handled, the client's next bytes are waiting in the
        # network, and the server has stopped reading - nothing is left that could ever resume it
        if not server_closed and not client_gone and not upgraded and obs.handler_running == 0 and not killed \
                and str_._read_paused and ctr.out.buf and len(complete_finals) >= obs.handler_started:
            pending = bytes(ctr.out.buf[:60]) if not isinstance(ctr.out.buf, (list, tuple)) else b""
            kq = len(complete_finals)
            # the circumstance is named from the last request a handler was given (what the server itself made
            # of the bytes; the strict reading may have stopped earlier)
            why = ""
            if obs.seen:
                hd = {n_.lower(): v_.lower() for n_, v_ in obs.seen[-1]["headers"]}
                if b"upgrade" in hd.get(b"connection", b"") and hd.get(b"upgrade", b"").strip() in (b"websocket", b"tcp") \
                        and (hd.get(b"content-length", b"0").strip() not in (b"0", b"") or b"transfer-encoding" in hd):
                    why = ":after_declined_upgrade_with_body"
            violate("no_orphan_request", "open_idle_but_not_reading" + why,
                    f"connection open, every started handler has answered ({len(complete_finals)} responses), "
                    f"{len(data) - ctr.out.delivered} request bytes wait undelivered ({pending!r}...) but the server "
                    f"paused reading and never resumed; handler behaviours={scn['behaviours']}")
        for name, msg_, et, ex in net.fatal_errors:
            violate("loop_exception", f"fatal:{et}", f"fatal protocol error on {name}: {msg_} {ex}")
        # let keep-alive / lingering timers run out: nothing may blow up
        loop.run_sim(None, vt_cap=loop.time() + 80.0, step_cap=loop.steps + 50_000)
        step_inv()
        t2 = loop.run_sim(runner.cleanup(), vt_cap=loop.time() + 200.0)
        if not t2.done():
            violate("cleanup_returns", "cleanup_blocked", "AppRunner.cleanup() did not return within 200 virtual seconds")
        step_inv()
        st = w.stats()
        statuses = [r["status"] for r in finals]
        nontrivial = obs.handler_started >= 2 and (
            any(s >= 400 for s in statuses) or st["faults"].get("pause_reading") or st["faults"].get("pause_writing")
            or killed or st["faults"].get("client_rd_pause"))
        probes = {
            "verdict_" + verdict[0]: 1, "queue_reached_cap": int(state["maxq"] >= cap),
            "queue_paused": int(bool(st["faults"].get("pause_reading"))), "resp_4xx": int(any(400 <= s < 500 for s in statuses)),
            "resp_5xx": int(any(s >= 500 for s in statuses)), "handler_cancelled": int(obs.handler_cancelled > 0),
            "upgraded": int(upgraded), "step_capped": int(step_capped),
            "started_then_" + "+".join(sorted(set(str(r.get("started")) for r in obs.seen if r.get("started") not in (None, "none")))): 1,
            "queue_all_reached_cap": int(state["maxall"] >= cap),
            "err_entries_queued_ge8": int(state["maxerr"] >= 8),
        }
        probes.pop("started_then_", None)
        _b = scn["behaviours"]
        _pl = [(rec, _b[rec["n"] % len(_b)]) for rec in obs.seen if _b and not rec["pre_error"] and _b[rec["n"] % len(_b)].startswith("payload:")]
        probes["payload_body_response"] = int(bool(_pl))
        probes["payload_body_on_bodyless_response"] = int(any(
            rec["method"].upper() == "HEAD" or b_.split("-")[1] in ("204", "304") for rec, b_ in _pl))
        res = {
            "violations": viols, "nontrivial": bool(nontrivial), "sig": st["sig"], "digest": st["digest"],
            "steps": st["steps"], "vtime": st["vtime"], "faults": st["faults"],
            "probes": {k: v for k, v in probes.items() if v},
            "shape": f"{scn['meta']['mutation']}-{verdict[0]}-{len(scn['behaviours'])}b-{scn['pol_c2s']}",
        }
        if log:
            res["event_log"] = loop.event_log
            res["debug"] = {"received": bytes(cl.received[:2000]), "verdict": verdict, "seen": len(obs.seen)}
        return res
